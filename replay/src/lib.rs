// replay harness: see tests/
