// replay harness: see tests/
//! Every wait in the bounded stand-ins is scaled by the environment variable REPLAY_SCALE (default 1). The driver re-runs a failing
//! stand-in with a larger scale before it believes the failure, so that a loaded machine cannot turn a slow run into an alarm.
use std::time::Duration;

pub fn scale() -> u64 { std::env::var("REPLAY_SCALE").ok().and_then(|s| s.parse().ok()).filter(|n| *n >= 1).unwrap_or(1) }
pub fn ms(n: u64) -> Duration { Duration::from_millis(n * scale()) }
pub fn secs(n: u64) -> Duration { Duration::from_secs(n * scale()) }
