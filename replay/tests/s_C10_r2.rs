//
// Demonstration for C10 ("different Desync objects make progress independently").
//
// Scenario: four unrelated Desync objects on the global pool (max threads >= 8, so there is always a thread that may
// still be spawned):
//
//  * `doomed_1` and `doomed_2` each run a job that waits for a gate and then panics (this kills the pool thread that
//    was running the job, the scheduler is expected to reap those threads later on)
//  * `blocked` runs a job that waits on an external gate for an arbitrarily long time
//  * `other` is idle, and gets a trivial job scheduled while `blocked` is still waiting on its gate
//
// `other`'s job must run promptly, and the call that scheduled it must return promptly: neither has anything to do
// with `blocked`.
//

use desync::Desync;
use desync::scheduler::*;

use std::mem;
use std::sync::*;
use std::sync::mpsc;
use std::thread;
use std::time::Duration;

#[test]
fn other_object_runs_while_one_is_blocked_and_two_pool_threads_have_died() {
    let doomed_1    = Desync::new(0u32);
    let doomed_2    = Desync::new(0u32);
    let blocked     = Desync::new(0u32);
    let other       = Arc::new(Desync::new(0u32));

    let (started_tx, started_rx)        = mpsc::channel::<&'static str>();
    let (fail_1_tx, fail_1_rx)          = mpsc::channel::<()>();
    let (fail_2_tx, fail_2_rx)          = mpsc::channel::<()>();
    let (unblock_tx, unblock_rx)        = mpsc::channel::<()>();

    // Three jobs on three different objects: they occupy the first three pool threads, in this order
    let started = started_tx.clone();
    doomed_1.desync(move |_| {
        started.send("doomed_1").ok();
        fail_1_rx.recv().ok();
        panic!("doomed_1 job fails (this panic is part of the demonstration)");
    });
    assert_eq!(started_rx.recv_timeout(Duration::from_secs(5)), Ok("doomed_1"));

    let started = started_tx.clone();
    doomed_2.desync(move |_| {
        started.send("doomed_2").ok();
        fail_2_rx.recv().ok();
        panic!("doomed_2 job fails (this panic is part of the demonstration)");
    });
    assert_eq!(started_rx.recv_timeout(Duration::from_secs(5)), Ok("doomed_2"));

    let started = started_tx.clone();
    blocked.desync(move |val| {
        started.send("blocked").ok();
        unblock_rx.recv().ok();
        *val = 1;
    });
    assert_eq!(started_rx.recv_timeout(Duration::from_secs(5)), Ok("blocked"));

    // The panicked objects can't be used (or dropped normally) any more
    mem::forget(doomed_1);
    mem::forget(doomed_2);

    // Three busy pool threads at this point
    let pool_state = format!("{:?}", scheduler());
    assert!(pool_state.starts_with("BBB "), "Unexpected pool state: {}", pool_state);

    // The two doomed jobs panic, which kills their pool threads. Give the threads plenty of time to finish dying.
    fail_1_tx.send(()).unwrap();
    fail_2_tx.send(()).unwrap();
    thread::sleep(Duration::from_millis(1000));

    // `blocked` is still waiting on its gate. Schedule something on `other` from a helper thread
    let (ran_tx, ran_rx)            = mpsc::channel::<()>();
    let (returned_tx, returned_rx)  = mpsc::channel::<()>();
    let helper_other                = Arc::clone(&other);
    let helper                      = thread::spawn(move || {
        helper_other.desync(move |val| {
            *val = 42;
            ran_tx.send(()).ok();
        });
        returned_tx.send(()).ok();
    });

    let other_ran       = ran_rx.recv_timeout(Duration::from_secs(3)).is_ok();
    let other_returned  = returned_rx.recv_timeout(Duration::from_millis(500)).is_ok();
    let pool_state      = format!("{:?}", scheduler());

    // Clean up: open the gate so everything can finish whatever happened above
    unblock_tx.send(()).unwrap();
    helper.join().ok();
    assert_eq!(blocked.sync(|val| *val), 1);
    assert_eq!(other.sync(|val| *val), 42);

    assert!(other_returned, "desync() on an idle object did not return while a different object was blocked (pool: {})", pool_state);
    assert!(other_ran, "job on an idle object did not run while a different object was blocked (pool: {})", pool_state);
}
