//
// Demonstration for C09: a `try_sync` that reports `Busy` must leave the queue undisturbed, so that
// everything queued before or after it still completes.
//
// A 'worker' thread repeatedly runs `sync(|| desync(job))` on a queue: the desync is issued from inside the
// sync closure, so when the sync finishes the queue has one job waiting and has to be handed to the thread pool.
// A 'prober' thread hammers the same queue with `try_sync`. Every try_sync either returns Ok (and must have had
// exclusive access) or Busy (and must not have run its closure). Whatever the outcomes, every round of the
// worker must finish: the background job must run and the following `sync` must return.
//

extern crate desync;

use desync::scheduler::*;

use std::sync::*;
use std::sync::atomic::{AtomicBool, AtomicUsize, Ordering};
use std::thread;
use std::time::{Duration, Instant};

const ROUNDS: usize         = 20_000;
const STALL_LIMIT: Duration = Duration::from_secs(3);
const HARD_LIMIT: Duration  = Duration::from_secs(25);

fn run_rounds(max_threads: usize) {
    let scheduler   = Arc::new(Scheduler::new());
    scheduler.set_max_threads(max_threads);

    let queue       = scheduler.create_job_queue();

    // Number of rounds the worker has completed, number of background jobs that ran
    let rounds_done = Arc::new(AtomicUsize::new(0));
    let jobs_run    = Arc::new(AtomicUsize::new(0));
    let finished    = Arc::new(AtomicBool::new(false));

    // Set while anything is running with exclusive access to the queue
    let in_queue    = Arc::new(AtomicBool::new(false));
    let overlaps    = Arc::new(AtomicUsize::new(0));

    // try_sync statistics
    let probe_ok    = Arc::new(AtomicUsize::new(0));
    let probe_busy  = Arc::new(AtomicUsize::new(0));
    let busy_ran    = Arc::new(AtomicUsize::new(0));

    // Prober: hammers the queue with try_sync
    let prober = {
        let scheduler   = Arc::clone(&scheduler);
        let queue       = Arc::clone(&queue);
        let finished    = Arc::clone(&finished);
        let in_queue    = Arc::clone(&in_queue);
        let overlaps    = Arc::clone(&overlaps);
        let probe_ok    = Arc::clone(&probe_ok);
        let probe_busy  = Arc::clone(&probe_busy);
        let busy_ran    = Arc::clone(&busy_ran);

        thread::spawn(move || {
            while !finished.load(Ordering::SeqCst) {
                let ran     = AtomicBool::new(false);
                let result  = scheduler.try_sync(&queue, || {
                    if in_queue.swap(true, Ordering::SeqCst) { overlaps.fetch_add(1, Ordering::SeqCst); }
                    ran.store(true, Ordering::SeqCst);
                    in_queue.store(false, Ordering::SeqCst);
                    1
                });

                match result {
                    Ok(1)   => { probe_ok.fetch_add(1, Ordering::SeqCst); }
                    Ok(_)   => { unreachable!() }
                    Err(_)  => {
                        probe_busy.fetch_add(1, Ordering::SeqCst);
                        if ran.load(Ordering::SeqCst) { busy_ran.fetch_add(1, Ordering::SeqCst); }
                    }
                }
            }
        })
    };

    // Worker: sync(|| desync(job)), then wait for the job with another sync
    let worker = {
        let scheduler   = Arc::clone(&scheduler);
        let queue       = Arc::clone(&queue);
        let rounds_done = Arc::clone(&rounds_done);
        let jobs_run    = Arc::clone(&jobs_run);
        let in_queue    = Arc::clone(&in_queue);
        let overlaps    = Arc::clone(&overlaps);

        thread::spawn(move || {
            for round in 0..ROUNDS {
                // Schedule a background job from inside a sync: the queue has a job waiting when the sync finishes
                scheduler.sync(&queue, || {
                    if in_queue.swap(true, Ordering::SeqCst) { overlaps.fetch_add(1, Ordering::SeqCst); }

                    let jobs_run        = Arc::clone(&jobs_run);
                    let job_in_queue    = Arc::clone(&in_queue);
                    let job_overlaps    = Arc::clone(&overlaps);
                    scheduler.desync(&queue, move || {
                        if job_in_queue.swap(true, Ordering::SeqCst) { job_overlaps.fetch_add(1, Ordering::SeqCst); }
                        jobs_run.fetch_add(1, Ordering::SeqCst);
                        job_in_queue.store(false, Ordering::SeqCst);
                    });

                    in_queue.store(false, Ordering::SeqCst);
                });

                // Everything queued so far must have run by the time this returns
                let seen = scheduler.sync(&queue, || jobs_run.load(Ordering::SeqCst));
                assert!(seen == round + 1, "Round {}: sync returned before the queued job ran ({} jobs run)", round, seen);

                rounds_done.store(round + 1, Ordering::SeqCst);
            }
        })
    };

    // Watchdog: the worker must keep making progress
    let start           = Instant::now();
    let mut last_rounds = 0;
    let mut last_change = Instant::now();
    let mut stalled     = None;

    loop {
        thread::sleep(Duration::from_millis(20));

        let rounds = rounds_done.load(Ordering::SeqCst);
        if rounds >= ROUNDS || worker.is_finished() { break; }

        if rounds != last_rounds {
            last_rounds = rounds;
            last_change = Instant::now();
        } else if last_change.elapsed() > STALL_LIMIT {
            stalled = Some(rounds);
            break;
        }

        if start.elapsed() > HARD_LIMIT { break; }
    }

    finished.store(true, Ordering::SeqCst);
    prober.join().expect("prober thread should not panic");

    let oks     = probe_ok.load(Ordering::SeqCst);
    let busys   = probe_busy.load(Ordering::SeqCst);
    println!("max_threads={}: {} rounds, try_sync Ok x{}, Busy x{}", max_threads, rounds_done.load(Ordering::SeqCst), oks, busys);

    if let Some(rounds) = stalled {
        panic!("Queue stopped making progress after {} rounds (try_sync: {} Ok, {} Busy): state is {:?}, scheduler is {:?}. \
            A job queued on the object never ran and a later sync() never returned",
            rounds, oks, busys, queue, scheduler);
    }

    // The worker finished (or ran out of time while still making progress); if it finished it must not have panicked
    if worker.is_finished() {
        worker.join().expect("worker thread should not panic");
    }

    assert!(busy_ran.load(Ordering::SeqCst) == 0, "try_sync ran its closure but reported Busy");
    assert!(overlaps.load(Ordering::SeqCst) == 0, "two operations had access to the queue at the same time");

    // With nothing queued or in progress, try_sync must succeed
    if rounds_done.load(Ordering::SeqCst) >= ROUNDS {
        assert!(scheduler.try_sync(&queue, || 42) == Ok(42), "try_sync on a quiescent queue should succeed: {:?}", queue);
    }
}

#[test]
fn busy_try_sync_does_not_disturb_queue_one_thread() {
    run_rounds(1);
}

#[test]
fn busy_try_sync_does_not_disturb_queue_three_threads() {
    run_rounds(3);
}
