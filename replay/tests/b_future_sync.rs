//! BOUNDED stand-in (not a proof) for `SchedulerFuture::sync` when its text is outside Verus's reach: `.sync()` on the future of a
//! future_desync operation returns Ok(the operation's value) from every calling context.
//! Bound: contexts {plain thread, inside a job on a pool thread, inside a job that is being run by a task polling another future
//! (pool size 0), inside such a job with every pool thread busy (pool 1)} x {operation not started yet, operation already finished}.
use desync::scheduler::*;
use futures::executor;
use std::sync::*;
use std::thread;
use std::time::Duration;

fn with_timeout<F: 'static + Send + FnOnce() -> Result<(), String>>(what: &str, f: F) -> Result<(), String> {
    let (tx, rx) = mpsc::channel();
    thread::spawn(move || { let r = std::panic::catch_unwind(std::panic::AssertUnwindSafe(f)).unwrap_or_else(|_| Err("panicked".to_string())); tx.send(r).ok(); });
    match rx.recv_timeout(desync_replay::secs(4)) { Ok(r) => r.map_err(|e| format!("{}: {}", what, e)), Err(_) => Err(format!("{}: did not return within 4s", what)) }
}

fn sync_value(sched: &Arc<Scheduler>, finished_first: bool) -> Result<(), String> {
    let qb = sched.create_job_queue();
    let f = sched.future_desync(&qb, || async { 42 });
    if finished_first { sched.sync(&qb, || ()); }
    match f.sync() { Ok(42) => Ok(()), other => Err(format!(".sync() returned {:?}", other.map_err(|_| "Canceled"))) }
}

#[test]
fn future_sync_method_returns_the_value_in_every_context() {
    let mut failures = vec![];
    for finished_first in [false, true] {
        // plain thread, pool of 2
        let r = with_timeout("plain thread", move || { let s = Arc::new(Scheduler::new()); s.set_max_threads(2); sync_value(&s, finished_first) });
        if let Err(e) = r { failures.push(format!("finished_first={} {}", finished_first, e)); }
        // inside a job on a pool thread
        let r = with_timeout("inside a pool job", move || {
            let s = Arc::new(Scheduler::new()); s.set_max_threads(2);
            let qa = s.create_job_queue(); let s2 = s.clone();
            let (tx, rx) = mpsc::channel();
            s.desync(&qa, move || { tx.send(sync_value(&s2, finished_first)).ok(); });
            rx.recv_timeout(desync_replay::secs(3)).map_err(|_| "job never reported".to_string())?
        });
        if let Err(e) = r { failures.push(format!("finished_first={} {}", finished_first, e)); }
        // inside a job that a polling task runs itself (no pool thread / all busy)
        for pool in 0..=1usize {
            let r = with_timeout("inside a job run by a polling task", move || {
                let s = Arc::new(Scheduler::new()); s.set_max_threads(pool); s.despawn_threads_if_overloaded();
                let gate = Arc::new((Mutex::new(false), Condvar::new()));
                for _ in 0..pool { let q = s.create_job_queue(); let g = gate.clone(); s.desync(&q, move || { let mut x = g.0.lock().unwrap(); while !*x { x = g.1.wait(x).unwrap(); } }); }
                thread::sleep(desync_replay::ms(50));
                let qa = s.create_job_queue(); let s2 = s.clone();
                let (tx, rx) = mpsc::channel();
                s.desync(&qa, move || { tx.send(sync_value(&s2, finished_first)).ok(); });
                let fut = s.future_desync(&qa, || async { 1 });
                let got = executor::block_on(fut);
                { *gate.0.lock().unwrap() = true; gate.1.notify_all(); }
                if got != Ok(1) { return Err("outer future did not resolve".to_string()); }
                rx.recv_timeout(desync_replay::secs(3)).map_err(|_| "job never reported".to_string())?
            });
            if let Err(e) = r { failures.push(format!("finished_first={} pool={} {}", finished_first, pool, e)); }
        }
    }
    for f in &failures { println!("REPLAY failing case: {}", f); }
    println!("REPLAY bounded cases=8 failures={}", failures.len());
    assert!(failures.is_empty(), "{:?}", failures);
}
