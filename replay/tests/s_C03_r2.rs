//
// Demonstration for seed C03: "no operation is lost, duplicated or left stranded"
//
// After a job has been run in the foreground by `sync()`, the queue is handed back in two steps: it is marked as idle,
// then (if anything was queued while the foreground job was running) it is put back in the schedule for a pool thread.
// Between those two steps the queue is 'idle, but with operations waiting'. A `try_sync()` caller that looks at the
// queue at exactly that moment has to leave it alone (it's busy): whatever it does, the operation that was scheduled
// from inside the foreground job must still run, with no further calls needed to kick the queue.
//
// One thread repeatedly schedules an operation from inside a `sync()` job and waits (without calling the scheduler)
// for it to run, while another thread polls the same queue with `try_sync()`. The main thread just watches for progress.
//
// Only the public API is used: a private Scheduler with a small pool, and the Debug output of JobQueue/Scheduler.
//

use desync::scheduler::*;

use std::sync::*;
use std::sync::atomic::{AtomicBool, AtomicUsize, Ordering};
use std::thread;
use std::time::{Duration, Instant};

/// How long each stress run lasts if nothing goes wrong
const RUN_TIME: Duration = Duration::from_secs(8);

/// If an accepted operation has not run after this long (with nothing ahead of it and an idle pool), it's stranded
const STRANDED_AFTER: Duration = Duration::from_millis(2500);

///
/// Runs the stress test against a scheduler with the specified pool size. Returns a description of the problem if an operation was stranded.
///
fn schedule_from_sync_while_polling_with_try_sync(max_threads: usize) -> Result<usize, String> {
    let scheduler   = Arc::new(Scheduler::new());
    scheduler.set_max_threads(max_threads);

    let queue       = scheduler.create_job_queue();
    let stop        = Arc::new(AtomicBool::new(false));
    let accepted    = Arc::new(AtomicUsize::new(0));
    let ran         = Arc::new(AtomicUsize::new(0));
    let polled      = Arc::new(AtomicUsize::new(0));

    // The try_sync thread: polls the queue, doing nothing much if it happens to be available
    {
        let (scheduler, queue, stop, polled) = (Arc::clone(&scheduler), Arc::clone(&queue), Arc::clone(&stop), Arc::clone(&polled));
        thread::spawn(move || {
            while !stop.load(Ordering::Relaxed) {
                if scheduler.try_sync(&queue, || { }).is_ok() {
                    polled.fetch_add(1, Ordering::Relaxed);
                }
            }
        });
    }

    // The scheduling thread: runs a foreground job that schedules a background operation on the same queue, then waits for that operation
    {
        let (scheduler, queue, stop, accepted, ran) = (Arc::clone(&scheduler), Arc::clone(&queue), Arc::clone(&stop), Arc::clone(&accepted), Arc::clone(&ran));
        thread::spawn(move || {
            let mut count = 0;

            while !stop.load(Ordering::Relaxed) {
                count += 1;

                scheduler.sync(&queue, || {
                    let ran = Arc::clone(&ran);
                    scheduler.desync(&queue, move || { ran.fetch_add(1, Ordering::SeqCst); });
                });
                accepted.store(count, Ordering::SeqCst);

                // The operation has been accepted: it should now run without any help from this thread
                while ran.load(Ordering::SeqCst) < count && !stop.load(Ordering::Relaxed) {
                    std::hint::spin_loop();
                }
            }
        });
    }

    // Watch for progress
    let start               = Instant::now();
    let mut last_ran        = 0;
    let mut last_progress   = Instant::now();
    let mut result          = Ok(0);

    while Instant::now().duration_since(start) < RUN_TIME {
        thread::sleep(Duration::from_millis(20));

        let now_ran = ran.load(Ordering::SeqCst);
        if now_ran != last_ran {
            last_ran        = now_ran;
            last_progress   = Instant::now();
        } else if Instant::now().duration_since(last_progress) > STRANDED_AFTER {
            result = Err(format!("max threads {}: {} operations accepted but only {} ever ran ({} try_syncs succeeded). Nothing is running, but: [{:?}] [{:?}]",
                max_threads, accepted.load(Ordering::SeqCst).max(now_ran+1), now_ran, polled.load(Ordering::Relaxed), queue, scheduler));
            break;
        }
    }

    stop.store(true, Ordering::SeqCst);

    if result.is_ok() {
        // Everything should go quiet with nothing queued or marked as running
        thread::sleep(Duration::from_millis(200));
        let quiet = format!("{:?}", queue);
        if !quiet.contains("State: Idle, Pending: 0") {
            return Err(format!("max threads {}: queue not idle when quiet: {}", max_threads, quiet));
        }

        println!("max threads {}: {} operations scheduled and run, {} try_syncs succeeded", max_threads, last_ran, polled.load(Ordering::Relaxed));
        result = Ok(last_ran);
    }

    result
}

#[test]
fn operation_scheduled_from_sync_job_while_try_sync_polls_queue() {
    // Pools of 1, 2 and 3 threads at the same time (independent schedulers)
    let runs = (1..=3).map(|max_threads| thread::spawn(move || schedule_from_sync_while_polling_with_try_sync(max_threads))).collect::<Vec<_>>();
    let runs = runs.into_iter().map(|run| run.join().expect("Stress thread panicked")).collect::<Vec<_>>();

    let problems = runs.iter().filter_map(|run| run.as_ref().err().cloned()).collect::<Vec<_>>();
    assert!(problems.is_empty(), "Stranded operations:\n{}", problems.join("\n"));
}
