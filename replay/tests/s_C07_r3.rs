//
// Demonstration for C07: the value of a `future_desync` operation can always be obtained by waiting with `.sync()`,
// whichever thread ends up running the operation's queue and whatever that thread happens to be in the middle of.
//
// `.sync()` is the documented way to wait for a future from a non-async piece of code. That code is not always at
// the bottom of a plain thread though: a job on a Desync queue is 'non-async' code, and it runs on whichever thread
// is draining its queue. Usually that's a pool thread, but when every pool thread is busy (or the pool is empty) a
// task that awaits a future of that queue runs the queue itself, from inside its executor's poll. A job that
// calls `.sync()` then finds itself waiting while the thread is already in the middle of polling a task.
//
// Each scenario below must produce the operation's value (42).
//

use desync::Desync;
use desync::scheduler::*;

use futures::prelude::*;
use futures::executor;
use futures::channel::oneshot;

use std::panic::{catch_unwind, AssertUnwindSafe};
use std::sync::mpsc;
use std::sync::*;
use std::thread;
use std::time::Duration;

///
/// Runs a test on its own thread and fails if it doesn't finish in time or panics
///
fn run_with_timeout<TFn: 'static + Send + FnOnce() -> ()>(name: &str, action: TFn) {
    let (done_tx, done_rx) = mpsc::channel();

    thread::Builder::new()
        .name(name.to_string())
        .spawn(move || {
            let result = catch_unwind(AssertUnwindSafe(action));
            let result = result.map_err(|panic| {
                if let Some(msg) = panic.downcast_ref::<&str>()         { msg.to_string() }
                else if let Some(msg) = panic.downcast_ref::<String>()  { msg.clone() }
                else                                                    { "<panic>".to_string() }
            });
            done_tx.send(result).ok();
        })
        .unwrap();

    match done_rx.recv_timeout(Duration::from_secs(10)) {
        Ok(Ok(()))      => { }
        Ok(Err(msg))    => panic!("{}: failed: {}", name, msg),
        Err(_)          => panic!("{}: timed out", name)
    }
}

///
/// A job on queue A waits for an operation on queue B using `.sync()`. Every pool thread is busy (or there are none), so the
/// task that awaits a future on queue A ends up running queue A itself.
///
fn sync_from_job_run_by_polling_task(pool_size: usize) {
    let scheduler = Arc::new(Scheduler::new());
    scheduler.set_max_threads(pool_size);
    scheduler.despawn_threads_if_overloaded();

    // Keep every pool thread busy until we're done
    let mut release_pool    = vec![];
    let (busy_tx, busy_rx)  = mpsc::channel();
    for _ in 0..pool_size {
        let (release_tx, release_rx)    = mpsc::channel::<()>();
        let busy_tx                     = busy_tx.clone();
        let busy_queue                  = scheduler.create_job_queue();

        scheduler.desync(&busy_queue, move || {
            busy_tx.send(()).ok();
            release_rx.recv_timeout(Duration::from_secs(20)).ok();
        });
        release_pool.push(release_tx);
    }
    for _ in 0..pool_size {
        busy_rx.recv_timeout(Duration::from_secs(5)).expect("Pool threads should start their jobs");
    }

    let queue_a = scheduler.create_job_queue();
    let queue_b = scheduler.create_job_queue();

    // The job on queue A: plain synchronous code that needs the result of an async operation on queue B
    let sync_result     = Arc::new(Mutex::new(None));
    let job_result      = Arc::clone(&sync_result);
    let job_scheduler   = Arc::clone(&scheduler);
    scheduler.desync(&queue_a, move || {
        let operation = job_scheduler.future_desync(&queue_b, || async { 42 });
        let value     = operation.sync();

        *job_result.lock().unwrap() = Some(value);
    });

    // A task awaits another operation on queue A (as no pool thread is free, it's this task that runs queue A)
    let future_a    = scheduler.future_desync(&queue_a, || async { 1 });
    let value_a     = executor::block_on(future_a);

    // Let the pool go
    release_pool.into_iter().for_each(|release| { release.send(()).ok(); });

    assert!(value_a == Ok(1), "Awaited operation on queue A produced {:?}", value_a);

    let sync_result = sync_result.lock().unwrap().take();
    assert!(sync_result == Some(Ok(42)), ".sync() produced {:?} (expected Some(Ok(42)))", sync_result);
}

#[test]
fn sync_from_job_run_by_polling_task_no_pool_threads() {
    run_with_timeout("no pool threads", || sync_from_job_run_by_polling_task(0));
}

#[test]
fn sync_from_job_run_by_polling_task_all_pool_threads_busy() {
    for pool_size in 1..=3 {
        run_with_timeout(&format!("pool size {}", pool_size), move || sync_from_job_run_by_polling_task(pool_size));
    }
}

///
/// Same idea using `Desync` objects and the global scheduler: an operation on one object is in progress on a pool thread
/// when a task starts awaiting it; the operation calls into synchronous code that uses `.sync()` on a second object.
/// Here it's the operation that wakes things up: the task awaiting it polls (and so runs) the second queue's owner.
///
#[test]
fn sync_inside_awaited_operation() {
    run_with_timeout("sync inside awaited operation", || {
        for _ in 0..50 {
            let numbers     = Arc::new(Desync::new(42));
            let (go, wait)  = oneshot::channel::<()>();

            // Operation that's parked (by the task polling it or by a pool thread) until 'go' is signalled, and then reads the number
            // from the other object synchronously
            let outer           = Desync::new(0);
            let outer_numbers   = Arc::clone(&numbers);
            let outer_future    = outer.future_desync(move |val| {
                async move {
                    wait.await.ok();

                    let number = outer_numbers.future_desync(|number| { let number = *number; async move { number }.boxed() }).sync();
                    *val = number.unwrap_or(-1);
                    *val
                }.boxed()
            });

            // Wake the operation up after the task has started waiting for it
            let waker_thread = thread::spawn(move || { thread::sleep(Duration::from_millis(2)); go.send(()).ok(); });

            let value = executor::block_on(outer_future);
            waker_thread.join().ok();

            assert!(value == Ok(42), "Operation produced {:?}", value);
            assert!(outer.sync(|val| *val) == 42);
        }
    });
}
