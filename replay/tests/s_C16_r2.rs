//
// C16 demonstration: dropping the stream returned by `pipe` must shut the pipe down (release the Desync, drop the
// input stream and the processing closure) wherever the producing job happens to be at the moment of the drop, with
// an input that stays silent afterwards.
//
// `dropped_while_the_producer_is_mid_loop_*` are the cases that matter here: the output stream is dropped while the
// producing job is in the middle of its loop (it has taken an item from the input and is processing it). The job has
// to notice on its own that the output went away, as nothing will wake it up again: the input stays silent.
//
// The idle and throttled cases are included as controls.
//
extern crate desync;
extern crate futures;

use desync::*;
use futures::prelude::*;
use futures::channel::mpsc;
use futures::channel::oneshot;
use futures::task::{Context, Poll};

use std::pin::Pin;
use std::sync::*;
use std::sync::atomic::{AtomicBool, AtomicUsize, Ordering};
use std::thread;
use std::time::{Duration, Instant};

/// Sets a flag when dropped
struct DropFlag(Arc<AtomicBool>);

impl Drop for DropFlag {
    fn drop(&mut self) { self.0.store(true, Ordering::SeqCst); }
}

fn drop_flag() -> (DropFlag, Arc<AtomicBool>) {
    let flag = Arc::new(AtomicBool::new(false));
    (DropFlag(Arc::clone(&flag)), flag)
}

/// An mpsc receiver that reports when it has been dropped
struct Input {
    receiver:   mpsc::Receiver<u32>,
    polls:      Arc<AtomicUsize>,
    _dropped:   DropFlag
}

impl Stream for Input {
    type Item = u32;

    fn poll_next(mut self: Pin<&mut Self>, context: &mut Context) -> Poll<Option<u32>> {
        self.polls.fetch_add(1, Ordering::SeqCst);
        self.receiver.poll_next_unpin(context)
    }
}

/// Waits (up to a timeout) for a condition to become true
fn eventually<F: Fn() -> bool>(what: &str, condition: F) -> Result<(), String> {
    let start = Instant::now();
    while start.elapsed() < Duration::from_secs(4) {
        if condition() { return Ok(()); }
        thread::sleep(Duration::from_millis(5));
    }

    Err(format!("timed out waiting for: {}", what))
}

/// Gives up the test's own reference to the Desync (on another thread, as dropping the last reference to a Desync waits for its queue)
fn release(obj: Arc<Desync<u32>>) {
    thread::spawn(move || drop(obj));
}

/// Checks that everything owned by a pipe has been released
fn assert_shut_down(weak_desync: &Weak<Desync<u32>>, input_dropped: &Arc<AtomicBool>, closure_dropped: &Arc<AtomicBool>) {
    let results = vec![
        eventually("the pipe's strong reference on the Desync to be released",  || weak_desync.upgrade().is_none()),
        eventually("the input stream to be dropped",                           || input_dropped.load(Ordering::SeqCst)),
        eventually("the processing closure to be dropped",                     || closure_dropped.load(Ordering::SeqCst)),
    ];

    let failures = results.into_iter().filter_map(|r| r.err()).collect::<Vec<_>>();
    assert!(failures.is_empty(), "pipe was not shut down after its output stream was dropped: {:?}", failures);
}

#[test]
fn dropped_while_the_producer_is_mid_loop_awaiting_the_processing_future() {
    let obj                                 = Arc::new(Desync::new(0u32));
    let weak_obj                            = Arc::downgrade(&obj);
    let (mut sender, receiver)              = mpsc::channel(10);
    let (input_flag, input_dropped)         = drop_flag();
    let (closure_flag, closure_dropped)     = drop_flag();
    let polls                               = Arc::new(AtomicUsize::new(0));
    let input                               = Input { receiver, polls: Arc::clone(&polls), _dropped: input_flag };

    // The processing future for the first item waits on this gate, which holds the producing job in the middle of its loop
    let (open_gate, gate)                   = oneshot::channel::<()>();
    let gate                                = Mutex::new(Some(gate));
    let processing                          = Arc::new(AtomicBool::new(false));
    let is_processing                       = Arc::clone(&processing);

    let output = pipe(Arc::clone(&obj), input, move |_core, item: u32| {
        let _keep   = &closure_flag;
        let gate    = gate.lock().unwrap().take();
        processing.store(true, Ordering::SeqCst);

        async move {
            if let Some(gate) = gate { gate.await.ok(); }
            item
        }.boxed()
    });

    // The producer takes the item and starts processing it
    sender.try_send(1).unwrap();
    eventually("the item to start being processed", || is_processing.load(Ordering::SeqCst)).unwrap();

    // The output stream is dropped while the producing job is mid-loop
    drop(output);
    release(obj);

    // The producing job carries on: it finishes the item, goes back to its input (which stays silent from now on)
    let polls_before = polls.load(Ordering::SeqCst);
    open_gate.send(()).unwrap();
    eventually("the producer to go back to its input", || polls.load(Ordering::SeqCst) > polls_before || input_dropped.load(Ordering::SeqCst)).unwrap();

    assert_shut_down(&weak_obj, &input_dropped, &closure_dropped);

    // The input never produced anything further
    drop(sender);
}

#[test]
fn dropped_while_the_producer_is_mid_loop_from_the_processing_closure() {
    let obj                                 = Arc::new(Desync::new(0u32));
    let weak_obj                            = Arc::downgrade(&obj);
    let (mut sender, receiver)              = mpsc::channel(10);
    let (input_flag, input_dropped)         = drop_flag();
    let (closure_flag, closure_dropped)     = drop_flag();
    let polls                               = Arc::new(AtomicUsize::new(0));
    let input                               = Input { receiver, polls: Arc::clone(&polls), _dropped: input_flag };

    // The output stream is handed to the processing closure, which gets rid of it when it sees the value '42'
    let output_slot                         = Arc::new(Mutex::new(None::<PipeStream<u32>>));
    let closure_slot                        = Arc::clone(&output_slot);

    let output = pipe(Arc::clone(&obj), input, move |_core, item: u32| {
        let _keep = &closure_flag;

        if item == 42 {
            let output = closure_slot.lock().unwrap().take();
            drop(output);
        }

        future::ready(item).boxed()
    });
    *output_slot.lock().unwrap() = Some(output);
    release(obj);

    sender.try_send(1).unwrap();
    sender.try_send(42).unwrap();

    assert_shut_down(&weak_obj, &input_dropped, &closure_dropped);
    drop(sender);
}

#[test]
fn control_dropped_while_the_producer_is_idle() {
    let obj                                 = Arc::new(Desync::new(0u32));
    let weak_obj                            = Arc::downgrade(&obj);
    let (mut sender, receiver)              = mpsc::channel(10);
    let (input_flag, input_dropped)         = drop_flag();
    let (closure_flag, closure_dropped)     = drop_flag();
    let polls                               = Arc::new(AtomicUsize::new(0));
    let input                               = Input { receiver, polls: Arc::clone(&polls), _dropped: input_flag };

    let mut output = pipe(Arc::clone(&obj), input, move |_core, item: u32| {
        let _keep = &closure_flag;
        future::ready(item).boxed()
    });

    sender.try_send(1).unwrap();
    assert!(futures::executor::block_on(output.next()) == Some(1));
    obj.sync(|_| { });

    drop(output);
    release(obj);

    assert_shut_down(&weak_obj, &input_dropped, &closure_dropped);
    drop(sender);
}

#[test]
fn control_dropped_while_the_producer_is_throttled() {
    let obj                                 = Arc::new(Desync::new(0u32));
    let weak_obj                            = Arc::downgrade(&obj);
    let (mut sender, receiver)              = mpsc::channel(10);
    let (input_flag, input_dropped)         = drop_flag();
    let (closure_flag, closure_dropped)     = drop_flag();
    let polls                               = Arc::new(AtomicUsize::new(0));
    let input                               = Input { receiver, polls: Arc::clone(&polls), _dropped: input_flag };
    let processed                           = Arc::new(AtomicUsize::new(0));
    let num_processed                       = Arc::clone(&processed);

    let mut output = pipe(Arc::clone(&obj), input, move |_core, item: u32| {
        let _keep = &closure_flag;
        processed.fetch_add(1, Ordering::SeqCst);
        future::ready(item).boxed()
    });
    output.set_backpressure_depth(1);

    // First item fills the output, the second wakes the producer which finds that it's throttled
    sender.try_send(1).unwrap();
    eventually("first item processed", || num_processed.load(Ordering::SeqCst) == 1).unwrap();
    obj.sync(|_| { });
    sender.try_send(2).unwrap();
    thread::sleep(Duration::from_millis(50));
    obj.sync(|_| { });
    assert!(num_processed.load(Ordering::SeqCst) == 1);

    drop(output);
    release(obj);

    assert_shut_down(&weak_obj, &input_dropped, &closure_dropped);
    drop(sender);
}
