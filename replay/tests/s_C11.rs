//
// Demonstration for C11: pipe_in must feed *every* item the stream yields to the processing function, exactly once
// and in stream order, whatever the arrival pattern (here: a large backlog that is already available when the pipe
// gets polled, with nothing further arriving while that backlog is being drained).
//

extern crate desync;
extern crate futures;

use desync::*;

use futures::prelude::*;
use futures::future;
use futures::stream;
use futures::channel::mpsc;

use std::sync::*;
use std::thread;
use std::time::{Duration, Instant};

/// Waits (up to a timeout) for the vector in the desync to reach the specified length, returning the final contents
fn wait_for_len(obj: &Arc<Desync<Vec<usize>>>, expected_len: usize, timeout: Duration) -> Vec<usize> {
    let start = Instant::now();

    loop {
        let current = obj.sync(|items| items.clone());

        if current.len() >= expected_len || start.elapsed() > timeout {
            return current;
        }

        thread::sleep(Duration::from_millis(10));
    }
}

#[test]
fn pipe_in_processes_every_item_of_a_large_ready_stream() {
    const NUM_ITEMS: usize = 1000;

    // Every item of this stream is ready immediately
    let obj     = Arc::new(Desync::new(Vec::<usize>::new()));
    let items   = stream::iter(0..NUM_ITEMS);

    pipe_in(Arc::clone(&obj), items, |core: &mut Vec<usize>, item| { core.push(item); future::ready(()).boxed() });

    // All of the items should be processed, once each, in stream order
    let processed = wait_for_len(&obj, NUM_ITEMS, Duration::from_secs(5));

    assert!(processed.len() == NUM_ITEMS, "Only {} of {} items were ever processed", processed.len(), NUM_ITEMS);
    assert!(processed == (0..NUM_ITEMS).collect::<Vec<_>>(), "Items were processed out of order or more than once");
}

#[test]
fn pipe_in_processes_a_backlog_that_built_up_while_the_desync_was_busy() {
    const BACKLOG: usize = 300;

    let obj                 = Arc::new(Desync::new(Vec::<usize>::new()));
    let (sender, receiver)  = mpsc::unbounded();

    // Start the pipe: the stream is empty so it goes to sleep waiting for the channel
    pipe_in(Arc::clone(&obj), receiver, |core: &mut Vec<usize>, item| { core.push(item); future::ready(()).boxed() });
    assert!(obj.sync(|items| items.len()) == 0);

    // Keep the desync busy with another operation while a producer sends a burst of items
    // (the first one wakes the pipe, whose poll queues up behind the busy operation; the rest just build up in the channel)
    obj.desync(|_| thread::sleep(Duration::from_millis(200)));

    for item in 0..BACKLOG {
        sender.unbounded_send(item).unwrap();
    }

    // The whole backlog should get processed in order once the desync is free again
    let processed = wait_for_len(&obj, BACKLOG, Duration::from_secs(5));

    assert!(processed.len() == BACKLOG, "Only {} of {} items in the backlog were ever processed", processed.len(), BACKLOG);
    assert!(processed == (0..BACKLOG).collect::<Vec<_>>(), "Items were processed out of order or more than once");

    // ... and the pipe should still be listening for anything that arrives later on
    sender.unbounded_send(BACKLOG).unwrap();

    let processed = wait_for_len(&obj, BACKLOG + 1, Duration::from_secs(5));

    assert!(processed.len() == BACKLOG + 1, "Item sent after the backlog was never processed");
    assert!(processed == (0..(BACKLOG+1)).collect::<Vec<_>>(), "Items were processed out of order or more than once");
}
