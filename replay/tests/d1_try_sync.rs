//! Replay of finding D1: try_sync on an Idle-but-non-empty queue marks it Running and returns Busy.
//! Window used: between `state = Idle` and `reschedule_queue` in sync_immediate (hook point).
use desync::scheduler::*;
use std::sync::*;
use std::sync::atomic::{AtomicBool, AtomicUsize, Ordering};
use std::thread;
use std::time::Duration;

#[test]
fn try_sync_busy_must_not_disturb_queue() {
    let sched   = Arc::new(Scheduler::new());
    let queue   = sched.create_job_queue();
    let ran     = Arc::new(AtomicUsize::new(0));

    let at_point    = Arc::new((Mutex::new(false), Condvar::new()));
    let release     = Arc::new((Mutex::new(false), Condvar::new()));
    let armed       = Arc::new(AtomicBool::new(true));

    {
        let at_point = at_point.clone(); let release = release.clone(); let armed = armed.clone();
        verif_hooks::set_callback(Some(Arc::new(move |name: &str| {
            if name == "sync_immediate:after_idle" && armed.swap(false, Ordering::SeqCst) {
                { *at_point.0.lock().unwrap() = true; at_point.1.notify_all(); }
                let mut r = release.0.lock().unwrap();
                while !*r { r = release.1.wait(r).unwrap(); }
            }
        })));
    }

    // Thread A: immediate sync whose closure schedules one more job on the same queue
    let a = {
        let sched = sched.clone(); let queue = queue.clone(); let ran = ran.clone();
        thread::spawn(move || {
            let s2 = sched.clone(); let q2 = queue.clone();
            sched.sync(&queue, move || {
                let ran = ran.clone();
                s2.desync(&q2, move || { ran.fetch_add(1, Ordering::SeqCst); });
            });
        })
    };

    // Wait for A to be in the window: queue is Idle with one job queued
    { let mut p = at_point.0.lock().unwrap(); while !*p { p = at_point.1.wait(p).unwrap(); } }
    let before = format!("{:?}", queue);

    // try_sync must either run or leave the queue undisturbed
    let res = sched.try_sync(&queue, || 1);
    let after = format!("{:?}", queue);

    { *release.0.lock().unwrap() = true; release.1.notify_all(); }
    a.join().unwrap();
    verif_hooks::set_callback(None);

    // The queued job must still complete without any further API call
    for _ in 0..200 { if ran.load(Ordering::SeqCst) == 1 { break; } thread::sleep(Duration::from_millis(10)); }
    let end = format!("{:?}", queue);
    println!("REPLAY before={} try_sync={:?} after={} end={} ran={}", before, res.is_ok(), after, end, ran.load(Ordering::SeqCst));

    if res.is_err() { assert_eq!(before, after, "Busy outcome disturbed the queue"); }
    assert_eq!(ran.load(Ordering::SeqCst), 1, "queued job never ran: queue is {}", end);
}
