//
// Demonstration for C06: a wake-up for a suspended future operation is never lost.
//
// The scenario needs a *stale waker from an earlier poll*:
//
//  1. An earlier operation on the queue is polled by a thread inside `sync()` (the pool has no threads at that point), so the
//     waker it is given is the one that unparks that thread. The operation finishes, but the event source it was listening
//     to keeps hold of that waker (think of the losing side of a `select`, or a channel that was only peeked at).
//  2. Later, a future operation on the same queue is run by a pool thread, and suspends waiting for an external event
//     (the queue is parked, waiting for its wake-up). Another operation is queued behind it.
//  3. The stale waker from step 1 fires. It is not the event the operation is waiting for.
//  4. The real event fires, using the waker that the suspended operation registered in step 2.
//
// The real wake-up in step 4 must cause the suspended operation to be polled again and complete, and the operation queued
// behind it must then run. Nothing else touches the queue after step 4 (in particular, we don't poll the returned future or
// call sync(), either of which would run the queue on the calling thread and hide a lost wake-up).
//

use desync::scheduler::*;

use futures::channel::oneshot;
use futures::future::{Future};
use futures::task::{Context, Poll, Waker};

use std::pin::Pin;
use std::sync::*;
use std::sync::mpsc;
use std::thread;
use std::time::{Duration, Instant};

///
/// Future that completes on its first poll, leaving the waker it was polled with in a shared slot (standing in for an event
/// source that's still holding on to the waker of a future that no longer cares about it)
///
struct LeaveWakerBehind {
    left_behind: Arc<Mutex<Option<Waker>>>
}

impl Future for LeaveWakerBehind {
    type Output = ();

    fn poll(self: Pin<&mut Self>, context: &mut Context) -> Poll<()> {
        *self.left_behind.lock().unwrap() = Some(context.waker().clone());
        Poll::Ready(())
    }
}

///
/// Waits for the debug description of a queue to contain a particular string
///
fn wait_for_queue_state(queue: &Arc<JobQueue>, expected: &str) {
    let start = Instant::now();

    loop {
        let description = format!("{:?}", queue);
        if description.contains(expected) { return; }

        assert!(start.elapsed() < Duration::from_secs(5), "Queue never reached the expected state '{}' (is '{}')", expected, description);
        thread::sleep(Duration::from_millis(1));
    }
}

///
/// Runs the scenario, optionally firing a stale waker between the operation suspending and the real wake-up
///
fn wake_suspended_operation(pool_size: usize, fire_stale_waker: bool) {
    // Scheduler that starts with no threads, so the first operation is polled by the thread that calls sync()
    let scheduler   = Arc::new(Scheduler::new());
    scheduler.set_max_threads(0);
    scheduler.despawn_threads_if_overloaded();

    let queue       = scheduler.create_job_queue();

    // Step 1: an earlier operation is polled inside sync(), and its waker outlives it
    let left_behind     = Arc::new(Mutex::new(None));
    let leave_waker     = LeaveWakerBehind { left_behind: Arc::clone(&left_behind) };

    scheduler.future_desync(&queue, move || leave_waker).detach();
    assert!(scheduler.sync(&queue, || 1) == 1);

    let stale_waker     = left_behind.lock().unwrap().take().expect("First operation was polled");
    wait_for_queue_state(&queue, "State: Idle, Pending: 0");

    // Step 2: with a pool available, an operation suspends on a pool thread waiting for an external event, with another queued behind it
    scheduler.set_max_threads(pool_size);

    let (progress, watch_progress)  = mpsc::channel();
    let (event, wait_for_event)     = oneshot::channel::<i32>();

    let operation_progress  = progress.clone();
    scheduler.future_desync(&queue, move || async move {
        operation_progress.send("suspending").ok();
        let value = wait_for_event.await.expect("Event is not cancelled");
        operation_progress.send("resumed").ok();
        value
    }).detach();

    let behind_progress     = progress.clone();
    scheduler.desync(&queue, move || { behind_progress.send("queued behind").ok(); });

    assert!(watch_progress.recv_timeout(Duration::from_secs(5)) == Ok("suspending"));
    wait_for_queue_state(&queue, "State: WaitingForWake, Pending: 2");

    // Step 3: the stale waker fires (from another thread, as it's left over from some other event source)
    if fire_stale_waker {
        thread::spawn(move || stale_waker.wake()).join().unwrap();

        // Nothing has happened that the operation was waiting for
        assert!(watch_progress.recv_timeout(Duration::from_millis(50)).is_err());
    }

    // Step 4: the real event fires, waking the operation with the waker it registered when it suspended
    event.send(42).expect("Operation is still waiting");

    // The operation is polled again and completes, then the operation queued behind it runs
    let resumed = watch_progress.recv_timeout(Duration::from_secs(2));
    assert!(resumed == Ok("resumed"), "Pool size {}, stale waker {}: the suspended operation was not resumed by its wake-up ({:?}, queue is '{:?}')", pool_size, fire_stale_waker, resumed, queue);

    let behind = watch_progress.recv_timeout(Duration::from_secs(2));
    assert!(behind == Ok("queued behind"), "Pool size {}, stale waker {}: the operation queued behind did not proceed ({:?}, queue is '{:?}')", pool_size, fire_stale_waker, behind, queue);

    wait_for_queue_state(&queue, "State: Idle, Pending: 0");
}

#[test]
fn wake_up_without_stale_waker() {
    for pool_size in 1..=3 {
        wake_suspended_operation(pool_size, false);
    }
}

#[test]
fn wake_up_after_stale_waker_from_earlier_poll() {
    for pool_size in 1..=3 {
        wake_suspended_operation(pool_size, true);
    }
}
