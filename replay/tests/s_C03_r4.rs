//!
//! Demonstration for C03 (no operation is lost, duplicated or left stranded)
//!
//! A `future_desync` operation is accepted on a queue while the (single) pool thread is occupied by a job from another
//! queue, so the queue is still waiting for a thread when a `sync` caller arrives and drains it on its own thread. The
//! future is woken while the sync caller is still inside / just leaving the poll that returned `Pending` (ie, before
//! the caller has parked). The operation must still complete, the `sync` must return, and the queue must end up idle
//! and empty without any further call being made on it.
//!

extern crate desync;
extern crate futures;

use desync::scheduler::*;

use futures::task::{Context, Poll, Waker};

use std::future::Future;
use std::pin::Pin;
use std::sync::atomic::{AtomicUsize, Ordering};
use std::sync::mpsc;
use std::sync::{Arc, Mutex};
use std::thread;
use std::time::{Duration, Instant};

/// How long we're prepared to wait for something that should take a few milliseconds
const PATIENCE: Duration = Duration::from_secs(5);

///
/// Future that returns pending exactly once, having already requested that it be polled again (a 'yield')
///
struct YieldOnce {
    yielded: bool
}

impl Future for YieldOnce {
    type Output = ();

    fn poll(mut self: Pin<&mut Self>, context: &mut Context) -> Poll<()> {
        if self.yielded {
            Poll::Ready(())
        } else {
            self.yielded = true;
            context.waker().wake_by_ref();
            Poll::Pending
        }
    }
}

///
/// Future that hands its waker to another thread the first time it's polled, and then lingers in the poll for a while so that
/// the other thread's wake-up arrives before the poller has had a chance to go to sleep
///
struct WokenElsewhereWhilePolling {
    send_waker: Option<mpsc::Sender<Waker>>,
    woken:      Arc<Mutex<bool>>
}

impl Future for WokenElsewhereWhilePolling {
    type Output = ();

    fn poll(mut self: Pin<&mut Self>, context: &mut Context) -> Poll<()> {
        if *self.woken.lock().unwrap() {
            return Poll::Ready(());
        }

        if let Some(send_waker) = self.send_waker.take() {
            send_waker.send(context.waker().clone()).unwrap();

            // The other thread wakes us pretty much immediately: give it plenty of time to have done so before we return
            let start = Instant::now();
            while !*self.woken.lock().unwrap() && start.elapsed() < Duration::from_secs(2) {
                thread::sleep(Duration::from_millis(5));
            }
            thread::sleep(Duration::from_millis(20));
        }

        // This poll saw 'not ready' before the wake-up happened, so it reports pending and relies on the wake-up
        Poll::Pending
    }
}

///
/// Creates a scheduler with a single pool thread that's occupied by a job on some other queue. The job finishes when the returned
/// sender is signalled or dropped.
///
fn scheduler_with_occupied_pool() -> (Arc<Scheduler>, mpsc::Sender<()>, Arc<JobQueue>) {
    let scheduler   = Arc::new(Scheduler::new());
    scheduler.set_max_threads(1);

    let other_queue                     = scheduler.create_job_queue();
    let (release, wait_for_release)     = mpsc::channel::<()>();
    let (started, wait_for_started)     = mpsc::channel::<()>();

    scheduler.desync(&other_queue, move || {
        started.send(()).unwrap();
        wait_for_release.recv_timeout(Duration::from_secs(20)).ok();
    });

    wait_for_started.recv_timeout(PATIENCE).expect("The pool thread should pick up the first job");

    (scheduler, release, other_queue)
}

///
/// Polls the debug output of a queue until it reports that it's idle with nothing pending (or we run out of patience)
///
fn wait_until_quiet(queue: &Arc<JobQueue>) -> String {
    let start = Instant::now();

    loop {
        let state = format!("{:?}", queue);

        if state == "JobQueue: State: Idle, Pending: 0" || start.elapsed() > PATIENCE {
            return state;
        }

        thread::sleep(Duration::from_millis(10));
    }
}

///
/// Schedules the future on a queue that has no thread to run on, then syncs with the queue from another thread and checks
/// that everything completes exactly once
///
fn run_future_via_sync_caller<TFuture: 'static+Send+Future<Output=()>>(future: TFuture) {
    let (scheduler, release, _other_queue) = scheduler_with_occupied_pool();

    let queue           = scheduler.create_job_queue();
    let future_runs     = Arc::new(AtomicUsize::new(0));
    let later_runs      = Arc::new(AtomicUsize::new(0));

    // The operation under test: accepted while the only pool thread is busy, so the queue sits in the schedule
    let count_future    = Arc::clone(&future_runs);
    scheduler.future_desync(&queue, move || async move {
        future.await;
        count_future.fetch_add(1, Ordering::SeqCst);
    }).detach();

    // Something queued behind it
    let count_later     = Arc::clone(&later_runs);
    scheduler.desync(&queue, move || { count_later.fetch_add(1, Ordering::SeqCst); });

    // A sync caller arrives and drains the queue on its own thread
    let (sync_done, wait_for_sync)  = mpsc::channel();
    let sync_scheduler              = Arc::clone(&scheduler);
    let sync_queue                  = Arc::clone(&queue);
    let sync_future_runs            = Arc::clone(&future_runs);
    let sync_later_runs             = Arc::clone(&later_runs);

    thread::spawn(move || {
        let seen = sync_scheduler.sync(&sync_queue, move || (sync_future_runs.load(Ordering::SeqCst), sync_later_runs.load(Ordering::SeqCst)));
        sync_done.send(seen).ok();
    });

    let seen_by_sync = wait_for_sync.recv_timeout(PATIENCE);

    // Let the pool thread go, and give everything time to settle
    release.send(()).ok();
    let final_state = wait_until_quiet(&queue);

    assert!(seen_by_sync.is_ok(), "sync() never returned: the future job was left stranded (future ran {} times, later job ran {} times, queue is '{}', scheduler is '{:?}')",
        future_runs.load(Ordering::SeqCst), later_runs.load(Ordering::SeqCst), final_state, scheduler);
    assert!(seen_by_sync == Ok((1, 1)), "sync() ran before the operations ahead of it had completed once each: {:?}", seen_by_sync);

    assert!(future_runs.load(Ordering::SeqCst) == 1, "Future job ran {} times", future_runs.load(Ordering::SeqCst));
    assert!(later_runs.load(Ordering::SeqCst) == 1, "Later job ran {} times", later_runs.load(Ordering::SeqCst));
    assert!(final_state == "JobQueue: State: Idle, Pending: 0", "Queue did not go quiet: '{}'", final_state);
}

#[test]
fn yielding_future_drained_by_sync_caller_is_not_stranded() {
    run_future_via_sync_caller(YieldOnce { yielded: false });
}

#[test]
fn future_woken_from_another_thread_before_the_sync_caller_parks_is_not_stranded() {
    let (send_waker, recv_waker)    = mpsc::channel::<Waker>();
    let woken                       = Arc::new(Mutex::new(false));

    // Thread that wakes the future as soon as it finds out how to
    let waker_woken = Arc::clone(&woken);
    thread::spawn(move || {
        if let Ok(waker) = recv_waker.recv_timeout(Duration::from_secs(20)) {
            *waker_woken.lock().unwrap() = true;
            waker.wake();
        }
    });

    run_future_via_sync_caller(WokenElsewhereWhilePolling { send_waker: Some(send_waker), woken });
}
