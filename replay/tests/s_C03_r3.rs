//
// Demonstration for C03 ("no operation is lost, duplicated or left stranded").
//
// A private scheduler is limited to ONE pool thread. The sequence is:
//
//   1. queue C gets a future job that waits on a oneshot: the pool thread polls it once and C goes to `WaitingForWake`
//   2. queue A gets a long job that occupies the only pool thread until we release it
//   3. queue B gets an ordinary `desync` job: it is accepted, marked Pending and sits in the schedule waiting for the thread
//   4. another thread calls `sync` on C: C is waiting for a wake, so the caller queues its job and blocks ("wait for background")
//   5. the oneshot fires: C is woken and re-scheduled (behind B), no pool thread is free, so the blocked `sync` caller claims C
//      and runs it itself, then returns
//   6. A's job is released and finishes; nothing else is called from here on
//
// Afterwards the pool thread must pick B out of the schedule and run its job without anybody kicking anything.
//
extern crate desync;
extern crate futures;

use desync::scheduler::*;

use futures::channel::oneshot;

use std::sync::*;
use std::sync::atomic::{AtomicBool, AtomicUsize, Ordering};
use std::sync::mpsc;
use std::thread;
use std::time::{Duration, Instant};

/// Polls `condition` until it is true or the time limit passes
fn wait_until<F: FnMut() -> bool>(limit: Duration, mut condition: F) -> bool {
    let start = Instant::now();

    while start.elapsed() < limit {
        if condition() { return true; }
        thread::sleep(Duration::from_millis(2));
    }

    condition()
}

fn run_scenario(iteration: usize) {
    let scheduler = Arc::new(Scheduler::new());
    scheduler.set_max_threads(1);
    scheduler.despawn_threads_if_overloaded();

    let queue_a = scheduler.create_job_queue();
    let queue_b = scheduler.create_job_queue();
    let queue_c = scheduler.create_job_queue();

    // 1. Future job on C that blocks until the oneshot is signalled. It runs on the pool thread and leaves C waiting for a wake
    let (wake_c, wait_c)    = oneshot::channel::<()>();
    let c_future_runs       = Arc::new(AtomicUsize::new(0));
    let c_future_runs2      = Arc::clone(&c_future_runs);
    scheduler.future_desync(&queue_c, move || async move {
        wait_c.await.ok();
        c_future_runs2.fetch_add(1, Ordering::SeqCst);
    }).detach();

    assert!(wait_until(Duration::from_secs(5), || format!("{:?}", queue_c).contains("WaitingForWake")),
        "[{}] setup: queue C never started waiting for its future: {:?} / {:?}", iteration, queue_c, scheduler);
    assert!(wait_until(Duration::from_secs(5), || format!("{:?}", scheduler).starts_with("I ")),
        "[{}] setup: pool thread never went dormant: {:?}", iteration, scheduler);

    // 2. Long job on A that occupies the only pool thread
    let (a_started, a_has_started)  = mpsc::channel::<()>();
    let (release_a, a_released)     = mpsc::channel::<()>();
    let a_done                      = Arc::new(AtomicBool::new(false));
    let a_done2                     = Arc::clone(&a_done);
    scheduler.desync(&queue_a, move || {
        a_started.send(()).ok();
        a_released.recv_timeout(Duration::from_secs(20)).ok();
        a_done2.store(true, Ordering::SeqCst);
    });
    a_has_started.recv_timeout(Duration::from_secs(5)).expect("setup: job A never started");

    // 3. Ordinary job on B: accepted, but has to wait for the pool thread
    let b_runs  = Arc::new(AtomicUsize::new(0));
    let b_runs2 = Arc::clone(&b_runs);
    scheduler.desync(&queue_b, move || { b_runs2.fetch_add(1, Ordering::SeqCst); });

    assert!(format!("{:?}", queue_b).contains("State: Pending, Pending: 1"), "[{}] setup: {:?}", iteration, queue_b);
    assert!(b_runs.load(Ordering::SeqCst) == 0);

    // 4. A sync caller on C: C is waiting for a wake, so this blocks until C is woken
    let sync_scheduler  = Arc::clone(&scheduler);
    let sync_queue      = Arc::clone(&queue_c);
    let (sync_done, sync_is_done) = mpsc::channel::<i32>();
    let sync_thread     = thread::spawn(move || {
        let result = sync_scheduler.sync(&sync_queue, || 7);
        sync_done.send(result).ok();
    });

    // The sync job is queued behind the future job; give the caller time to block on its condition variable
    assert!(wait_until(Duration::from_secs(5), || format!("{:?}", queue_c).contains("Pending: 2")),
        "[{}] setup: sync caller never queued its job: {:?}", iteration, queue_c);
    thread::sleep(Duration::from_millis(100));

    // 5. Wake C. No pool thread is free, so the blocked sync caller claims the queue and runs it
    wake_c.send(()).expect("wake C");

    let sync_result = sync_is_done.recv_timeout(Duration::from_secs(5));
    assert!(sync_result == Ok(7), "[{}] sync on C did not complete: {:?} / {:?}", iteration, sync_result, queue_c);
    sync_thread.join().unwrap();
    assert!(c_future_runs.load(Ordering::SeqCst) == 1);

    // B was accepted long ago, is still waiting for the thread that A occupies, and has not run yet
    assert!(b_runs.load(Ordering::SeqCst) == 0);

    // 6. Let A finish. From here on no further scheduler calls are made
    release_a.send(()).expect("release A");
    assert!(wait_until(Duration::from_secs(5), || a_done.load(Ordering::SeqCst)), "[{}] job A never finished", iteration);

    // The pool thread is free now: B's job must run on its own, exactly once
    let b_ran = wait_until(Duration::from_secs(3), || b_runs.load(Ordering::SeqCst) > 0);

    // Let everything go quiet, then look at the final state
    thread::sleep(Duration::from_millis(50));
    let final_b         = format!("{:?}", queue_b);
    let final_scheduler = format!("{:?}", scheduler);

    assert!(b_ran,
        "[{}] STRANDED: job accepted on queue B never ran although the only pool thread is dormant. queue B = {{{}}}, scheduler = {{{}}}, queue A = {{{:?}}}, queue C = {{{:?}}}",
        iteration, final_b, final_scheduler, queue_a, queue_c);
    assert!(b_runs.load(Ordering::SeqCst) == 1, "[{}] job B ran {} times", iteration, b_runs.load(Ordering::SeqCst));
    assert!(final_b.contains("State: Idle, Pending: 0"), "[{}] queue B not quiescent: {}", iteration, final_b);
    assert!(final_scheduler.ends_with("Pending queue count: 0"), "[{}] schedule not empty: {}", iteration, final_scheduler);
}

#[test]
fn queued_job_survives_sync_caller_claiming_another_queue() {
    for iteration in 0..3 {
        run_scenario(iteration);
    }
}
