extern crate desync;
extern crate futures;

use desync::*;
use desync::scheduler::*;

use futures::prelude::*;
use futures::future;
use futures::future::Either;
use futures::channel::oneshot;
use futures::executor;

use std::sync::*;
use std::sync::atomic::{AtomicBool, Ordering};
use std::sync::mpsc;
use std::thread;
use std::time::{Duration, Instant};

///
/// Runs a scenario in its own thread and panics if it does not finish in time (so a hang becomes a failure)
///
fn watchdog<TFn: 'static+Send+FnOnce() -> ()>(millis: u64, scenario: TFn) {
    let (done_tx, done_rx) = mpsc::channel();

    thread::Builder::new()
        .name("seed_demo scenario".to_string())
        .spawn(move || {
            scenario();
            done_tx.send(()).ok();
        })
        .expect("scenario thread");

    match done_rx.recv_timeout(Duration::from_millis(millis)) {
        Ok(())                                      => { }
        Err(mpsc::RecvTimeoutError::Timeout)        => panic!("Scenario timed out"),
        Err(mpsc::RecvTimeoutError::Disconnected)   => panic!("Scenario panicked")
    }
}

///
/// Marks an operation as being in progress for as long as it exists. Tearing the operation down takes a while.
///
struct InProgress {
    flag: Arc<AtomicBool>
}

impl Drop for InProgress {
    fn drop(&mut self) {
        // The operation still owns its slot on the queue while it is being torn down
        thread::sleep(Duration::from_millis(300));
        self.flag.store(false, Ordering::SeqCst);
    }
}

///
/// Starts a `future_sync` operation on a queue, cancels it part-way through (by dropping the future) and meanwhile
/// calls `try_sync` from another thread until it succeeds. Returns whether or not the closure passed to `try_sync`
/// ran while the `future_sync` operation was still in progress.
///
fn try_sync_while_cancelling_future_sync(pool_size: usize) -> bool {
    let scheduler   = Arc::new(Scheduler::new());
    scheduler.set_max_threads(pool_size);

    let queue       = scheduler.create_job_queue();
    let in_progress = Arc::new(AtomicBool::new(false));

    // Operation that starts, then never finishes by itself
    let (started_tx, started_rx)    = oneshot::channel::<()>();
    let flag                        = Arc::clone(&in_progress);
    let operation                   = scheduler.future_sync(&queue, move || async move {
        flag.store(true, Ordering::SeqCst);
        let _in_progress = InProgress { flag };

        started_tx.send(()).ok();
        future::pending::<()>().await;
    });

    // Drive the operation until it's part-way through
    let operation = match executor::block_on(future::select(Box::pin(operation), started_rx)) {
        Either::Right((_, operation))   => operation,
        Either::Left(_)                 => panic!("Operation should never complete")
    };
    assert!(in_progress.load(Ordering::SeqCst));

    // While the operation is in progress, try_sync reports that the queue is busy and does not run its closure
    let in_progress_now = Arc::clone(&in_progress);
    assert!(scheduler.try_sync(&queue, move || in_progress_now.load(Ordering::SeqCst)).is_err());

    // Another thread calls try_sync until it succeeds
    let (seen_tx, seen_rx)  = mpsc::channel();
    let (go_tx, go_rx)      = mpsc::channel::<()>();
    let try_scheduler       = Arc::clone(&scheduler);
    let try_queue           = Arc::clone(&queue);
    let try_in_progress     = Arc::clone(&in_progress);

    thread::spawn(move || {
        go_rx.recv().ok();

        let give_up = Instant::now() + Duration::from_millis(3000);
        while Instant::now() < give_up {
            let in_progress_now = Arc::clone(&try_in_progress);
            let seen            = try_scheduler.try_sync(&try_queue, move || in_progress_now.load(Ordering::SeqCst));

            match seen {
                Ok(was_in_progress) => { seen_tx.send(was_in_progress).ok(); return; }
                Err(_)              => { thread::sleep(Duration::from_millis(1)); }
            }
        }
    });

    // Cancel the operation while the other thread is trying
    go_tx.send(()).ok();
    thread::sleep(Duration::from_millis(20));
    mem_drop(operation);

    // Once the operation is gone, the queue is idle and try_sync must get through
    seen_rx.recv_timeout(Duration::from_millis(4000)).expect("try_sync never succeeded after the operation was cancelled")
}

#[inline(never)]
fn mem_drop<T>(val: T) {
    std::mem::drop(val);
}

#[test]
fn try_sync_is_exclusive_with_cancelled_future_sync() {
    watchdog(5000, || {
        for pool_size in 1..=3 {
            let ran_during_operation = try_sync_while_cancelling_future_sync(pool_size);
            assert!(!ran_during_operation, "try_sync ran its closure while a future_sync operation was still in progress (pool size {})", pool_size);
        }
    });
}

///
/// Two values that are always equal whenever nothing is operating on them
///
struct Pair {
    left:   i64,
    right:  i64
}

///
/// Updates both sides of a pair, rolling back when abandoned half-way through
///
struct Transaction<'a> {
    pair: &'a mut Pair
}

impl<'a> Drop for Transaction<'a> {
    fn drop(&mut self) {
        if self.pair.left != self.pair.right {
            // Abandoned: roll back (which takes a little while)
            thread::sleep(Duration::from_millis(300));
            self.pair.left = self.pair.right;
        }
    }
}

#[test]
fn try_sync_never_sees_half_finished_future_sync() {
    watchdog(5000, || {
        let pair = Arc::new(Desync::new(Pair { left: 0, right: 0 }));

        // Start updating the pair, but get stuck half-way through
        let (started_tx, started_rx)    = oneshot::channel::<()>();
        let update                      = pair.future_sync(move |pair| async move {
            let transaction = Transaction { pair };

            transaction.pair.left += 1;
            started_tx.send(()).ok();
            future::pending::<()>().await;
            transaction.pair.right += 1;
        }.boxed());

        let update = match executor::block_on(future::select(Box::pin(update), started_rx)) {
            Either::Right((_, update))  => update,
            Either::Left(_)             => panic!("Update should never complete")
        };

        // Busy while the update is in progress
        assert!(pair.try_sync(|pair| (pair.left, pair.right)).is_err());

        // Another thread calls try_sync until it succeeds
        let (seen_tx, seen_rx)  = mpsc::channel();
        let (go_tx, go_rx)      = mpsc::channel::<()>();
        let try_pair            = Arc::clone(&pair);

        thread::spawn(move || {
            go_rx.recv().ok();

            let give_up = Instant::now() + Duration::from_millis(3000);
            while Instant::now() < give_up {
                match try_pair.try_sync(|pair| (pair.left, pair.right)) {
                    Ok(seen)    => { seen_tx.send(seen).ok(); return; }
                    Err(_)      => { thread::sleep(Duration::from_millis(1)); }
                }
            }
        });

        // Abandon the update while the other thread is trying
        go_tx.send(()).ok();
        thread::sleep(Duration::from_millis(20));
        mem_drop(update);

        let (left, right) = seen_rx.recv_timeout(Duration::from_millis(4000)).expect("try_sync never succeeded after the update was abandoned");
        assert!(left == right, "try_sync saw a half-finished update: {} != {}", left, right);
    });
}
