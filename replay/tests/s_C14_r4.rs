//
// Demonstration for the seeded C14 change (memory safety of the safe API).
//
// Property under test: a closure passed to `sync` (and anything it borrows) is never touched after the `sync`
// call has ended, and job storage is never used after it has been released.
//
// Scenario (needs a specific multi-step sequence):
//   1. a scheduler with no pool threads, so a queued job stays on its queue until somebody drains it
//   2. an earlier job on the queue panics
//   3. `sync` on that queue drains it on the calling thread: it queues its own (lifetime-erased) job behind the
//      panicking one, runs the panicking job and is unwound by the panic. The closure, the job that wraps it and
//      the local it borrows are all released by the unwinding; the erased job is still sitting in the (now
//      panicked) queue.
//   4. the panic is caught and the queue and scheduler are discarded, which releases the jobs left on the queue.
//
// Nothing may run or look at the closure in step 4. The closure below checks a flag that is set by the destructor
// of the local it borrows: if it ever runs with that flag set, it is running after the `sync` call ended.
//
// The test installs a global allocator that never re-uses freed memory and leaves its contents alone, so that a
// read through a dangling pointer to the released job storage sees exactly the bytes that were there when it was
// released. That makes the outcome deterministic instead of depending on what the allocator happens to do with the
// freed block (with the system allocator the same access typically crashes the test binary instead).
//

use desync::scheduler::*;

use std::alloc::{GlobalAlloc, Layout, System};
use std::panic::{self, AssertUnwindSafe};
use std::sync::atomic::{AtomicBool, AtomicUsize, Ordering};

///
/// Allocator that quarantines everything that is freed: the memory is never handed out again and never modified
///
struct QuarantineAllocator;

unsafe impl GlobalAlloc for QuarantineAllocator {
    unsafe fn alloc(&self, layout: Layout) -> *mut u8 {
        System.alloc(layout)
    }

    unsafe fn dealloc(&self, _ptr: *mut u8, _layout: Layout) {
        // Freed blocks are leaked on purpose (this test binary is short-lived)
    }
}

#[global_allocator]
static ALLOCATOR: QuarantineAllocator = QuarantineAllocator;

/// Set by the destructor of the value the sync closure borrows (ie, once the frame that called sync() is gone)
static BORROW_ENDED: AtomicBool = AtomicBool::new(false);

/// Number of times the sync closure was entered
static CLOSURE_RUNS: AtomicUsize = AtomicUsize::new(0);

/// Set by the sync closure if it finds itself running after the value it borrows was destroyed
static RAN_AFTER_BORROW_ENDED: AtomicBool = AtomicBool::new(false);

struct Borrowed {
    value: usize
}

impl Drop for Borrowed {
    fn drop(&mut self) {
        BORROW_ENDED.store(true, Ordering::SeqCst);
    }
}

#[test]
fn sync_closure_is_never_run_after_its_sync_call_was_unwound() {
    // Private scheduler with no threads: jobs only run when a sync() drains the queue on the calling thread
    let scheduler = Scheduler::new();
    scheduler.set_max_threads(0);
    scheduler.despawn_threads_if_overloaded();

    let queue = scheduler.create_job_queue();

    // An earlier job that fails
    scheduler.desync(&queue, || { panic!("(expected) earlier job on the queue panics"); });

    // sync() has to run the earlier job to get to its own: the panic unwinds it (and the value the closure borrows)
    let sync_result = panic::catch_unwind(AssertUnwindSafe(|| {
        let borrowed = Borrowed { value: 42 };

        scheduler.sync(&queue, || {
            CLOSURE_RUNS.fetch_add(1, Ordering::SeqCst);

            if BORROW_ENDED.load(Ordering::SeqCst) {
                // The sync() call that this closure was passed to is over and `borrowed` is gone: don't touch it
                RAN_AFTER_BORROW_ENDED.store(true, Ordering::SeqCst);
                0
            } else {
                borrowed.value
            }
        })
    }));

    assert!(sync_result.is_err(), "sync() should relay the panic of the earlier job");
    assert!(BORROW_ENDED.load(Ordering::SeqCst), "the frame that called sync() should have been unwound");
    assert!(CLOSURE_RUNS.load(Ordering::SeqCst) == 0, "the sync closure should not have been reached");

    // Throw the panicked queue away along with the jobs that are still on it (the scheduler also holds a reference in its schedule)
    drop(queue);
    drop(scheduler);

    assert!(!RAN_AFTER_BORROW_ENDED.load(Ordering::SeqCst), "closure passed to sync() was run after the sync() call had ended and the value it borrows had been destroyed");
    assert!(CLOSURE_RUNS.load(Ordering::SeqCst) == 0, "closure passed to sync() was run from released job storage");
}
