//
// Demonstration for C01 ("operations on one Desync never overlap, even across awaits").
//
// A `future_sync` operation owns the Desync's exclusive time slot from the moment its closure is invoked until its
// future has completed or has been cancelled (dropped). The future it creates borrows the data (`&mut T`) for that
// whole time, including while it is being destroyed: a future that is cancelled half-way typically has clean-up to do
// with the data it borrowed (here: a 'rollback' guard).
//
// The test starts such an operation (A), queues a plain `desync` operation (B) behind it, then cancels A by dropping
// its future while it is suspended at an await. B must not start until A's future - and with it A's borrow of the data -
// is gone.
//

use desync::Desync;

use futures::prelude::*;
use futures::future;
use futures::task::{Context, Poll};
use futures::task::noop_waker;

use std::sync::*;
use std::sync::atomic::{AtomicBool, AtomicUsize, Ordering};
use std::sync::mpsc;
use std::thread;
use std::time::{Duration, Instant};

/// The data protected by the Desync
struct Log {
    events: Vec<&'static str>
}

/// Held by operation A for as long as it's in progress: undoes the partial work if A is abandoned before it's finished
struct Rollback<'a> {
    log:    &'a mut Log,
    active: Arc<AtomicUsize>,
    done:   bool
}

impl<'a> Drop for Rollback<'a> {
    fn drop(&mut self) {
        if !self.done {
            // Undoing the work takes a little while, and uses the exclusive borrow of the data
            self.log.events.push("A: rolling back");
            thread::sleep(Duration::from_millis(300));
            self.log.events.push("A: rolled back");
        }

        // Operation A is over only now
        self.active.fetch_sub(1, Ordering::SeqCst);
    }
}

fn run_scenario() -> (bool, Vec<&'static str>) {
    let desync      = Arc::new(Desync::new(Log { events: vec![] }));
    let active      = Arc::new(AtomicUsize::new(0));
    let overlapped  = Arc::new(AtomicBool::new(false));
    let started     = Arc::new(AtomicBool::new(false));

    // Operation A: a future_sync that starts some work and then suspends at an await (it never gets woken)
    let a_active    = Arc::clone(&active);
    let a_overlap   = Arc::clone(&overlapped);
    let a_started   = Arc::clone(&started);
    let operation_a = desync.future_sync(move |log: &mut Log| {
        // The closure has been invoked: the operation is in progress from here on
        if a_active.fetch_add(1, Ordering::SeqCst) != 0 { a_overlap.store(true, Ordering::SeqCst); }
        log.events.push("A: started");
        a_started.store(true, Ordering::SeqCst);

        let mut rollback = Rollback { log: log, active: a_active, done: false };

        async move {
            // Suspended here until cancelled
            future::pending::<()>().await;

            rollback.log.events.push("A: finished");
            rollback.done = true;
        }.boxed()
    });
    let mut operation_a = Box::pin(operation_a);

    // Poll A until its closure has been invoked (it then stays suspended at its await)
    let waker       = noop_waker();
    let mut context = Context::from_waker(&waker);
    let start       = Instant::now();

    while !started.load(Ordering::SeqCst) {
        assert!(start.elapsed() < Duration::from_secs(10), "Operation A never started");

        match operation_a.as_mut().poll(&mut context) {
            Poll::Pending   => { thread::sleep(Duration::from_millis(1)); }
            Poll::Ready(_)  => { panic!("Operation A should not complete"); }
        }
    }

    // Poll once more for luck: A is suspended mid-operation
    assert!(operation_a.as_mut().poll(&mut context).is_pending());

    // Operation B: queued behind A, so it can't start until A is over
    let b_active    = Arc::clone(&active);
    let b_overlap   = Arc::clone(&overlapped);
    desync.desync(move |log| {
        if b_active.fetch_add(1, Ordering::SeqCst) != 0 { b_overlap.store(true, Ordering::SeqCst); }
        log.events.push("B");
        b_active.fetch_sub(1, Ordering::SeqCst);
    });

    thread::sleep(Duration::from_millis(50));
    assert!(active.load(Ordering::SeqCst) == 1, "A should still be the only operation in progress");

    // Cancel A while it's suspended at its await
    drop(operation_a);

    // Wait for everything to finish and fetch the results
    let events = desync.sync(|log| log.events.clone());

    (overlapped.load(Ordering::SeqCst), events)
}

#[test]
fn cancelled_future_sync_keeps_its_slot_until_its_future_is_gone() {
    // Run in a separate thread so a hang turns into a failure
    let (send_result, recv_result) = mpsc::channel();

    thread::spawn(move || {
        for _ in 0..3 {
            let result = run_scenario();
            let failed = result.0;
            send_result.send(Some(result)).ok();
            if failed { break; }
        }
        send_result.send(None).ok();
    });

    loop {
        match recv_result.recv_timeout(Duration::from_secs(25)) {
            Ok(Some((overlapped, events))) => {
                println!("{:?}", events);

                assert!(!overlapped, "Operation B ran on the Desync while operation A was still in progress: {:?}", events);
                assert!(events == vec!["A: started", "A: rolling back", "A: rolled back", "B"], "Operations were interleaved: {:?}", events);
            }

            Ok(None)    => { break; }
            Err(_)      => { panic!("Timed out or scenario panicked"); }
        }
    }
}
