//
// Demonstration for C08: dropping a `future_sync` future while it is still waiting for its slot must release the
// queue, so that (given a pool thread) later operations still run.
//
// The future is polled exactly once while no pool thread is free, so the poll itself starts draining the queue on
// the calling thread ('thread stealing'). The operation that is ahead of it in the queue yields once (wakes its own
// waker from inside `poll` and returns `Pending`), so the drain stops there and the future_sync future is still
// waiting for its slot when it returns `Pending`. The future is then dropped (as a `select!` or a timeout would do).
// The queue must be handed to the pool at this point: the yielded operation and anything scheduled later must run.
//

use desync::scheduler::*;

use futures::prelude::*;
use futures::task;
use futures::task::{ArcWake, Poll, Context};

use std::pin::Pin;
use std::sync::*;
use std::sync::atomic::{AtomicBool, AtomicUsize, Ordering};
use std::sync::mpsc;
use std::thread;
use std::time::{Duration, Instant};

///
/// Waker that just counts how often it was woken
///
struct CountWaker(AtomicUsize);

impl ArcWake for CountWaker {
    fn wake_by_ref(arc_self: &Arc<Self>) {
        arc_self.0.fetch_add(1, Ordering::SeqCst);
    }
}

///
/// A future that yields to its executor exactly once: the first poll runs `before_yield`, wakes the waker it was
/// polled with and returns `Pending`, the second poll completes
///
struct YieldOnce<TFn: FnOnce() -> ()+Unpin> {
    before_yield:   Option<TFn>,
    polls:          Arc<AtomicUsize>
}

impl<TFn: FnOnce() -> ()+Unpin> Future for YieldOnce<TFn> {
    type Output = ();

    fn poll(mut self: Pin<&mut Self>, context: &mut Context) -> Poll<()> {
        self.polls.fetch_add(1, Ordering::SeqCst);

        if let Some(before_yield) = self.before_yield.take() {
            before_yield();

            context.waker().wake_by_ref();
            Poll::Pending
        } else {
            Poll::Ready(())
        }
    }
}

///
/// Waits for the single pool thread of a scheduler to be idle with nothing left in the schedule
///
fn wait_for_idle_pool(scheduler: &Scheduler) -> bool {
    let start = Instant::now();

    while start.elapsed() < Duration::from_secs(5) {
        let state = format!("{:?}", scheduler);
        if state.starts_with("I ") && state.ends_with("Pending queue count: 0") {
            return true;
        }

        thread::sleep(Duration::from_millis(2));
    }

    false
}

fn drop_while_waiting_for_slot_once() {
    // Private scheduler with a single pool thread
    let scheduler   = Arc::new(Scheduler::new());
    scheduler.set_max_threads(1);

    let blocker_queue   = scheduler.create_job_queue();
    let queue           = scheduler.create_job_queue();

    // Occupy the only pool thread, so nothing in the pool can pick up 'queue' for now
    let (blocker_started, wait_blocker_started) = mpsc::channel();
    let (release_blocker, wait_release)         = mpsc::channel::<()>();
    scheduler.desync(&blocker_queue, move || {
        blocker_started.send(()).ok();
        wait_release.recv_timeout(Duration::from_secs(10)).ok();
    });
    wait_blocker_started.recv_timeout(Duration::from_secs(5)).expect("Blocker job should start on the pool thread");

    // An earlier operation on the queue that yields once. While it's being polled for the first time it frees the pool
    // thread again and waits until that thread has gone back to sleep (it finds nothing to do, as 'queue' is running here)
    let yield_polls     = Arc::new(AtomicUsize::new(0));
    let pool_was_idle   = Arc::new(AtomicBool::new(false));

    let job_scheduler   = Arc::clone(&scheduler);
    let job_polls       = Arc::clone(&yield_polls);
    let job_was_idle    = Arc::clone(&pool_was_idle);
    scheduler.future_desync(&queue, move || {
        YieldOnce {
            before_yield: Some(move || {
                release_blocker.send(()).ok();
                job_was_idle.store(wait_for_idle_pool(&*job_scheduler), Ordering::SeqCst);
            }),
            polls: job_polls
        }
    }).detach();

    // The future_sync whose slot is behind the yielding operation
    let operation_ran   = Arc::new(AtomicBool::new(false));
    let op_ran          = Arc::clone(&operation_ran);
    let mut sync_future = Box::pin(scheduler.future_sync(&queue, move || async move { op_ran.store(true, Ordering::SeqCst); }));

    // Poll it once: the pool is busy, so this drains the queue on this thread as far as the yielding operation
    let waker           = Arc::new(CountWaker(AtomicUsize::new(0)));
    let waker_ref       = task::waker_ref(&waker);
    let mut context     = Context::from_waker(&waker_ref);

    assert!(sync_future.as_mut().poll(&mut context).is_pending(), "future_sync should still be waiting for its slot");
    assert!(yield_polls.load(Ordering::SeqCst) >= 1, "The poll should have started the earlier operation on this thread");
    assert!(pool_was_idle.load(Ordering::SeqCst), "Pool thread should have gone idle while the earlier operation was being polled");

    // Drop the future while it is waiting for its slot (what select!/a timeout would do)
    drop(sync_future);

    // A later operation on the same queue must still run: there's an idle pool thread available
    let (later_ran, wait_later) = mpsc::channel();
    scheduler.desync(&queue, move || { later_ran.send(()).ok(); });

    let later_result = wait_later.recv_timeout(Duration::from_secs(3));

    assert!(later_result.is_ok(), "Later operation never ran after the future_sync future was dropped: queue is {:?}, scheduler is {:?}, earlier operation polled {} times",
        queue, scheduler, yield_polls.load(Ordering::SeqCst));
    assert!(!operation_ran.load(Ordering::SeqCst), "The cancelled operation must never start");
    assert!(yield_polls.load(Ordering::SeqCst) == 2, "The earlier operation should have been completed by the pool");
}

#[test]
fn drop_future_sync_while_waiting_for_slot_releases_queue() {
    for _ in 0..5 {
        drop_while_waiting_for_slot_once();
    }
}
