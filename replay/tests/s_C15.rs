//!
//! Demonstration for C15: a panicking operation is contained to its own object.
//!
//! Once an operation has panicked (and the panic has finished unwinding), every attempt to schedule on
//! the panicked queue must fail loudly (panic) - it must not silently accept the job, drop it, or block.
//! Other queues must carry on working and the pool must keep its capacity.
//!
//! The interesting case exercised here is an operation that receives a wake-up *while it is being polled*
//! (from itself, or from another thread) and then panics in that same poll.
//!

extern crate desync;
extern crate futures;

use desync::scheduler::*;

use futures::task::{Context, Poll, Waker};

use std::future::Future;
use std::panic::{catch_unwind, AssertUnwindSafe};
use std::pin::Pin;
use std::sync::mpsc::*;
use std::sync::*;
use std::thread;
use std::time::*;

/// How long we allow a scheduling attempt on a panicked queue to take before we declare it 'blocked'
const ATTEMPT_TIMEOUT: Duration = Duration::from_millis(1500);

///
/// Future that wakes itself up and then panics during the same poll
///
struct WakeSelfThenPanic;

impl Future for WakeSelfThenPanic {
    type Output = ();

    fn poll(self: Pin<&mut Self>, context: &mut Context) -> Poll<()> {
        context.waker().wake_by_ref();
        panic!("Deliberate panic (after waking self)");
    }
}

///
/// Future that returns pending on the first poll (handing its waker out), then on the second poll
/// waits for the other side to acknowledge before panicking
///
struct PanicOnSecondPoll {
    polls:      usize,
    send_waker: Sender<Waker>,
    in_poll_2:  Sender<()>,
    go_panic:   Receiver<()>,
}

impl Future for PanicOnSecondPoll {
    type Output = ();

    fn poll(mut self: Pin<&mut Self>, context: &mut Context) -> Poll<()> {
        self.polls += 1;

        if self.polls == 1 {
            self.send_waker.send(context.waker().clone()).ok();
            Poll::Pending
        } else {
            // Tell the test we're in the middle of the second poll, wait for it to deliver its (late) wake-up
            self.in_poll_2.send(()).ok();
            self.go_panic.recv_timeout(Duration::from_secs(5)).ok();

            panic!("Deliberate panic (woken by another thread during the poll)");
        }
    }
}

///
/// Waits for the queue to leave the states it can have while the panicking job is still on its way out
///
fn wait_for_panic_to_settle(scheduler: &Arc<Scheduler>, queue: &Arc<JobQueue>) {
    let start = Instant::now();

    // With the correct library the queue reaches 'Panicked'; give a broken one a generous amount of time to get there too
    while start.elapsed() < Duration::from_millis(1000) {
        if format!("{:?}", queue).contains("Panicked") { break; }
        thread::sleep(Duration::from_millis(5));
    }

    // Let the unwinding thread finish completely
    thread::sleep(Duration::from_millis(200));
    println!("After panic: queue = {:?}, scheduler = {:?}", queue, scheduler);
}

///
/// Runs a scheduling attempt on another thread, and returns an error if it does anything other than panic
///
fn must_panic<TFn: 'static+Send+FnOnce() -> ()>(what: &str, attempt: TFn) -> Result<(), String> {
    let (tx, rx) = channel();

    thread::Builder::new()
        .name(format!("attempt: {}", what))
        .spawn(move || {
            let result = catch_unwind(AssertUnwindSafe(attempt));
            tx.send(result.is_err()).ok();
        })
        .unwrap();

    match rx.recv_timeout(ATTEMPT_TIMEOUT) {
        Ok(true)    => Ok(()),
        Ok(false)   => Err(format!("{}: returned normally on a panicked queue (should have panicked)", what)),
        Err(_)      => Err(format!("{}: blocked on a panicked queue (should have panicked)", what))
    }
}

///
/// Checks that every way of scheduling on a panicked queue fails loudly
///
fn check_panicked_queue_fails_loudly(scheduler: &Arc<Scheduler>, queue: &Arc<JobQueue>) {
    let mut failures = vec![];

    {
        let (scheduler, queue, ran) = (Arc::clone(scheduler), Arc::clone(queue), Arc::new(Mutex::new(false)));
        let ran2 = Arc::clone(&ran);
        failures.extend(must_panic("desync", move || { scheduler.desync(&queue, move || { *ran2.lock().unwrap() = true; }); }).err());
        assert!(!*ran.lock().unwrap(), "Job ran on a panicked queue");
    }

    {
        let (scheduler, queue) = (Arc::clone(scheduler), Arc::clone(queue));
        failures.extend(must_panic("future_desync", move || { scheduler.future_desync(&queue, || async { }).detach(); }).err());
    }

    {
        let (scheduler, queue) = (Arc::clone(scheduler), Arc::clone(queue));
        failures.extend(must_panic("try_sync", move || { scheduler.try_sync(&queue, || { }).ok(); }).err());
    }

    {
        let (scheduler, queue) = (Arc::clone(scheduler), Arc::clone(queue));
        failures.extend(must_panic("sync", move || { scheduler.sync(&queue, || { }); }).err());
    }

    assert!(failures.is_empty(), "Scheduling on the panicked queue did not fail loudly: {:?} (queue is {:?})", failures, queue);
}

///
/// Checks that a healthy queue in the same scheduler still works, and that the pool can still run `capacity` jobs at once
///
fn check_healthy_queues_work(scheduler: &Arc<Scheduler>, capacity: usize) {
    // Ordinary operations on a fresh queue
    let healthy     = scheduler.create_job_queue();
    let (tx, rx)    = channel();

    for val in 0..3 {
        let tx = tx.clone();
        scheduler.desync(&healthy, move || { tx.send(val).unwrap(); });
    }
    for val in 0..3 {
        assert!(rx.recv_timeout(Duration::from_secs(2)) == Ok(val), "Healthy queue did not run its jobs in order");
    }
    assert!(scheduler.sync(&healthy, || 42) == 42);

    // `capacity` jobs on `capacity` queues should all be able to be running at the same time
    if capacity > 0 {
        let barrier = Arc::new(Barrier::new(capacity + 1));
        let queues  = (0..capacity).map(|_| scheduler.create_job_queue()).collect::<Vec<_>>();

        for queue in queues.iter() {
            let barrier = Arc::clone(&barrier);
            scheduler.desync(queue, move || { barrier.wait(); });
        }

        let (tx, rx) = channel();
        thread::spawn(move || { barrier.wait(); tx.send(()).ok(); });
        assert!(rx.recv_timeout(Duration::from_secs(3)).is_ok(), "Pool could not run {} jobs at once after a panic: {:?}", capacity, scheduler);
    }
}

#[test]
fn job_that_wakes_itself_then_panics_on_pool_thread() {
    for max_threads in 1..=3 {
        let scheduler   = Arc::new(Scheduler::new());
        scheduler.set_max_threads(max_threads);

        let queue       = scheduler.create_job_queue();

        // The job wakes its own queue while it's running on a pool thread, then panics
        scheduler.future_desync(&queue, || WakeSelfThenPanic).detach();
        wait_for_panic_to_settle(&scheduler, &queue);

        check_panicked_queue_fails_loudly(&scheduler, &queue);
        check_healthy_queues_work(&scheduler, max_threads);
    }
}

#[test]
fn job_woken_by_other_thread_mid_poll_then_panics_on_pool_thread() {
    let scheduler   = Arc::new(Scheduler::new());
    scheduler.set_max_threads(2);

    let queue       = scheduler.create_job_queue();

    let (send_waker, recv_waker)    = channel();
    let (in_poll_2, recv_in_poll_2) = channel();
    let (send_go, go_panic)         = channel();

    scheduler.future_desync(&queue, move || PanicOnSecondPoll { polls: 0, send_waker, in_poll_2, go_panic }).detach();

    // First poll hands us the waker and goes to sleep. Wake it up so it gets polled a second time
    let waker = recv_waker.recv_timeout(Duration::from_secs(2)).expect("First poll");
    thread::sleep(Duration::from_millis(50));
    waker.wake_by_ref();

    // While the second poll is in progress, a second wake-up arrives (eg, a notification from some other source)
    recv_in_poll_2.recv_timeout(Duration::from_secs(2)).expect("Second poll");
    waker.wake_by_ref();

    // ... and then the job panics
    send_go.send(()).unwrap();
    wait_for_panic_to_settle(&scheduler, &queue);

    check_panicked_queue_fails_loudly(&scheduler, &queue);
    check_healthy_queues_work(&scheduler, 2);
}

#[test]
fn job_that_wakes_itself_then_panics_in_sync_caller() {
    // No pool threads: the job waits on the queue until a sync() caller drains the queue on its own thread
    let scheduler   = Arc::new(Scheduler::new());
    scheduler.set_max_threads(0);

    let queue       = scheduler.create_job_queue();
    scheduler.future_desync(&queue, || WakeSelfThenPanic).detach();

    // The sync caller runs the panicking job, so the panic is relayed to it
    let sync_result = {
        let (scheduler, queue) = (Arc::clone(&scheduler), Arc::clone(&queue));
        thread::spawn(move || { scheduler.sync(&queue, || { }); }).join()
    };
    assert!(sync_result.is_err(), "sync() should have relayed the panic");
    println!("After panic: queue = {:?}, scheduler = {:?}", queue, scheduler);

    check_panicked_queue_fails_loudly(&scheduler, &queue);

    // Other queues are still usable (give the scheduler a thread to run them on)
    scheduler.set_max_threads(1);
    check_healthy_queues_work(&scheduler, 1);
}
