//
// Demonstration for C02 (operations run in the order their scheduling calls were made)
//
// `Desync::future_sync` must fix the position of its operation in the queue when the call returns, whether or not
// the returned future has been polled yet. Every scenario here makes the `future_sync` call first, lets it return,
// then makes a second call on the same object (from the same or another thread) and only afterwards polls the future.
//

extern crate desync;
extern crate futures;

use desync::Desync;

use futures::prelude::*;
use futures::executor;
use futures::channel::oneshot;

use std::sync::*;
use std::sync::mpsc;
use std::thread;
use std::time::Duration;

///
/// Runs a scenario on its own thread and fails if it does not finish in time
///
fn with_timeout<TFn: 'static+Send+FnOnce() -> ()>(millis: u64, scenario: TFn) {
    let (done_tx, done_rx) = mpsc::channel();

    thread::spawn(move || {
        scenario();
        done_tx.send(()).ok();
    });

    match done_rx.recv_timeout(Duration::from_millis(millis)) {
        Ok(())  => { }
        Err(_)  => panic!("Scenario did not finish (panicked or timed out)")
    }
}

#[test]
fn future_sync_then_desync_on_same_thread() {
    with_timeout(10000, || {
        for _ in 0..50 {
            let log = Arc::new(Desync::new(Vec::<&'static str>::new()));

            // First call: returns before the second call is made
            let first = log.future_sync(|log| async move { log.push("first"); }.boxed());

            // Second call
            log.desync(|log| log.push("second"));

            // Only now is the future from the first call polled
            executor::block_on(first).unwrap();

            let order = log.sync(|log| log.clone());
            assert!(order == vec!["first", "second"], "Operations ran in the order {:?}", order);
        }
    });
}

#[test]
fn future_sync_then_sync_on_another_thread() {
    with_timeout(10000, || {
        for _ in 0..20 {
            let log = Arc::new(Desync::new(Vec::<&'static str>::new()));

            // First call: returns before the second call is made
            let first = log.future_sync(|log| async move { log.push("first"); }.boxed());

            // Second call, made on another thread strictly after the first one returned
            let (started_tx, started_rx)    = mpsc::channel();
            let other_log                   = Arc::clone(&log);
            let other_thread                = thread::spawn(move || {
                started_tx.send(()).ok();
                other_log.sync(|log| log.push("second"));
            });

            // Give the other thread the time to make its call before the future is polled for the first time
            started_rx.recv().unwrap();
            thread::sleep(Duration::from_millis(20));

            executor::block_on(first).unwrap();
            other_thread.join().unwrap();

            let order = log.sync(|log| log.clone());
            assert!(order == vec!["first", "second"], "Operations ran in the order {:?}", order);
        }
    });
}

#[test]
fn future_sync_then_future_desync_polled_in_reverse() {
    with_timeout(10000, || {
        for _ in 0..50 {
            let log = Arc::new(Desync::new(Vec::<&'static str>::new()));

            // Keep the queue busy while the calls are made, so nothing can start early
            let (release_tx, release_rx) = oneshot::channel::<()>();
            log.future_desync(move |_| async move { release_rx.await.ok(); }.boxed()).detach();

            // First call, then second call
            let first   = log.future_sync(|log| async move { log.push("first"); }.boxed());
            let second  = log.future_desync(|log| async move { log.push("second"); }.boxed());

            release_tx.send(()).ok();

            // The futures are awaited together: the order of the operations was fixed by the calls above
            executor::block_on(async move {
                let (second, first) = future::join(second, first).await;
                second.unwrap();
                first.unwrap();
            });

            let order = log.sync(|log| log.clone());
            assert!(order == vec!["first", "second"], "Operations ran in the order {:?}", order);
        }
    });
}
