//
// C10 demonstration: different queues make progress independently as long as the pool has a thread that is free
// or may still be spawned.
//
// A private pool is limited to one thread and that thread is blocked by a job on queue A. Two more queues (B and C)
// are then given jobs: they have to wait in the schedule as there is no thread for them (which is allowed). The pool
// limit is then raised to 4, so from that point on the pool may spawn a thread for every waiting queue. B's job
// blocks on an external gate for as long as the test likes; C's job must still run, because the pool still has two
// threads that it may spawn.
//

use desync::scheduler::*;

use std::sync::mpsc;
use std::thread;
use std::time::{Duration, Instant};

const TIMEOUT: Duration = Duration::from_secs(4);

fn run_round(round: usize) {
    let scheduler = Scheduler::new();
    scheduler.set_max_threads(1);

    let queue_a = scheduler.create_job_queue();
    let queue_b = scheduler.create_job_queue();
    let queue_c = scheduler.create_job_queue();

    // A blocks the only thread in the pool on an external gate
    let (a_started_send, a_started)     = mpsc::channel::<()>();
    let (a_gate, a_gate_recv)           = mpsc::channel::<()>();
    scheduler.desync(&queue_a, move || {
        a_started_send.send(()).ok();
        a_gate_recv.recv().ok();
    });
    a_started.recv_timeout(TIMEOUT).expect("A should start on the pool's only thread");

    // B and C have to wait: every thread is busy and no more may be spawned
    let (b_started_send, b_started)     = mpsc::channel::<()>();
    let (b_gate, b_gate_recv)           = mpsc::channel::<()>();
    scheduler.desync(&queue_b, move || {
        b_started_send.send(()).ok();
        b_gate_recv.recv().ok();
    });

    let (c_done_send, c_done)           = mpsc::channel::<()>();
    scheduler.desync(&queue_c, move || {
        c_done_send.send(()).ok();
    });

    thread::sleep(Duration::from_millis(50));
    assert!(b_started.try_recv().is_err(), "B should not be able to start while the pool is limited to one (blocked) thread");
    assert!(c_done.try_recv().is_err(), "C should not be able to run while the pool is limited to one (blocked) thread");

    // The pool may now spawn three more threads: two objects are waiting
    scheduler.set_max_threads(4);

    // B starts and then stays blocked on its gate...
    let b_result = b_started.recv_timeout(TIMEOUT);

    // ... which must not stop C from running
    let start       = Instant::now();
    let c_result    = c_done.recv_timeout(TIMEOUT);
    let state       = format!("{:?} (A: {:?}, B: {:?}, C: {:?})", scheduler, queue_a, queue_b, queue_c);

    // Open the gates so the pool threads are not left blocked whatever the outcome
    a_gate.send(()).ok();
    b_gate.send(()).ok();

    assert!(b_result.is_ok(), "round {}: B never started after the thread limit was raised: {}", round, state);
    assert!(c_result.is_ok(),
        "round {}: C did not run within {:?} while A and B were blocked, though the pool could still spawn threads: {}",
        round, start.elapsed(), state);

    // Everything finishes once the gates are open
    scheduler.sync(&queue_a, || { });
    scheduler.sync(&queue_b, || { });
    scheduler.sync(&queue_c, || { });
}

#[test]
fn blocked_queues_do_not_hold_up_another_queue_after_thread_limit_is_raised() {
    for round in 0..3 {
        run_round(round);
    }
}
