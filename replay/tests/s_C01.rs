//
// Demonstration for property C01: operations on one Desync/job queue never overlap, even across awaits.
//
// A `future_desync` operation that is suspended at an await still 'owns' the queue: nothing else scheduled
// on that queue may run (and, for a `Desync<T>`, nothing else may be handed `&mut T`) until it completes.
//
// Both tests drive a queue into an unusual but legal state: `Idle` while a suspended future job is still
// sitting at the front of the queue. This happens whenever a waker that belonged to an *earlier* operation
// of the same queue (one that was polled on a thread inside `sync()`) is invoked late, while a *later*
// future operation is suspended on a pool thread (the same state is also passed through, briefly, every time
// a suspended queue is woken up, between the wake and the reschedule). `sync`, `desync`, polling a scheduler
// future and the pool threads all cope with that state because they resume the job at the front of the queue
// first; `try_sync` must report `Busy`.
//

use desync::Desync;
use desync::scheduler::*;

use futures::prelude::*;
use futures::task::{Context, Poll, Waker};

use std::pin::Pin;
use std::sync::atomic::{AtomicBool, Ordering};
use std::sync::mpsc;
use std::sync::{Arc, Mutex};
use std::thread;
use std::time::{Duration, Instant};

///
/// A future that stays pending until `open()` is called. It records every waker it is polled with
/// and never wakes anything by itself (the test decides when, and which, wakers are invoked)
///
#[derive(Clone)]
struct Gate(Arc<Mutex<GateState>>);

struct GateState {
    open:   bool,
    wakers: Vec<Waker>
}

struct GateFuture(Gate);

impl Gate {
    fn new() -> Gate {
        Gate(Arc::new(Mutex::new(GateState { open: false, wakers: vec![] })))
    }

    fn wait(&self) -> GateFuture {
        GateFuture(self.clone())
    }

    fn open(&self) {
        self.0.lock().unwrap().open = true;
    }

    fn wake_all(&self) {
        let wakers = self.0.lock().unwrap().wakers.clone();
        wakers.into_iter().for_each(|waker| waker.wake());
    }

    /// Waits until the gate has been polled at least once and returns the most recent waker
    fn wait_for_waker(&self) -> Waker {
        let start = Instant::now();
        loop {
            if let Some(waker) = self.0.lock().unwrap().wakers.last().cloned() {
                return waker;
            }

            assert!(start.elapsed() < Duration::from_secs(10), "Gate was never polled");
            thread::sleep(Duration::from_millis(1));
        }
    }
}

impl Future for GateFuture {
    type Output = ();

    fn poll(self: Pin<&mut Self>, context: &mut Context) -> Poll<()> {
        let mut state = (self.0).0.lock().unwrap();

        if state.open {
            Poll::Ready(())
        } else {
            state.wakers.push(context.waker().clone());
            Poll::Pending
        }
    }
}

///
/// Runs a test body on its own thread and fails if it does not finish in time
///
fn with_timeout<TFn: 'static+Send+FnOnce() -> ()>(seconds: u64, body: TFn) {
    let (done_send, done_recv) = mpsc::channel();

    let runner = thread::spawn(move || {
        body();
        done_send.send(()).ok();
    });

    match done_recv.recv_timeout(Duration::from_secs(seconds)) {
        Ok(())                                      => { runner.join().unwrap(); }
        Err(mpsc::RecvTimeoutError::Disconnected)   => { runner.join().expect("Test body panicked"); panic!("Test body stopped without finishing"); }
        Err(mpsc::RecvTimeoutError::Timeout)        => { panic!("Timed out"); }
    }
}

///
/// Waits for the (public) debug description of a queue to mention a particular state
///
fn wait_for_queue_state(queue: &Arc<JobQueue>, state: &str) {
    let start = Instant::now();

    while !format!("{:?}", queue).contains(state) {
        assert!(start.elapsed() < Duration::from_secs(10), "Queue never reached {}: {:?}", state, queue);
        thread::sleep(Duration::from_millis(1));
    }
}

///
/// Step 1 of both tests: run a future job to completion *inside a `sync()` call on this thread* (there are no pool
/// threads at this point, so `sync` drains the queue itself and polls the future with a waker that unparks this thread).
/// Returns that waker: it is now 'stale', as the operation it was created for has finished.
///
fn finish_first_operation_and_keep_its_waker<TSync: FnOnce() -> ()>(first_gate: &Gate, sync: TSync) -> Waker {
    let helper_gate = first_gate.clone();
    let helper      = thread::spawn(move || {
        // Once the first operation is suspended, let it finish, but hang on to the waker (as, say, a timer or a channel might)
        let waker = helper_gate.wait_for_waker();
        helper_gate.open();
        waker.wake_by_ref();
        waker
    });

    sync();

    helper.join().unwrap()
}

#[test]
fn try_sync_does_not_run_while_future_is_suspended_on_job_queue() {
    with_timeout(25, || {
        let scheduler   = Scheduler::new();
        let queue       = scheduler.create_job_queue();
        scheduler.set_max_threads(0);

        // Operation 1: a future that's polled (and later finished) by a sync() call on this thread
        let first_gate  = Gate::new();
        let gate        = first_gate.clone();
        scheduler.future_desync(&queue, move || gate.wait()).detach();

        let stale_waker = finish_first_operation_and_keep_its_waker(&first_gate, || scheduler.sync(&queue, || { }));
        wait_for_queue_state(&queue, "Idle, Pending: 0");

        // Operation 2: a future that runs on a pool thread and suspends itself at an await
        scheduler.set_max_threads(1);

        let in_flight       = Arc::new(AtomicBool::new(false));
        let second_gate     = Gate::new();
        let gate            = second_gate.clone();
        let op_in_flight    = Arc::clone(&in_flight);
        scheduler.future_desync(&queue, move || async move {
            op_in_flight.store(true, Ordering::SeqCst);
            gate.wait().await;
            op_in_flight.store(false, Ordering::SeqCst);
        }).detach();

        second_gate.wait_for_waker();
        wait_for_queue_state(&queue, "WaitingForWake");
        assert!(in_flight.load(Ordering::SeqCst));

        // The waker left over from operation 1 goes off late (operation 2 is not woken by this: its gate is still closed)
        stale_waker.wake_by_ref();

        // Operation 3: try_sync. Operation 2 is still suspended at its await, so this must not run now
        let check_in_flight = Arc::clone(&in_flight);
        let try_result      = scheduler.try_sync(&queue, move || check_in_flight.load(Ordering::SeqCst));

        // Let operation 2 finish, then wait for the queue before checking the result
        second_gate.open();
        second_gate.wake_all();
        scheduler.sync(&queue, || { });
        assert!(!in_flight.load(Ordering::SeqCst), "Operation 2 never finished");

        match try_result {
            Err(TrySyncError::Busy) => { /* Expected: the queue is occupied by the suspended operation */ }
            Ok(false)               => { /* Would also be fine: ran strictly before/after operation 2 */ }
            Ok(true)                => { panic!("C01 violated: try_sync ran its closure while a future_desync operation on the same queue was suspended at an await"); }
        }
    });
}

struct Protected {
    /// Set by the future operation for the whole time it holds `&mut Protected`
    borrowed_by_future: bool,

    /// Number of times some other operation was handed `&mut Protected` while `borrowed_by_future` was set
    overlaps: usize
}

#[test]
fn try_sync_does_not_alias_desync_data_held_across_await() {
    with_timeout(25, || {
        // Desync<T> uses the global scheduler: start with no pool threads so that sync() drains on this thread
        scheduler().set_max_threads(0);
        scheduler().despawn_threads_if_overloaded();

        let protected   = Arc::new(Desync::new(Protected { borrowed_by_future: false, overlaps: 0 }));

        // Operation 1: polled and finished by a sync() call on this thread
        let first_gate  = Gate::new();
        let gate        = first_gate.clone();
        protected.future_desync(move |_| async move { gate.wait().await; }.boxed()).detach();

        let stale_waker = finish_first_operation_and_keep_its_waker(&first_gate, || protected.sync(|_| { }));

        // Operation 2: holds `&mut Protected` across an await on a pool thread
        scheduler().set_max_threads(1);

        let second_gate = Gate::new();
        let gate        = second_gate.clone();
        protected.future_desync(move |protected| async move {
            protected.borrowed_by_future = true;
            gate.wait().await;
            protected.borrowed_by_future = false;
        }.boxed()).detach();

        // Wait for it to suspend (and give the pool thread time to park the queue after the poll returns)
        second_gate.wait_for_waker();
        thread::sleep(Duration::from_millis(300));

        // The waker left over from operation 1 goes off late
        stale_waker.wake_by_ref();

        // Operation 3: must not be given `&mut Protected` while operation 2 still has it
        let try_result = protected.try_sync(|protected| {
            if protected.borrowed_by_future {
                protected.overlaps += 1;
            }
        });

        // Let operation 2 finish and read back what happened
        second_gate.open();
        second_gate.wake_all();

        let (still_borrowed, overlaps) = protected.sync(|protected| (protected.borrowed_by_future, protected.overlaps));

        assert!(!still_borrowed, "Operation 2 never finished");
        assert!(overlaps == 0, "C01 violated: try_sync handed out &mut T while a suspended future_desync operation still held it (try_sync returned {:?})", try_result);
    });
}

#[test]
fn try_sync_does_not_run_between_wake_and_reschedule() {
    // Same violation with no stale waker involved: it only needs try_sync to land in the short window after a suspended
    // queue has been woken up and before it has been rescheduled. Stress the interleaving.
    with_timeout(28, || {
        let scheduler   = Arc::new(Scheduler::new());
        let queue       = scheduler.create_job_queue();
        scheduler.set_max_threads(2);

        let in_flight   = Arc::new(AtomicBool::new(false));
        let stop        = Arc::new(AtomicBool::new(false));
        let violations  = Arc::new(Mutex::new(0usize));

        // Thread that continually attempts try_sync on the queue
        let trier = {
            let (scheduler, queue, in_flight, stop, violations) = (Arc::clone(&scheduler), Arc::clone(&queue), Arc::clone(&in_flight), Arc::clone(&stop), Arc::clone(&violations));

            thread::spawn(move || {
                while !stop.load(Ordering::SeqCst) {
                    if let Ok(true) = scheduler.try_sync(&queue, || in_flight.load(Ordering::SeqCst)) {
                        *violations.lock().unwrap() += 1;
                    }
                }
            })
        };

        let start = Instant::now();
        let mut iterations = 0;
        while start.elapsed() < Duration::from_secs(8) && *violations.lock().unwrap() == 0 {
            iterations += 1;

            // Schedule an operation that suspends itself (retry until it's queued on an idle queue, for simplicity: desync never fails)
            let gate            = Gate::new();
            let op_gate         = gate.clone();
            let op_in_flight    = Arc::clone(&in_flight);
            scheduler.future_desync(&queue, move || async move {
                op_in_flight.store(true, Ordering::SeqCst);
                op_gate.wait().await;
                op_in_flight.store(false, Ordering::SeqCst);
            }).detach();

            // Wait for it to be suspended, then wake it
            gate.wait_for_waker();
            while !format!("{:?}", queue).contains("WaitingForWake") { thread::yield_now(); }

            gate.open();
            gate.wake_all();

            // Wait for the operation to finish
            while in_flight.load(Ordering::SeqCst) { thread::yield_now(); }
        }

        stop.store(true, Ordering::SeqCst);
        trier.join().unwrap();
        scheduler.sync(&queue, || { });

        let violations = *violations.lock().unwrap();
        println!("{} iterations, {} violations", iterations, violations);
        assert!(violations == 0, "C01 violated: try_sync ran its closure while a woken (but not yet resumed) future_desync operation was still suspended at its await ({} iterations)", iterations);
    });
}
