extern crate desync;
extern crate futures;

use desync::*;

use futures::channel::mpsc;
use futures::executor;
use futures::future;
use futures::prelude::*;

use std::sync::mpsc as std_mpsc;
use std::sync::*;
use std::thread;
use std::time::Duration;

///
/// Reads the whole of a pipe stream on a background thread, returning `None` if it does not finish within the timeout
///
fn drain_with_timeout(mut pipe_out: PipeStream<usize>, read_delay: Duration, timeout: Duration) -> Option<Vec<usize>> {
    let (done_tx, done_rx) = std_mpsc::channel();

    thread::spawn(move || {
        let result = executor::block_on(async {
            let mut result = vec![];
            while let Some(item) = pipe_out.next().await {
                result.push(item);
                if read_delay > Duration::from_millis(0) {
                    thread::sleep(read_delay);
                }
            }
            result
        });

        done_tx.send(result).ok();
    });

    done_rx.recv_timeout(timeout).ok()
}

///
/// A burst of input arrives before the consumer starts reading (so the pipe buffers more than its back-pressure depth, as the
/// depth is only checked when the producing job starts), then one more item arrives and the input ends while the buffer is
/// still over-full. The consumer must still see every output, in order, followed by the end of the stream.
///
#[test]
fn burst_then_late_item_with_backpressure() {
    for depth in 1..=5usize {
        let burst = depth + 2;

        // The burst is waiting in the channel before the pipe is created, so the initial poll reads all of it
        let (mut sender, receiver) = mpsc::channel::<usize>(100);
        executor::block_on(async {
            for item in 0..burst {
                sender.send(item).await.unwrap();
            }
        });

        let obj             = Arc::new(Desync::new(1000usize));
        let mut pipe_out    = pipe(Arc::clone(&obj), receiver, |core, item: usize| future::ready(item + *core).boxed());
        pipe_out.set_backpressure_depth(depth);

        // A late item: the producing job wakes up, finds the buffer full and waits for the back-pressure to be released
        executor::block_on(async { sender.send(burst).await.unwrap(); });
        obj.sync(|_| { });

        // End of input
        drop(sender);
        obj.sync(|_| { });

        // Read everything
        let result      = drain_with_timeout(pipe_out, Duration::from_millis(0), Duration::from_secs(4));
        let expected    = (0..=burst).map(|item| item + 1000).collect::<Vec<_>>();

        assert!(result.is_some(), "depth {}: output stream never finished (consumer or producer was never woken)", depth);
        assert!(result == Some(expected.clone()), "depth {}: {:?} != {:?}", depth, result, expected);
    }
}

///
/// Same thing without any careful sequencing: a producer thread that sends in bursts and a slowish consumer
///
#[test]
fn bursty_producer_slow_consumer() {
    for depth in [1usize, 2, 3, 5].iter().cloned() {
        let (sender, receiver) = mpsc::unbounded::<usize>();

        let obj             = Arc::new(Desync::new(0usize));
        let mut pipe_out    = pipe(Arc::clone(&obj), receiver, |_core, item: usize| future::ready(item * 2).boxed());
        pipe_out.set_backpressure_depth(depth);

        let total = 160usize;
        thread::spawn(move || {
            let mut next = 0;
            while next < total {
                // Burst of 8 items, then a pause
                for _ in 0..8 {
                    if sender.unbounded_send(next).is_err() { return; }
                    next += 1;
                }
                thread::sleep(Duration::from_millis(2));
            }
        });

        let result      = drain_with_timeout(pipe_out, Duration::from_micros(300), Duration::from_secs(5));
        let expected    = (0..total).map(|item| item * 2).collect::<Vec<_>>();

        assert!(result.is_some(), "depth {}: output stream never finished (consumer or producer was never woken)", depth);
        assert!(result == Some(expected), "depth {}: wrong output {:?}", depth, result);
    }
}
