//!
//! Demonstration for property C02 (operations on one queue run in the order their scheduling calls were made).
//!
//! `sync()` may only run its job directly on the calling thread if nothing is queued ahead of it. A queue can be in
//! the `Idle` state while jobs are still queued on it:
//!
//!  * for a moment, between a runner marking the queue idle and `reschedule_queue()` marking it pending again (at the
//!    end of an immediate sync, a sync drain, a waiter that stole the queue, or when a suspended future job is woken)
//!  * for as long as you like, when a waker created by a thread that was draining the queue (`sync()` polling a
//!    future job on the calling thread) is invoked again later on, while a different future job is suspended on a
//!    pool thread: the queue goes from 'waiting for wake' to idle and stays there until the next scheduling call
//!
//! `sync()` has to drain the queue in that case so that its job runs after the jobs that were scheduled before it.
//!
//! `stale_waker_then_sync` sets the second situation up deterministically (no timing dependency except for generous sleeps),
//! `sync_right_after_immediate_sync` races for the first one.
//!

use desync::scheduler::*;

use futures::channel::oneshot;
use futures::future;

use std::sync::*;
use std::sync::atomic::{AtomicBool, AtomicUsize, Ordering};
use std::sync::mpsc;
use std::task::{Poll, Waker};
use std::thread;
use std::time::{Duration, Instant};

///
/// Runs a test on its own thread, failing if it does not complete in time
///
fn with_timeout<TFn: 'static+Send+FnOnce() -> ()>(action: TFn, millis: u64) {
    let (tx, rx) = mpsc::channel();

    thread::Builder::new()
        .name("seed demo thread".to_string())
        .spawn(move || {
            struct SendOnDrop(mpsc::Sender<bool>);
            impl Drop for SendOnDrop {
                fn drop(&mut self) { self.0.send(thread::panicking()).ok(); }
            }

            let _done = SendOnDrop(tx);
            action();
        })
        .unwrap();

    match rx.recv_timeout(Duration::from_millis(millis)) {
        Ok(false)   => { }
        Ok(true)    => panic!("Test thread panicked"),
        Err(_)      => panic!("Test timed out")
    }
}

///
/// A simple 'level' event: futures wait for the level to reach a value, `set_level` wakes everything that ever waited
///
/// It remembers every waker it has been polled with and wakes all of them whenever the level changes (wakers may be woken
/// spuriously at any time, including after the future that registered them has completed, so this is a legal if untidy
/// thing for an event source to do)
///
struct LevelEvent {
    state: Mutex<(usize, Vec<Waker>)>
}

impl LevelEvent {
    fn new() -> Arc<LevelEvent> {
        Arc::new(LevelEvent { state: Mutex::new((0, vec![])) })
    }

    fn wait_for(self: &Arc<Self>, level: usize) -> impl Send+future::Future<Output=()> {
        let event = Arc::clone(self);

        future::poll_fn(move |context| {
            let mut state = event.state.lock().unwrap();

            if state.0 >= level {
                Poll::Ready(())
            } else {
                state.1.push(context.waker().clone());
                Poll::Pending
            }
        })
    }

    fn set_level(&self, level: usize) {
        let wakers = {
            let mut state = self.state.lock().unwrap();
            state.0 = level;
            state.1.clone()
        };

        wakers.iter().for_each(|waker| waker.wake_by_ref());
    }
}

///
/// Waits for a condition to become true
///
fn wait_until<TFn: Fn() -> bool>(condition: TFn) {
    let start = Instant::now();
    while !condition() {
        assert!(start.elapsed() < Duration::from_secs(5), "Condition never became true");
        thread::sleep(Duration::from_millis(1));
    }
}

#[test]
fn stale_waker_then_sync() {
    with_timeout(|| {
        let scheduler   = Arc::new(Scheduler::new());
        let queue       = scheduler.create_job_queue();
        let event       = LevelEvent::new();
        let log         = Arc::new(Mutex::new(vec![]));

        // No pool threads to start with: the first future job is polled by the thread that calls sync()
        scheduler.set_max_threads(0);
        scheduler.despawn_threads_if_overloaded();

        // === Step 1: a future job that is run by a sync() call draining the queue on this thread
        let wait_for_level_1 = event.wait_for(1);
        scheduler.future_desync(&queue, move || wait_for_level_1).detach();

        let signal_event = Arc::clone(&event);
        let signaller = thread::spawn(move || {
            thread::sleep(Duration::from_millis(50));
            signal_event.set_level(1);
        });

        // The queue is pending with no thread to run it, so this drains it here: the future job is polled with a waker for this thread
        scheduler.sync(&queue, || { });
        signaller.join().unwrap();

        // The queue is now empty and idle. The event still knows the waker that this thread polled the future job with.

        // === Step 2: a future job that suspends on a pool thread, with a plain job queued behind it
        scheduler.set_max_threads(1);

        let (resume_job_1, wait_for_resume) = oneshot::channel::<()>();
        let job_1_started                   = Arc::new(AtomicBool::new(false));

        let (job_log, job_started)          = (Arc::clone(&log), Arc::clone(&job_1_started));
        scheduler.future_desync(&queue, move || async move {
            job_log.lock().unwrap().push("job 1 starts");
            job_started.store(true, Ordering::SeqCst);

            wait_for_resume.await.ok();

            // Give anything that is wrongly running at the same time a chance to show up in the middle
            thread::sleep(Duration::from_millis(20));
            job_log.lock().unwrap().push("job 1 finishes");
        }).detach();

        // Wait for the job to start and suspend on the pool thread (the queue is then waiting to be woken)
        wait_until(|| job_1_started.load(Ordering::SeqCst));
        thread::sleep(Duration::from_millis(100));

        let job_log = Arc::clone(&log);
        scheduler.desync(&queue, move || { job_log.lock().unwrap().push("job 2"); });

        // === Step 3: the event source wakes everything it knows about, including the waker left over from step 1
        // This is a spurious wake-up as far as the queue is concerned (job 1 is still waiting for its channel): the queue
        // goes back to idle with job 1 and job 2 still on it
        event.set_level(2);

        // === Step 4: job 1 resumes a little later on, and meanwhile we schedule job 3 with sync()
        let resumer = thread::spawn(move || {
            thread::sleep(Duration::from_millis(200));
            resume_job_1.send(()).ok();
        });

        let job_log = Arc::clone(&log);
        scheduler.sync(&queue, move || { job_log.lock().unwrap().push("job 3"); });

        // Everything scheduled before the sync() call must have finished by the time it returns
        let log_after_sync = log.lock().unwrap().clone();

        // Flush the queue so we can see the whole order
        resumer.join().unwrap();
        scheduler.sync(&queue, || { });
        let final_log = log.lock().unwrap().clone();

        println!("After sync: {:?}", log_after_sync);
        println!("Final:      {:?}", final_log);

        assert!(final_log == vec!["job 1 starts", "job 1 finishes", "job 2", "job 3"], "Jobs ran out of order: {:?}", final_log);
        assert!(log_after_sync == final_log, "sync() returned before the jobs scheduled ahead of it had finished: {:?}", log_after_sync);
    }, 10000);
}

#[test]
fn sync_right_after_immediate_sync() {
    // No unusual wakers here: this races for the moment at the end of an immediate sync() where the queue has been marked
    // idle but the job that was queued while it was running has not been made pending yet
    const ITERATIONS: usize     = 60000;
    const NUM_RACERS: usize     = 3;
    const MAX_SECONDS: u64      = 12;

    with_timeout(|| {
        let scheduler   = Arc::new(Scheduler::new());
        let queue       = scheduler.create_job_queue();

        // The order in which the jobs of the current iteration ran
        let log         = Arc::new(Mutex::new(Vec::<usize>::new()));

        // Set to the iteration number once the desync() call of that iteration has returned
        let go          = Arc::new(AtomicUsize::new(0));

        // Number of racers that have finished the iteration
        let finished    = Arc::new(AtomicUsize::new(0));
        let stop        = Arc::new(AtomicBool::new(false));

        // The racing threads each wait for the desync() call to return and then call sync(), which must run after the desync job
        let racers = (0..NUM_RACERS).into_iter()
            .map(|racer_num| {
                let (scheduler, queue, log)     = (Arc::clone(&scheduler), Arc::clone(&queue), Arc::clone(&log));
                let (go, finished, stop)        = (Arc::clone(&go), Arc::clone(&finished), Arc::clone(&stop));

                thread::spawn(move || {
                    let mut iteration = 1;

                    loop {
                        // Wait for the desync() call of this iteration to return
                        while go.load(Ordering::SeqCst) != iteration {
                            if stop.load(Ordering::SeqCst) { return; }
                            std::hint::spin_loop();
                        }

                        // Vary the time we arrive at
                        for _ in 0..((iteration/7 + racer_num*5)%16) { std::hint::spin_loop(); }

                        // This call starts after the desync() call returned, so its job has to run after the desync job
                        let job_log = Arc::clone(&log);
                        scheduler.sync(&queue, move || { job_log.lock().unwrap().push(racer_num+1); });

                        finished.fetch_add(1, Ordering::SeqCst);
                        iteration += 1;
                    }
                })
            })
            .collect::<Vec<_>>();

        let start           = Instant::now();
        let mut violations  = vec![];
        let mut iterations  = 0;

        for iteration in 1..=ITERATIONS {
            if start.elapsed() > Duration::from_secs(MAX_SECONDS) || violations.len() >= 3 { break; }
            iterations = iteration;

            log.lock().unwrap().clear();
            finished.store(0, Ordering::SeqCst);

            // The queue is empty and idle here, so this runs immediately on this thread
            scheduler.sync(&queue, || {
                // The queue is running this job, so this just adds to the queue
                let job_log = Arc::clone(&log);
                scheduler.desync(&queue, move || { job_log.lock().unwrap().push(0); });

                // Tell the racers that desync() has returned
                go.store(iteration, Ordering::SeqCst);

                // Vary the time we finish at
                for _ in 0..(iteration%7) { std::hint::spin_loop(); }
            });

            // Wait for the racers, then for the queue to empty
            while finished.load(Ordering::SeqCst) != NUM_RACERS { std::hint::spin_loop(); }
            scheduler.sync(&queue, || { });

            let order = log.lock().unwrap().clone();
            assert!(order.len() == NUM_RACERS+1, "Missing jobs: {:?}", order);
            if order[0] != 0 {
                violations.push((iteration, order));
            }
        }

        stop.store(true, Ordering::SeqCst);
        go.store(usize::MAX, Ordering::SeqCst);
        racers.into_iter().for_each(|racer| { racer.join().unwrap(); });

        println!("{} iterations in {:?}, {} violations", iterations, start.elapsed(), violations.len());
        assert!(violations.is_empty(), "A sync() job ran before a desync job that was scheduled before it (iteration, order - 0 is the desync job): {:?}", violations);
    }, 25000);
}
