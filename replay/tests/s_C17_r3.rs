//
// Demonstration for C17: "lowering the maximum followed by despawn_threads_if_overloaded brings the pool down to the
// new maximum and returns", and with a maximum of zero all work is carried by callers.
//
// A pool thread is busy with a job that (once released) schedules more work on the same scheduler. While it is busy the
// maximum is lowered to zero and despawn_threads_if_overloaded() is called from another (non-pool) thread. The call must
// return once the busy job finishes, leaving no pool threads behind, and no pool thread may be created for the work that
// the job scheduled.
//
use desync::scheduler::*;

use std::sync::*;
use std::sync::atomic::{AtomicBool, Ordering};
use std::sync::mpsc;
use std::thread;
use std::time::Duration;

/// Number of pool threads, as shown in the Debug output of the scheduler (one 'B' or 'I' per thread)
fn pool_size(scheduler: &Scheduler) -> usize {
    let debug = format!("{:?}", scheduler);
    let threads = debug.split("Pending queue count").next().unwrap_or("");

    threads.chars().filter(|c| *c == 'B' || *c == 'I').count()
}

fn one_round(round: usize) {
    let scheduler   = Arc::new(Scheduler::new());
    scheduler.set_max_threads(2);

    let queue_a     = scheduler.create_job_queue();
    let queue_b     = scheduler.create_job_queue();

    let (started_tx, started_rx)    = mpsc::channel::<()>();
    let (release_tx, release_rx)    = mpsc::channel::<()>();
    let (job_done_tx, job_done_rx)  = mpsc::channel::<()>();
    let (returned_tx, returned_rx)  = mpsc::channel::<()>();

    let b_ran       = Arc::new(AtomicBool::new(false));

    // Job A: runs on a pool thread, waits to be released, then schedules job B on another queue of the same scheduler
    {
        let job_scheduler   = Arc::clone(&scheduler);
        let job_queue_b     = Arc::clone(&queue_b);
        let b_ran           = Arc::clone(&b_ran);

        scheduler.desync(&queue_a, move || {
            started_tx.send(()).ok();
            release_rx.recv_timeout(Duration::from_secs(20)).ok();

            job_scheduler.desync(&job_queue_b, move || {
                b_ran.store(true, Ordering::SeqCst);
            });

            job_done_tx.send(()).ok();
        });
    }

    // Wait for job A to be running on a pool thread
    started_rx.recv_timeout(Duration::from_secs(10)).expect("Job A never started");
    let before = pool_size(&scheduler);
    assert!(before >= 1 && before <= 2, "round {}: expected 1 or 2 pool threads, found {}", round, before);

    // Lower the maximum to zero, then despawn from a non-pool thread
    scheduler.set_max_threads(0);

    {
        let despawn_scheduler = Arc::clone(&scheduler);
        thread::spawn(move || {
            despawn_scheduler.despawn_threads_if_overloaded();
            returned_tx.send(()).ok();
        });
    }

    // Give the despawn call time to get going (it has to wait for job A, which is still busy), then release job A
    thread::sleep(Duration::from_millis(300));
    release_tx.send(()).ok();

    // Job A must be able to finish, and despawn_threads_if_overloaded must return
    let job_finished = job_done_rx.recv_timeout(Duration::from_secs(5)).is_ok();
    let returned     = returned_rx.recv_timeout(Duration::from_secs(5)).is_ok();

    assert!(returned, "round {}: despawn_threads_if_overloaded() did not return (busy job finished: {})", round, job_finished);
    assert!(job_finished, "round {}: the busy pool job could not finish scheduling its follow-up work while the pool was being despawned", round);

    // The pool is now at the new maximum
    assert!(pool_size(&scheduler) == 0, "round {}: pool has {} threads with a maximum of 0", round, pool_size(&scheduler));

    // Job B was scheduled with a maximum of zero: it is either picked up by the departing thread as it finishes its work, or
    // is carried by this caller. Either way no new pool thread is created for it.
    scheduler.sync(&queue_b, || { });
    assert!(b_ran.load(Ordering::SeqCst), "round {}: job B did not run before a later sync on its queue", round);
    assert!(pool_size(&scheduler) == 0, "round {}: pool grew to {} threads with a maximum of 0", round, pool_size(&scheduler));
}

#[test]
fn despawn_returns_while_busy_thread_schedules_more_work() {
    // Run on a separate thread so that a hang shows up as a failure and not a stuck test
    let (done_tx, done_rx) = mpsc::channel::<thread::Result<()>>();

    thread::spawn(move || {
        let result = std::panic::catch_unwind(|| {
            for round in 0..3 {
                one_round(round);
            }
        });
        done_tx.send(result).ok();
    });

    match done_rx.recv_timeout(Duration::from_secs(25)) {
        Ok(Ok(()))      => { }
        Ok(Err(panic))  => std::panic::resume_unwind(panic),
        Err(_)          => panic!("Timed out"),
    }
}
