//! BOUNDED stand-in (not a proof) for `SchedulerCore::reschedule_queue` when its text is outside Verus's reach, for C03 / C06 / C07: contract
//! `reschedule_hands_parked_or_ready_queue_to_pool` - a queue that was left parked by a polling future (`WaitingForPoll`) and a free queue
//! with work (`Idle`, non-empty) are handed to the pool when they are woken / rescheduled, whether or not the future is ever polled again.
//! Bound: pool sizes 1..=3, the polling future {dropped, kept but never polled again} (6 cases).
use desync::scheduler::*;
use futures::future::BoxFuture;
use futures::task::{self, ArcWake};
use std::future::Future;
use std::pin::Pin;
use std::sync::*;
use std::sync::atomic::{AtomicBool, AtomicUsize, Ordering};
use std::task::{Context, Poll, Waker};
use std::thread;
use std::time::Instant;

struct Nothing;
impl ArcWake for Nothing { fn wake_by_ref(_: &Arc<Self>) {} }

/// pending until `open` is set; keeps the waker it was given. Its FIRST poll (which happens inside the hand-made poll of the returned
/// future, while the queue is Running) frees the pool and waits until every pool thread is dormant and the schedule is empty: the
/// stale schedule entry of the queue is consumed while the queue is Running, so afterwards only a reschedule can bring it back
struct Gate { open: Arc<AtomicBool>, waker: Arc<Mutex<Option<Waker>>>, polls: Arc<AtomicUsize>, first: Option<Box<dyn FnOnce() + Send>> }
impl Future for Gate {
    type Output = ();
    fn poll(mut self: Pin<&mut Self>, cx: &mut Context) -> Poll<()> {
        self.polls.fetch_add(1, Ordering::SeqCst);
        if let Some(f) = self.first.take() { f(); }
        if self.open.load(Ordering::SeqCst) { Poll::Ready(()) } else { *self.waker.lock().unwrap() = Some(cx.waker().clone()); Poll::Pending }
    }
}

fn idle_and_empty(s: &Scheduler, n: usize) -> bool { let d = format!("{:?}", s); d.starts_with(&"I".repeat(n)) && d.contains("Pending queue count: 0") }

fn run_case(pool: usize, drop_future: bool) -> Result<(), String> {
    let sched = Arc::new(Scheduler::new());
    sched.set_max_threads(pool);
    sched.despawn_threads_if_overloaded();
    // every pool thread is busy, so the queue under test stays Pending until its future is polled
    let hold = Arc::new((Mutex::new(false), Condvar::new()));
    let started = Arc::new(AtomicUsize::new(0));
    for _ in 0..pool {
        let q = sched.create_job_queue();
        let (h, st) = (hold.clone(), started.clone());
        sched.desync(&q, move || { st.fetch_add(1, Ordering::SeqCst); let mut g = h.0.lock().unwrap(); while !*g { g = h.1.wait(g).unwrap(); } });
    }
    let t0 = Instant::now();
    while started.load(Ordering::SeqCst) < pool && t0.elapsed() < desync_replay::secs(3) { thread::sleep(desync_replay::ms(2)); }
    let (open, waker, polls, done) = (Arc::new(AtomicBool::new(false)), Arc::new(Mutex::new(None)), Arc::new(AtomicUsize::new(0)), Arc::new(AtomicBool::new(false)));
    let queue = sched.create_job_queue();
    let (o2, w2, p2, d2) = (open.clone(), waker.clone(), polls.clone(), done.clone());
    let (h2, s2) = (hold.clone(), sched.clone());
    let first: Box<dyn FnOnce() + Send> = Box::new(move || {
        { *h2.0.lock().unwrap() = true; h2.1.notify_all(); }
        let t0 = Instant::now();
        while !idle_and_empty(&s2, pool) && t0.elapsed() < desync_replay::secs(3) { thread::sleep(desync_replay::ms(2)); }
    });
    let mut fut: BoxFuture<'static, _> = Box::pin(sched.future_desync(&queue, move || async move { Gate { open: o2, waker: w2, polls: p2, first: Some(first) }.await; d2.store(true, Ordering::SeqCst); }));
    // one poll by hand: it claims the Pending queue, runs the job (which stays pending) and parks the queue as WaitingForPoll
    let nw = task::waker(Arc::new(Nothing));
    let mut cx = Context::from_waker(&nw);
    if fut.as_mut().poll(&mut cx).is_ready() { return Err(format!("pool={}: the operation finished before its gate was opened", pool)); }
    if !format!("{:?}", queue).contains("WaitingForPoll") { return Err(format!("pool={}: expected the queue to be parked for its polling future: {:?}", pool, queue)); }
    if !idle_and_empty(&sched, pool) { return Err(format!("pool={}: the pool did not go dormant with an empty schedule: {:?}", pool, sched)); }
    if drop_future { drop(fut); }
    // the event arrives: the job's waker is the only thing that is told
    open.store(true, Ordering::SeqCst);
    let w = waker.lock().unwrap().take().ok_or_else(|| "the job never registered a waker".to_string())?;
    w.wake();
    let t0 = Instant::now();
    while !done.load(Ordering::SeqCst) && t0.elapsed() < desync_replay::secs(3) { thread::sleep(desync_replay::ms(5)); }
    if !done.load(Ordering::SeqCst) {
        return Err(format!("pool={} future_dropped={}: the woken operation never ran again (polled {} times); queue = {:?}, scheduler = {:?}", pool, drop_future, polls.load(Ordering::SeqCst), queue, sched));
    }
    Ok(())
}

#[test]
fn a_queue_parked_by_a_polling_future_is_handed_to_the_pool_when_woken() {
    let mut failures = vec![];
    for pool in 1..=3usize { for drop_future in [true, false] { if let Err(e) = run_case(pool, drop_future) { println!("REPLAY failing case: {}", e); failures.push(e); } } }
    println!("REPLAY bounded cases=6 failures={:?}", failures);
    assert!(failures.is_empty(), "{:?}", failures);
}
