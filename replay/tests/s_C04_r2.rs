//
// Demonstration for C04 ("sync always returns, with its own result, after running its closure once")
//
// In all of these tests, a future job is waiting on a queue that no pool thread is free to run, so the thread
// that calls `sync` has to run the queue itself. The future job is woken up *while it is being polled* (either
// it wakes itself, in the style of a 'yield' future, or another thread completes it before poll() has returned).
// Once the future has finished, sync must run its closure once and return its value.
//
use desync::scheduler::*;

use futures::future::Future;
use futures::task::{Context, Poll, Waker};

use std::pin::Pin;
use std::thread;
use std::time::Duration;
use std::sync::*;
use std::sync::atomic::{AtomicUsize, Ordering};
use std::sync::mpsc;

const TIMEOUT: Duration = Duration::from_secs(5);

///
/// Runs a test on a separate thread, failing if it does not finish in time
///
fn must_finish<TFn: 'static+Send+FnOnce() -> ()>(what: &str, action: TFn) {
    let (done_send, done_recv) = mpsc::channel();

    thread::spawn(move || {
        action();
        done_send.send(()).ok();
    });

    match done_recv.recv_timeout(TIMEOUT) {
        Ok(())                                      => { }
        Err(mpsc::RecvTimeoutError::Timeout)        => panic!("{}: sync did not return within {:?}", what, TIMEOUT),
        Err(mpsc::RecvTimeoutError::Disconnected)   => panic!("{}: test thread panicked", what)
    }
}

///
/// Future that returns pending once, requesting to be polled again straight away (like `yield_now()` in various executors)
///
struct YieldOnce { yielded: bool }

impl Future for YieldOnce {
    type Output = ();

    fn poll(mut self: Pin<&mut Self>, context: &mut Context) -> Poll<()> {
        if self.yielded {
            Poll::Ready(())
        } else {
            self.yielded = true;
            context.waker().wake_by_ref();
            Poll::Pending
        }
    }
}

///
/// Future that is completed by another thread: that thread is so fast that it has called the waker by the time the first poll returns
///
struct CompletedElsewhere { polled: bool, send_waker: mpsc::Sender<Waker>, woken: mpsc::Receiver<()> }

impl Future for CompletedElsewhere {
    type Output = ();

    fn poll(mut self: Pin<&mut Self>, context: &mut Context) -> Poll<()> {
        if self.polled {
            Poll::Ready(())
        } else {
            self.polled = true;

            // Register the waker with the other thread, which wakes us just before we get around to returning
            self.send_waker.send(context.waker().clone()).unwrap();
            self.woken.recv().unwrap();

            Poll::Pending
        }
    }
}

///
/// Calls sync on a queue, checking that it runs the closure once and returns its value
///
fn checked_sync(scheduler: &Scheduler, queue: &Arc<JobQueue>, value: usize) {
    let run_count   = AtomicUsize::new(0);
    let result      = scheduler.sync(queue, || { run_count.fetch_add(1, Ordering::SeqCst); value });

    assert!(result == value, "sync returned {} instead of {}", result, value);
    assert!(run_count.load(Ordering::SeqCst) == 1, "sync ran its closure {} times", run_count.load(Ordering::SeqCst));
}

#[test]
fn sync_runs_yielding_future_itself_when_there_are_no_pool_threads() {
    must_finish("no pool threads, yielding future", || {
        let scheduler   = Scheduler::new();
        scheduler.set_max_threads(0);

        let queue       = scheduler.create_job_queue();

        // Nothing can run this in the background, so the queue is just left pending
        scheduler.future_desync(&queue, || YieldOnce { yielded: false }).detach();
        assert!(format!("{:?}", queue).contains("State: Pending"));

        // The sync caller drains the queue: the future yields once and is then done
        checked_sync(&scheduler, &queue, 42);
        checked_sync(&scheduler, &queue, 43);
    });
}

#[test]
fn sync_returns_when_future_is_completed_during_its_poll() {
    must_finish("no pool threads, future woken from another thread while polling", || {
        let scheduler   = Scheduler::new();
        scheduler.set_max_threads(0);

        let queue       = scheduler.create_job_queue();

        // Thread that completes the future as soon as it knows how to wake it
        let (send_waker, recv_waker)    = mpsc::channel::<Waker>();
        let (send_woken, recv_woken)    = mpsc::channel();

        thread::spawn(move || {
            let waker = recv_waker.recv().unwrap();
            waker.wake();
            send_woken.send(()).unwrap();
        });

        scheduler.future_desync(&queue, move || CompletedElsewhere { polled: false, send_waker: send_waker, woken: recv_woken }).detach();

        checked_sync(&scheduler, &queue, 42);
    });
}

#[test]
fn sync_from_job_of_other_queue_when_pool_is_busy() {
    must_finish("sync from the only pool thread", || {
        let scheduler   = Arc::new(Scheduler::new());
        scheduler.set_max_threads(1);

        let outer_queue = scheduler.create_job_queue();
        let inner_queue = scheduler.create_job_queue();

        let (started_send, started_recv)    = mpsc::channel();
        let (go_send, go_recv)              = mpsc::channel::<()>();
        let (done_send, done_recv)          = mpsc::channel();

        // The only pool thread runs a job on the outer queue, which syncs with the inner queue
        let job_scheduler   = Arc::clone(&scheduler);
        let job_inner_queue = Arc::clone(&inner_queue);
        scheduler.desync(&outer_queue, move || {
            started_send.send(()).unwrap();
            go_recv.recv().unwrap();

            checked_sync(&job_scheduler, &job_inner_queue, 7);
            done_send.send(()).unwrap();
        });

        // Once the pool thread is occupied, the inner queue can't be run in the background
        started_recv.recv().unwrap();
        scheduler.future_desync(&inner_queue, || YieldOnce { yielded: false }).detach();
        scheduler.desync(&inner_queue, || { });
        go_send.send(()).unwrap();

        // The job on the pool thread has to run the inner queue itself in order to finish
        done_recv.recv_timeout(TIMEOUT).expect("sync from inside a job of another queue did not return");

        // Both queues are usable afterwards
        checked_sync(&scheduler, &inner_queue, 8);
        checked_sync(&scheduler, &outer_queue, 9);
    });
}
