//
// Demonstration for seed C13: "a suspended queue holds later work until resumed, then continues in order"
//
// The queue reaches its suspension point while it is being drained *locally* by the poll() of a later
// `future_desync` future (no pool thread was free to run it at that moment). That leaves the queue in the
// 'waiting for poll' state, owned by that later future. The thread that polled the later future then does not
// poll it again (it is blocked in `sync()` on the same queue, or it has dropped the future). When the resumer is
// used, the queue must be picked up by a pool thread so that the held operations (and the blocked sync call)
// run, in order.
//

use desync::scheduler::*;

use futures::executor;
use futures::prelude::*;
use futures::task;

use std::sync::mpsc::*;
use std::sync::*;
use std::thread;
use std::time::*;

type Log = Arc<Mutex<Vec<&'static str>>>;

fn log_entry(log: &Log, entry: &'static str) {
    log.lock().unwrap().push(entry);
}

fn current_log(log: &Log) -> Vec<&'static str> {
    log.lock().unwrap().clone()
}

///
/// Runs the test body on its own thread and fails if it does not finish in time
///
fn with_timeout<TFn: 'static + Send + FnOnce() -> ()>(name: &'static str, millis: u64, body: TFn) {
    let (done_tx, done_rx) = channel();

    thread::Builder::new()
        .name(name.to_string())
        .spawn(move || {
            body();
            done_tx.send(()).ok();
        })
        .unwrap();

    match done_rx.recv_timeout(Duration::from_millis(millis)) {
        Ok(())                              => {}
        Err(RecvTimeoutError::Timeout)      => panic!("{}: operations held by the suspension never ran after the queue was resumed", name),
        Err(RecvTimeoutError::Disconnected) => panic!("{}: test body panicked", name),
    }
}

///
/// Pool size 0 while the queue is suspended by a local drain, one pool thread available by the time the
/// queue is resumed. The thread that owns the later future is blocked in sync() for the whole suspension.
///
#[test]
fn sync_made_during_suspension_completes_after_resume() {
    with_timeout("sync_made_during_suspension_completes_after_resume", 8000, || {
        let scheduler = Arc::new(Scheduler::new());
        scheduler.set_max_threads(0);
        scheduler.despawn_threads_if_overloaded();

        let queue   = scheduler.create_job_queue();
        let log     = Log::default();

        // One operation before the suspension, one after it
        let log2 = log.clone();
        scheduler.desync(&queue, move || log_entry(&log2, "before"));

        let suspended = scheduler.suspend(&queue);

        let log2        = log.clone();
        let mut later   = scheduler.future_desync(&queue, move || async move { log_entry(&log2, "later-future"); });

        // Poll the later future once. There are no pool threads so this drains the queue on this thread, up to the suspension
        let waker       = task::noop_waker();
        let mut context = task::Context::from_waker(&waker);
        assert!(later.poll_unpin(&mut context).is_pending());

        // The queue is suspended now: everything before the suspension has run, nothing after it
        let resumer = executor::block_on(suspended).unwrap();
        assert!(current_log(&log) == vec!["before"]);

        // The pool gets a thread while the queue is suspended
        scheduler.set_max_threads(1);
        thread::sleep(Duration::from_millis(50));
        assert!(current_log(&log) == vec!["before"]);

        // Resume from another thread after a while
        let resume_log = log.clone();
        thread::spawn(move || {
            thread::sleep(Duration::from_millis(100));
            log_entry(&resume_log, "resume");
            resumer.resume();
        });

        // This thread makes a sync call during the suspension: it must wait, and complete once the queue is resumed
        let log2 = log.clone();
        scheduler.sync(&queue, move || log_entry(&log2, "sync"));

        assert!(current_log(&log) == vec!["before", "resume", "later-future", "sync"], "{:?}", current_log(&log));
        let _ = later;
    });
}

///
/// Same, but the later future is dropped after the poll that found the suspension, and the held operation is an
/// ordinary desync() job
///
#[test]
fn held_operations_run_after_resume_when_later_future_is_dropped() {
    with_timeout("held_operations_run_after_resume_when_later_future_is_dropped", 8000, || {
        let scheduler = Arc::new(Scheduler::new());
        scheduler.set_max_threads(0);
        scheduler.despawn_threads_if_overloaded();

        let queue   = scheduler.create_job_queue();
        let log     = Log::default();

        let log2 = log.clone();
        scheduler.desync(&queue, move || log_entry(&log2, "before"));

        let suspended = scheduler.suspend(&queue);

        // `now_or_never` polls once and drops the future as it's not ready
        let log2    = log.clone();
        let later   = scheduler.future_desync(&queue, move || async move { log_entry(&log2, "later-future"); });
        assert!(later.now_or_never().is_none());

        let resumer = executor::block_on(suspended).unwrap();

        let (held_tx, held_rx)  = channel();
        let log2                = log.clone();
        scheduler.desync(&queue, move || { log_entry(&log2, "held"); held_tx.send(()).ok(); });

        scheduler.set_max_threads(1);
        thread::sleep(Duration::from_millis(50));
        assert!(current_log(&log) == vec!["before"]);

        resumer.resume();

        held_rx.recv_timeout(Duration::from_millis(4000)).expect("Held operation never ran after resume");
        assert!(current_log(&log) == vec!["before", "later-future", "held"], "{:?}", current_log(&log));
    });
}

///
/// The pool has exactly one thread for the whole test. It is busy with another queue when the later future is polled,
/// so that poll drains the suspended queue locally; the thread is idle again (and has emptied the schedule) by the
/// time the suspension point is reached.
///
#[test]
fn sync_made_during_suspension_completes_after_resume_fixed_pool() {
    with_timeout("sync_made_during_suspension_completes_after_resume_fixed_pool", 10000, || {
        let scheduler = Arc::new(Scheduler::new());
        scheduler.set_max_threads(1);
        scheduler.despawn_threads_if_overloaded();

        // Occupy the only pool thread
        let other_queue                     = scheduler.create_job_queue();
        let (blocking_tx, blocking_rx)      = channel();
        let (unblock_tx, unblock_rx)        = channel::<()>();
        scheduler.desync(&other_queue, move || { blocking_tx.send(()).ok(); unblock_rx.recv().ok(); });
        blocking_rx.recv().unwrap();

        let queue   = scheduler.create_job_queue();
        let log     = Log::default();

        // The operation before the suspension takes a while: it finishes once the pool thread has gone idle
        let (first_started_tx, first_started_rx)    = channel();
        let (first_finish_tx, first_finish_rx)      = channel::<()>();
        let log2                                    = log.clone();
        scheduler.desync(&queue, move || { first_started_tx.send(()).ok(); first_finish_rx.recv().ok(); log_entry(&log2, "before"); });

        let suspended = scheduler.suspend(&queue);

        let log2        = log.clone();
        let mut later   = scheduler.future_desync(&queue, move || async move { log_entry(&log2, "later-future"); });

        let helper_scheduler = Arc::clone(&scheduler);
        thread::spawn(move || {
            // Once this queue is being drained by the poll below, let the pool thread finish its other job
            first_started_rx.recv().unwrap();
            unblock_tx.send(()).ok();

            // Wait for the pool thread to go idle with nothing left in the schedule
            for _ in 0..4000 {
                if format!("{:?}", helper_scheduler) == "I Pending queue count: 0" { break; }
                thread::sleep(Duration::from_millis(1));
            }
            assert!(format!("{:?}", helper_scheduler) == "I Pending queue count: 0", "{:?}", helper_scheduler);

            first_finish_tx.send(()).ok();
        });

        // Poll the later future once: the pool thread is busy so the queue is drained here, up to the suspension
        let waker       = task::noop_waker();
        let mut context = task::Context::from_waker(&waker);
        assert!(later.poll_unpin(&mut context).is_pending());

        let resumer = executor::block_on(suspended).unwrap();
        assert!(current_log(&log) == vec!["before"]);

        let resume_log = log.clone();
        thread::spawn(move || {
            thread::sleep(Duration::from_millis(100));
            log_entry(&resume_log, "resume");
            resumer.resume();
        });

        let log2 = log.clone();
        scheduler.sync(&queue, move || log_entry(&log2, "sync"));

        assert!(current_log(&log) == vec!["before", "resume", "later-future", "sync"], "{:?}", current_log(&log));
        let _ = later;
    });
}
