//
// Demonstration for C14 (the safe API is memory-safe under every interleaving).
//
// A `Desync<T>` frees its value from a job that `Drop` queues behind everything else, so a job that was queued earlier
// must never still be executing (with its `&mut T`) at the moment the value is freed.
//
// The scenario needs three things at once:
//
//  * a job on the Desync is running on a scheduler thread (so the queue is 'Running')
//  * a waker that an earlier future on the same Desync was polled with gets invoked again while that job runs (a
//    spurious/late wake-up, which any waker has to tolerate): the queue notes this as 'AwokenWhileRunning'
//  * the last reference to the Desync is dropped *by a thread that is unwinding from a panic* while the queue is in
//    that state
//
// Detection is by canaries only: the protected value's destructor sets an `AtomicBool` and looks at a counter of jobs
// that currently hold the `&mut T`; the job looks at the flag while it runs. Neither ever touches the (possibly freed)
// value itself, so nothing here depends on undefined behaviour being visible.
//
extern crate desync;
extern crate futures;

use desync::Desync;

use futures::prelude::*;
use futures::task::{Context, Poll, Waker};

use std::pin::Pin;
use std::sync::*;
use std::sync::atomic::{AtomicBool, AtomicUsize, Ordering};
use std::thread;
use std::time::{Duration, Instant};

///
/// The protected value: its destructor records that it has been freed, and whether any job was still using it
///
struct Canary {
    freed:              Arc<AtomicBool>,
    users:              Arc<AtomicUsize>,
    freed_while_in_use: Arc<AtomicBool>
}

impl Drop for Canary {
    fn drop(&mut self) {
        if self.users.load(Ordering::SeqCst) != 0 {
            self.freed_while_in_use.store(true, Ordering::SeqCst);
        }
        self.freed.store(true, Ordering::SeqCst);
    }
}

///
/// Future that publishes the waker it was polled with and completes once `finish` is set
///
struct PublishWaker {
    waker:  Arc<Mutex<Option<Waker>>>,
    finish: Arc<AtomicBool>
}

impl Future for PublishWaker {
    type Output = ();

    fn poll(self: Pin<&mut Self>, context: &mut Context) -> Poll<()> {
        if self.finish.load(Ordering::SeqCst) {
            Poll::Ready(())
        } else {
            *self.waker.lock().unwrap() = Some(context.waker().clone());
            Poll::Pending
        }
    }
}

fn wait_until<F: Fn() -> bool>(what: &str, condition: F) {
    let start = Instant::now();
    while !condition() {
        assert!(start.elapsed() < Duration::from_secs(10), "Timed out waiting for {}", what);
        thread::sleep(Duration::from_millis(1));
    }
}

///
/// Runs the scenario once. Returns a description of the violation if one was seen
///
fn scenario(round: usize) -> Option<String> {
    let freed               = Arc::new(AtomicBool::new(false));
    let users               = Arc::new(AtomicUsize::new(0));
    let freed_while_in_use  = Arc::new(AtomicBool::new(false));
    let used_after_free     = Arc::new(AtomicBool::new(false));
    let job_finished        = Arc::new(AtomicBool::new(false));

    let canary = Canary { freed: Arc::clone(&freed), users: Arc::clone(&users), freed_while_in_use: Arc::clone(&freed_while_in_use) };
    let desync = Desync::new(canary);

    // 1: a future that suspends the queue and hands us the waker it was polled with
    let waker       = Arc::new(Mutex::new(None));
    let finish      = Arc::new(AtomicBool::new(false));
    let suspended   = PublishWaker { waker: Arc::clone(&waker), finish: Arc::clone(&finish) };
    desync.future_desync(move |_| async move { suspended.await; }.boxed()).detach();

    wait_until("the future to be polled", || waker.lock().unwrap().is_some());
    let waker: Waker = waker.lock().unwrap().take().unwrap();

    // 2: a job that uses the value for a while (it never dereferences it: it only looks at the canaries)
    {
        let freed           = Arc::clone(&freed);
        let users           = Arc::clone(&users);
        let used_after_free = Arc::clone(&used_after_free);
        let job_finished    = Arc::clone(&job_finished);

        desync.desync(move |_value| {
            users.fetch_add(1, Ordering::SeqCst);
            for _ in 0..150 {
                thread::sleep(Duration::from_millis(1));
                if freed.load(Ordering::SeqCst) { used_after_free.store(true, Ordering::SeqCst); }
            }
            users.fetch_sub(1, Ordering::SeqCst);
            job_finished.store(true, Ordering::SeqCst);
        });
    }

    // 3: let the future finish: a scheduler thread resumes the queue and goes on to the job
    finish.store(true, Ordering::SeqCst);
    waker.wake_by_ref();
    wait_until("the job to start", || users.load(Ordering::SeqCst) == 1);

    // 4: a late wake-up through the same waker, while the job is running
    waker.wake_by_ref();

    // 5: the Desync goes out of scope in a thread that's unwinding
    let unwinding = thread::spawn(move || {
        let _owned = desync;
        panic!("(expected panic: seed_demo drops a Desync while unwinding)");
    });
    unwinding.join().err().expect("Thread should have panicked");

    // The value has been freed at this point, unless the queue panicked (which it should not have)
    let was_freed       = freed.load(Ordering::SeqCst);
    let finished_first  = job_finished.load(Ordering::SeqCst);

    // Let the job finish before looking at what it saw
    wait_until("the job to finish", || job_finished.load(Ordering::SeqCst));

    if freed_while_in_use.load(Ordering::SeqCst) {
        Some(format!("round {}: the protected value was freed while a job queued before the drop was still using it", round))
    } else if used_after_free.load(Ordering::SeqCst) {
        Some(format!("round {}: a job was still running with its &mut T after the protected value had been freed", round))
    } else if !was_freed {
        Some(format!("round {}: the protected value was never freed", round))
    } else if !finished_first {
        Some(format!("round {}: drop returned before the job queued ahead of it had finished", round))
    } else {
        None
    }
}

#[test]
fn value_is_not_freed_while_an_earlier_job_is_still_using_it() {
    for round in 0..5 {
        if let Some(violation) = scenario(round) {
            panic!("{}", violation);
        }
    }
}
