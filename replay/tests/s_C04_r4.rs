//
// Demonstration for C04: `sync` always returns, with its own closure's value, after the operations scheduled
// ahead of it have completed - including when those operations are futures and no pool thread is free, so that
// the calling thread has to run the queue (and wait for the futures) itself.
//
// The operations ahead of the sync are two futures:
//
//  * the first one yields once: it wakes its own waker from inside `poll`, returns `Pending`, and is ready the
//    next time it is polled (like `yield_now()` in most async runtimes).
//  * the second one waits for a oneshot channel that another thread completes ~150ms later.
//
// The scheduler has no pool threads, so the thread calling `sync` runs both futures itself: it is that thread
// that receives the wake-up of the first future (while it is running rather than waiting), and it is that thread
// that later has to wait for the second future.
//

extern crate desync;
extern crate futures;

use desync::scheduler::*;

use futures::channel::oneshot;
use futures::prelude::*;
use futures::task::{Context, Poll};

use std::pin::Pin;
use std::sync::*;
use std::sync::mpsc;
use std::thread;
use std::time::{Duration, Instant};

///
/// Future that wakes itself up and returns pending the first time it's polled, and is ready the second time
///
struct YieldOnce {
    yielded: bool
}

impl Future for YieldOnce {
    type Output = ();

    fn poll(mut self: Pin<&mut Self>, context: &mut Context) -> Poll<()> {
        if self.yielded {
            Poll::Ready(())
        } else {
            self.yielded = true;
            context.waker().wake_by_ref();
            Poll::Pending
        }
    }
}

///
/// Runs an action on another thread, failing if it panics or does not finish within a few seconds
///
fn within_timeout<T: 'static+Send, TFn: 'static+Send+FnOnce() -> T>(what: &str, action: TFn) -> T {
    let (done, recv_done) = mpsc::channel();

    thread::spawn(move || {
        let result = action();
        done.send(result).ok();
    });

    match recv_done.recv_timeout(Duration::from_secs(10)) {
        Ok(result)                                  => result,
        Err(mpsc::RecvTimeoutError::Timeout)        => panic!("{}: timed out", what),
        Err(mpsc::RecvTimeoutError::Disconnected)   => panic!("{}: the thread calling sync panicked", what)
    }
}

///
/// Creates a scheduler with no pool threads
///
fn scheduler_without_threads() -> Arc<Scheduler> {
    let scheduler = Arc::new(Scheduler::new());
    scheduler.set_max_threads(0);
    scheduler.despawn_threads_if_overloaded();

    scheduler
}

///
/// Queues the yielding future followed by the future that's completed from another thread after a delay.
/// Both record that they finished in `log`.
///
fn queue_futures(scheduler: &Scheduler, queue: &Arc<JobQueue>, log: &Arc<Mutex<Vec<&'static str>>>) -> oneshot::Sender<()> {
    let (complete, wait_for_complete) = oneshot::channel::<()>();

    let yield_log = Arc::clone(log);
    scheduler.future_desync(queue, move || async move {
        YieldOnce { yielded: false }.await;
        yield_log.lock().unwrap().push("yielded");
    }).detach();

    let wait_log = Arc::clone(log);
    scheduler.future_desync(queue, move || async move {
        wait_for_complete.await.ok();
        wait_log.lock().unwrap().push("waited");
    }).detach();

    complete
}

#[test]
fn sync_drains_a_yielding_future_then_a_waiting_future() {
    // The queue is pending (nothing can run it), so the sync drains it on the calling thread
    let (result, log) = within_timeout("sync on a pending queue", || {
        let scheduler   = scheduler_without_threads();
        let queue       = scheduler.create_job_queue();
        let log         = Arc::new(Mutex::new(vec![]));

        let complete    = queue_futures(&scheduler, &queue, &log);

        thread::spawn(move || {
            thread::sleep(Duration::from_millis(150));
            complete.send(()).ok();
        });

        let sync_log    = Arc::clone(&log);
        let result      = scheduler.sync(&queue, move || { sync_log.lock().unwrap().push("sync"); 42 });

        // The queue is usable afterwards
        assert!(scheduler.sync(&queue, || 43) == 43);

        let log = log.lock().unwrap().clone();
        (result, log)
    });

    assert!(result == 42);
    assert!(log == vec!["yielded", "waited", "sync"], "{:?}", log);
}

#[test]
fn blocked_sync_takes_over_a_yielding_future_then_a_waiting_future() {
    // The queue is running a long sync on another thread when the futures and then our sync are queued. When
    // the long sync finishes there's no pool thread to continue the queue, so the blocked caller runs it itself.
    let (first, second, log) = within_timeout("sync blocked behind another sync", || {
        let scheduler   = scheduler_without_threads();
        let queue       = scheduler.create_job_queue();
        let log         = Arc::new(Mutex::new(vec![]));

        // T1: long sync
        let (t1_started, t1_running)    = mpsc::channel();
        let (release_t1, t1_released)   = mpsc::channel::<()>();
        let t1_scheduler                = Arc::clone(&scheduler);
        let t1_queue                    = Arc::clone(&queue);
        let t1 = thread::spawn(move || {
            t1_scheduler.sync(&t1_queue, move || {
                t1_started.send(()).ok();
                t1_released.recv().ok();
                1
            })
        });
        t1_running.recv().unwrap();

        // The futures go on the queue behind T1's sync
        let complete = queue_futures(&scheduler, &queue, &log);

        // T2: blocked sync
        let t2_scheduler    = Arc::clone(&scheduler);
        let t2_queue        = Arc::clone(&queue);
        let t2_log          = Arc::clone(&log);
        let t2 = thread::spawn(move || {
            t2_scheduler.sync(&t2_queue, move || { t2_log.lock().unwrap().push("sync"); 2 })
        });

        // Wait for T2's job to be on the queue, and then a little longer so that it's really blocked
        let start = Instant::now();
        while !format!("{:?}", queue).contains("Pending: 3") {
            assert!(start.elapsed() < Duration::from_secs(5), "T2 never queued its job: {:?}", queue);
            thread::sleep(Duration::from_millis(1));
        }
        thread::sleep(Duration::from_millis(50));

        // Let T1 finish, and complete the second future a while later
        release_t1.send(()).ok();
        thread::sleep(Duration::from_millis(150));
        complete.send(()).ok();

        let first   = t1.join().expect("T1 panicked");
        let second  = t2.join().expect("T2 panicked");

        // The queue is usable afterwards
        assert!(scheduler.sync(&queue, || 43) == 43);

        let log = log.lock().unwrap().clone();
        (first, second, log)
    });

    assert!(first == 1);
    assert!(second == 2);
    assert!(log == vec!["yielded", "waited", "sync"], "{:?}", log);
}
