//
// Demonstration for C09: "a Busy try_sync leaves the queue undisturbed"
//
// Both tests only use the public API. They pass on the unmodified library and fail (after an internal timeout)
// when a `try_sync` call that returns `Busy` changes the state of the queue it looked at.
//

use desync::scheduler::*;

use futures::future::Future;
use futures::task::{Context, Poll, Waker};

use std::pin::Pin;
use std::sync::atomic::{AtomicBool, AtomicUsize, Ordering};
use std::sync::mpsc;
use std::sync::{Arc, Mutex};
use std::thread;
use std::time::{Duration, Instant};

///
/// Runs `action` on its own thread and panics if it stops making progress: `progress` must change at least once every
/// `stall` (so a slow machine is fine, a stuck queue is not). `gave_up` is set to tell any helper threads to stop.
///
fn with_watchdog<TFn: 'static + Send + FnOnce() -> ()>(what: &str, stall: Duration, progress: Arc<AtomicUsize>, gave_up: Arc<AtomicBool>, action: TFn) {
    let (done_tx, done_rx) = mpsc::channel();

    thread::Builder::new()
        .name(format!("{} worker", what))
        .spawn(move || { action(); done_tx.send(()).ok(); })
        .unwrap();

    let mut last_progress = progress.load(Ordering::SeqCst);

    loop {
        match done_rx.recv_timeout(stall) {
            Ok(())                                      => { return; }
            Err(mpsc::RecvTimeoutError::Disconnected)   => { gave_up.store(true, Ordering::SeqCst); panic!("{}: worker thread panicked", what); }
            Err(mpsc::RecvTimeoutError::Timeout)        => {
                let now_progress = progress.load(Ordering::SeqCst);

                if now_progress == last_progress {
                    gave_up.store(true, Ordering::SeqCst);
                    panic!("{}: queue stopped making progress (nothing completed for {:?}, {} steps done)", what, stall, now_progress);
                }

                last_progress = now_progress;
            }
        }
    }
}

///
/// Ordinary use only: one thread performs `sync` calls whose closure also queues a `desync` job on the same
/// queue, while a few other threads poll the queue with `try_sync`. Whatever the `try_sync` calls return,
/// every queued job must still run and the `sync` calls must still return.
///
#[test]
fn busy_try_sync_does_not_strand_queued_jobs() {
    const ROUNDS: usize         = 12;
    const SYNCS_PER_ROUND: usize = 2_500;
    const POLLERS: usize        = 3;

    let gave_up         = Arc::new(AtomicBool::new(false));
    let worker_gave_up  = Arc::clone(&gave_up);
    let progress        = Arc::new(AtomicUsize::new(0));
    let worker_progress = Arc::clone(&progress);

    with_watchdog("stress", Duration::from_secs(4), progress, Arc::clone(&gave_up), move || {
        let gave_up     = worker_gave_up;
        let progress    = worker_progress;

        for _round in 0..ROUNDS {
            let scheduler   = Arc::new(Scheduler::new());
            scheduler.set_max_threads(2);

            let queue       = scheduler.create_job_queue();
            let stop        = Arc::new(AtomicBool::new(false));
            let background  = Arc::new(AtomicUsize::new(0));
            let busy        = Arc::new(AtomicUsize::new(0));

            // Threads that keep asking 'is the queue free right now?'
            let pollers = (0..POLLERS).map(|_| {
                let scheduler   = Arc::clone(&scheduler);
                let queue       = Arc::clone(&queue);
                let stop        = Arc::clone(&stop);
                let gave_up     = Arc::clone(&gave_up);
                let busy        = Arc::clone(&busy);

                thread::spawn(move || {
                    while !stop.load(Ordering::Relaxed) && !gave_up.load(Ordering::Relaxed) {
                        if scheduler.try_sync(&queue, || { }).is_err() {
                            busy.fetch_add(1, Ordering::Relaxed);
                        }
                    }
                })
            }).collect::<Vec<_>>();

            // The foreground: a sync that leaves a background job behind it
            for _ in 0..SYNCS_PER_ROUND {
                let inner_scheduler = Arc::clone(&scheduler);
                let inner_queue     = Arc::clone(&queue);
                let background      = Arc::clone(&background);

                scheduler.sync(&queue, move || {
                    inner_scheduler.desync(&inner_queue, move || { background.fetch_add(1, Ordering::Relaxed); });
                });

                progress.fetch_add(1, Ordering::Relaxed);
                if gave_up.load(Ordering::Relaxed) { return; }
            }

            // Everything that was queued must have run by the time a final sync returns
            scheduler.sync(&queue, || { });
            assert_eq!(background.load(Ordering::SeqCst), SYNCS_PER_ROUND);

            stop.store(true, Ordering::SeqCst);
            pollers.into_iter().for_each(|poller| { poller.join().unwrap(); });

            // Nothing queued, nothing in progress (once the pool thread has let go of the queue): try_sync must succeed
            wait_for("the queue to go idle", || format!("{:?}", queue).contains("Idle"));
            assert_eq!(scheduler.try_sync(&queue, || 42).ok(), Some(42), "{:?}", queue);
        }
    });
}

///
/// A future that hands out the waker it was last polled with and completes when `ready` is set
///
struct Gate {
    ready:  Arc<AtomicBool>,
    waker:  Arc<Mutex<Option<Waker>>>,
    polls:  Arc<AtomicUsize>,
}

impl Future for Gate {
    type Output = ();

    fn poll(self: Pin<&mut Self>, context: &mut Context) -> Poll<()> {
        *self.waker.lock().unwrap() = Some(context.waker().clone());
        self.polls.fetch_add(1, Ordering::SeqCst);

        if self.ready.load(Ordering::SeqCst) { Poll::Ready(()) } else { Poll::Pending }
    }
}

fn wait_for<TFn: Fn() -> bool>(what: &str, condition: TFn) {
    let start = Instant::now();
    while !condition() {
        assert!(start.elapsed() < Duration::from_secs(5), "timed out waiting for {}", what);
        thread::sleep(Duration::from_millis(2));
    }
}

///
/// The same thing without relying on the timing of threads: a queue is parked in the 'idle, but with a job still
/// on it' state by a late (spurious) wake-up from a waker that was handed out earlier, `try_sync` is called (it must
/// say Busy, the job on the queue has not finished), and then the future the queue is waiting for completes.
///
#[test]
fn busy_try_sync_leaves_woken_queue_alone() {
    let gave_up     = Arc::new(AtomicBool::new(false));
    let progress    = Arc::new(AtomicUsize::new(0));

    with_watchdog("spurious wake", Duration::from_secs(6), progress, gave_up, || {
        let scheduler   = Scheduler::new();
        let queue       = scheduler.create_job_queue();

        // 1: with no pool threads, a sync() drains the queue on this thread, which polls the first future with
        // a waker that belongs to this thread. The future finishes straight away but keeps the waker.
        scheduler.set_max_threads(0);

        let first_waker = Arc::new(Mutex::new(None));
        let first_gate  = Gate { ready: Arc::new(AtomicBool::new(true)), waker: Arc::clone(&first_waker), polls: Arc::new(AtomicUsize::new(0)) };

        let first_done  = scheduler.future_desync(&queue, move || first_gate);
        scheduler.sync(&queue, || { });
        assert!(futures::executor::block_on(first_done).is_ok());

        let first_waker: Waker = first_waker.lock().unwrap().take().expect("first future was polled");

        // 2: with one pool thread, a second future runs in the background and suspends the queue
        scheduler.set_max_threads(1);

        let ready           = Arc::new(AtomicBool::new(false));
        let second_waker    = Arc::new(Mutex::new(None));
        let polls           = Arc::new(AtomicUsize::new(0));
        let second_gate     = Gate { ready: Arc::clone(&ready), waker: Arc::clone(&second_waker), polls: Arc::clone(&polls) };

        let second_done     = scheduler.future_desync(&queue, move || second_gate);
        let after_ran       = Arc::new(AtomicBool::new(false));
        let after_ran_job   = Arc::clone(&after_ran);
        scheduler.desync(&queue, move || { after_ran_job.store(true, Ordering::SeqCst); });

        wait_for("the second future to be polled", || polls.load(Ordering::SeqCst) >= 1);
        wait_for("the queue to suspend", || format!("{:?}", queue).contains("WaitingForWake"));

        // 3: a late wake-up from the first waker (wakers may be woken at any time)
        first_waker.wake();

        // 4: the queue still has the unfinished future on it, so try_sync must not run anything...
        let mut ran = false;
        let outcome = scheduler.try_sync(&queue, || { ran = true; });
        assert!(outcome.is_err(), "try_sync ran ahead of a queued job: {:?}", queue);
        assert!(!ran);

        // ...and must not have disturbed it either: completing the future lets everything that was queued finish
        ready.store(true, Ordering::SeqCst);
        let waker = second_waker.lock().unwrap().take().expect("second future was polled");
        waker.wake();

        assert!(futures::executor::block_on(second_done).is_ok());
        scheduler.sync(&queue, || { });
        assert!(after_ran.load(Ordering::SeqCst));

        // The queue is now empty and idle: try_sync works
        wait_for("the queue to go idle", || format!("{:?}", queue).contains("Idle"));
        assert_eq!(scheduler.try_sync(&queue, || 42).ok(), Some(42), "{:?}", queue);
    });
}
