//! BOUNDED stand-in (not a proof) for the part of `SchedulerCore::reschedule_queue` that Verus cannot reach (the iterator-adapter
//! statements that notify blocked `sync` callers, rewrite R13): every `sync` caller blocked on a queue must be notified at EVERY
//! hand-back of the queue until it has run, so that with no pool thread free the waiters carry the queue themselves.
//! Bound: waiters k in 1..=4, pool size 0 and a saturated pool of 1.
use desync::scheduler::*;
use std::sync::*;
use std::sync::atomic::{AtomicUsize, Ordering};
use std::thread;
use std::time::{Duration, Instant};

fn run_case(pool: usize, k: usize) -> Result<(), String> {
    let sched = Arc::new(Scheduler::new());
    sched.set_max_threads(pool);
    sched.despawn_threads_if_overloaded();
    // saturate the pool with jobs on other queues that stay blocked until the end
    let gate = Arc::new((Mutex::new(false), Condvar::new()));
    let mut other = vec![];
    for _ in 0..pool {
        let q = sched.create_job_queue();
        let gate = gate.clone();
        sched.desync(&q, move || { let mut g = gate.0.lock().unwrap(); while !*g { g = gate.1.wait(g).unwrap(); } });
        other.push(q);
    }
    thread::sleep(desync_replay::ms(50));

    let queue = sched.create_job_queue();
    let hold = Arc::new((Mutex::new(false), Condvar::new()));
    let started = Arc::new(AtomicUsize::new(0));
    let done = Arc::new(AtomicUsize::new(0));
    // the runner holds the queue inside an immediate sync
    let runner = { let (s, q, h, st) = (sched.clone(), queue.clone(), hold.clone(), started.clone()); thread::spawn(move || {
        s.sync(&q, move || { st.fetch_add(1, Ordering::SeqCst); let mut g = h.0.lock().unwrap(); while !*g { g = h.1.wait(g).unwrap(); } });
    }) };
    while started.load(Ordering::SeqCst) == 0 { thread::sleep(desync_replay::ms(5)); }
    // k callers block behind it
    let mut waiters = vec![];
    for i in 0..k {
        let (s, q, d) = (sched.clone(), queue.clone(), done.clone());
        waiters.push(thread::spawn(move || { let v = s.sync(&q, move || { thread::sleep(desync_replay::ms(20)); i }); assert_eq!(v, i); d.fetch_add(1, Ordering::SeqCst); }));
        thread::sleep(desync_replay::ms(30));
    }
    thread::sleep(desync_replay::ms(100));
    { *hold.0.lock().unwrap() = true; hold.1.notify_all(); }
    runner.join().unwrap();
    let t0 = Instant::now();
    while done.load(Ordering::SeqCst) < k && t0.elapsed() < desync_replay::secs(4) { thread::sleep(desync_replay::ms(10)); }
    let got = done.load(Ordering::SeqCst);
    { *gate.0.lock().unwrap() = true; gate.1.notify_all(); }
    if got < k { return Err(format!("pool={} waiters={}: only {} of {} blocked sync callers returned; queue is {:?}", pool, k, got, k, queue)); }
    for w in waiters { w.join().map_err(|_| "waiter panicked".to_string())?; }
    Ok(())
}

#[test]
fn blocked_sync_callers_are_notified_at_every_hand_back() {
    let mut failures = vec![];
    for pool in 0..=1 { for k in 1..=4 { if let Err(e) = run_case(pool, k) { println!("REPLAY failing case: {}", e); failures.push(e); } } }
    println!("REPLAY bounded cases=8 failures={:?}", failures);
    assert!(failures.is_empty(), "{:?}", failures);
}
