//
// Demonstration for C14: the value protected by a `Desync` must never be freed while a job that was
// scheduled on it is still using it.
//
// Dropping a `Desync` queues a final synchronous job that frees the protected value, and waits for it:
// that job has to run after every job that was scheduled before it has finished. Here a long-running
// `desync` job is in progress on a pool thread when the `Desync` is dropped from another thread, and while
// the dropping thread is blocked waiting, a (perfectly legal) late wake-up arrives for the queue from a
// waker that an earlier, already completed, future job had been polled with.
//
// Nothing in this test relies on undefined behaviour being observable: the payload's `Drop` sets a shared
// flag, and the long-running job only looks at that flag (it never touches the payload after its sleep).
//
extern crate desync;
extern crate futures;

use desync::Desync;

use futures::prelude::*;
use futures::future;
use futures::task::{Poll, Waker};

use std::sync::*;
use std::sync::atomic::{AtomicBool, Ordering};
use std::sync::mpsc;
use std::thread;
use std::time::{Duration, Instant};

struct Payload {
    freed: Arc<AtomicBool>,
    value: u32
}

impl Drop for Payload {
    fn drop(&mut self) {
        self.freed.store(true, Ordering::SeqCst);
    }
}

fn wait_until<F: Fn() -> bool>(what: &str, condition: F) {
    let start = Instant::now();
    while !condition() {
        if start.elapsed() > Duration::from_secs(10) {
            panic!("Timed out waiting for: {}", what);
        }
        thread::sleep(Duration::from_millis(1));
    }
}

#[test]
fn value_is_not_freed_while_an_earlier_job_is_still_running() {
    for _iteration in 0..3 {
        let freed       = Arc::new(AtomicBool::new(false));
        let desync      = Desync::new(Payload { freed: Arc::clone(&freed), value: 0 });

        // 1: a future job that finishes straight away, but leaves us a clone of the waker that the queue polled it with
        let waker_slot  = Arc::new(Mutex::new(None::<Waker>));
        let store_waker = Arc::clone(&waker_slot);
        desync.future_desync(move |payload| {
            payload.value += 1;
            future::poll_fn(move |context| {
                *store_waker.lock().unwrap() = Some(context.waker().clone());
                Poll::Ready(())
            }).boxed()
        }).detach();

        wait_until("the future job to be polled by the scheduler", || waker_slot.lock().unwrap().is_some());
        let queue_waker = waker_slot.lock().unwrap().take().unwrap();

        // 2: a long-running job that uses the payload. It must be over before the payload can be freed.
        let started         = Arc::new(AtomicBool::new(false));
        let finished        = Arc::new(AtomicBool::new(false));
        let freed_too_early = Arc::new(AtomicBool::new(false));

        let (job_started, job_finished, job_freed, job_too_early) = (Arc::clone(&started), Arc::clone(&finished), Arc::clone(&freed), Arc::clone(&freed_too_early));
        desync.desync(move |payload| {
            payload.value += 1;
            job_started.store(true, Ordering::SeqCst);

            // Still 'using' the payload for a while (we hold the &mut, but only look at the canary so that nothing here is UB even when things go wrong)
            let start = Instant::now();
            while start.elapsed() < Duration::from_millis(400) {
                if job_freed.load(Ordering::SeqCst) {
                    job_too_early.store(true, Ordering::SeqCst);
                    break;
                }
                thread::sleep(Duration::from_millis(5));
            }

            job_finished.store(true, Ordering::SeqCst);
        });

        wait_until("the long-running job to start", || started.load(Ordering::SeqCst));

        // 3: drop the Desync on another thread: this blocks until the long-running job is done, then frees the payload
        let (dropped_send, dropped_recv) = mpsc::channel();
        let dropper = thread::spawn(move || {
            drop(desync);
            dropped_send.send(()).ok();
        });

        // 4: late wake-ups for the queue, while the job is running and the dropping thread is blocked
        thread::sleep(Duration::from_millis(50));
        while !finished.load(Ordering::SeqCst) && !freed.load(Ordering::SeqCst) {
            queue_waker.wake_by_ref();
            thread::sleep(Duration::from_millis(10));
        }

        wait_until("the long-running job to finish", || finished.load(Ordering::SeqCst));

        assert!(!freed_too_early.load(Ordering::SeqCst), "The protected value was freed while a job scheduled before the drop was still running with a reference to it");

        dropped_recv.recv_timeout(Duration::from_secs(10)).expect("Desync was never dropped");
        dropper.join().expect("Dropping thread panicked");
        assert!(freed.load(Ordering::SeqCst), "Payload was never freed");
    }
}
