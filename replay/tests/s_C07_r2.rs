//
// Demonstration for C07: a future_desync/after future resolves (once, to Ok of its operation's value) and the task
// awaiting it is always woken.
//
// Both tests use wakers that do slightly more than set a flag when they are woken:
//
//  * `owner_that_polls_under_its_own_lock`: the future lives inside a mutex-protected 'owner' object. The owner
//    polls the future with its state locked, and its waker locks the same state to mark it as needing a poll.
//    The operation finishes just as the owner is about to poll again.
//
//  * `run_on_wake_executor`: a minimal executor that runs the task straight away on whichever thread wakes it
//    (so the future is polled from inside the call to wake()).
//
// In both cases the future must still resolve to Ok(42), which requires that the thread signalling the result
// is not holding on to anything the future needs at the point where it calls the waker.
//

extern crate desync;
extern crate futures;

use desync::scheduler::*;

use futures::prelude::*;
use futures::future::BoxFuture;
use futures::task;
use futures::task::{ArcWake, Poll};
use futures::channel::oneshot;

use std::thread;
use std::time::{Duration, Instant};
use std::sync::*;
use std::sync::mpsc;
use std::sync::atomic::{AtomicBool, Ordering};

type TestFuture = BoxFuture<'static, Result<usize, oneshot::Canceled>>;

///
/// Waits (up to a timeout) for a condition to become true
///
fn wait_for<F: Fn() -> bool>(cond: F, timeout: Duration) -> bool {
    let start = Instant::now();
    while !cond() {
        if start.elapsed() > timeout { return false; }
        thread::sleep(Duration::from_micros(200));
    }
    true
}

///
/// Runs an action on its own thread, returning None if it does not finish in time (the thread is left behind in that case)
///
fn with_timeout<R: 'static+Send, F: 'static+Send+FnOnce() -> R>(action: F, timeout: Duration) -> Option<R> {
    let (tx, rx) = mpsc::channel();

    thread::Builder::new()
        .name("seed_demo action".to_string())
        .spawn(move || { tx.send(action()).ok(); })
        .unwrap();

    rx.recv_timeout(timeout).ok()
}

///
/// The two ways of creating the future we're testing: both start an operation on a pool thread that sets `started`, waits
/// for `release` and produces 42
///
#[derive(Clone, Copy, Debug)]
enum Via { FutureDesync, After }

fn start_operation(via: Via, scheduler: &Scheduler, queue: &Arc<JobQueue>, started: &Arc<AtomicBool>, release: &Arc<AtomicBool>) -> TestFuture {
    let (started, release) = (Arc::clone(started), Arc::clone(release));

    match via {
        Via::FutureDesync => {
            scheduler.future_desync(queue, move || async move {
                started.store(true, Ordering::SeqCst);
                while !release.load(Ordering::SeqCst) { thread::sleep(Duration::from_micros(100)); }
                42usize
            }).boxed()
        }

        Via::After => {
            scheduler.after(queue, future::ready(40usize), move |val| {
                started.store(true, Ordering::SeqCst);
                while !release.load(Ordering::SeqCst) { thread::sleep(Duration::from_micros(100)); }
                val + 2
            }).boxed()
        }
    }
}

// ------------------------------------------------------------------------------------------------------------------------

///
/// An object that owns a future and polls it with its own state locked. Waking it marks the state as needing a poll.
///
struct Owner {
    state:      Mutex<OwnerState>,
    in_wake:    AtomicBool,
}

struct OwnerState {
    future:     Option<TestFuture>,
    needs_poll: bool,
    value:      Option<Result<usize, oneshot::Canceled>>
}

impl ArcWake for Owner {
    fn wake_by_ref(arc_self: &Arc<Self>) {
        // (Flag used by the test to know that the waker is being called)
        arc_self.in_wake.store(true, Ordering::SeqCst);

        // Mark the future as needing to be polled
        arc_self.state.lock().unwrap().needs_poll = true;
    }
}

impl Owner {
    ///
    /// Polls the future with the state locked
    ///
    fn poll_locked(arc_self: &Arc<Self>, state: &mut OwnerState) {
        let waker       = task::waker(Arc::clone(arc_self));
        let mut context = task::Context::from_waker(&waker);

        state.needs_poll = false;
        if let Some(mut future) = state.future.take() {
            match future.poll_unpin(&mut context) {
                Poll::Ready(value)  => { state.value = Some(value); }
                Poll::Pending       => { state.future = Some(future); }
            }
        }
    }
}

fn owner_scenario(via: Via) -> Result<(), String> {
    let scheduler   = Scheduler::new();
    scheduler.set_max_threads(2);

    let queue       = scheduler.create_job_queue();
    let started     = Arc::new(AtomicBool::new(false));
    let release     = Arc::new(AtomicBool::new(false));
    let future      = start_operation(via, &scheduler, &queue, &started, &release);

    let owner       = Arc::new(Owner {
        state:      Mutex::new(OwnerState { future: Some(future), needs_poll: true, value: None }),
        in_wake:    AtomicBool::new(false)
    });

    // The operation starts running on a pool thread
    if !wait_for(|| started.load(Ordering::SeqCst), Duration::from_secs(5)) { return Err(format!("{:?}: operation never started", via)); }

    // First poll: the operation is running, so this leaves the owner's waker with the future
    {
        let mut state = owner.state.lock().unwrap();
        Owner::poll_locked(&owner, &mut state);
        if state.value.is_some() { return Err(format!("{:?}: future resolved before its operation finished", via)); }
    }

    // The owner locks its state in order to poll again (say it was woken up for some other reason), and meanwhile the operation finishes...
    let poll_again_owner    = Arc::clone(&owner);
    let poll_again          = with_timeout(move || {
        let owner       = poll_again_owner;
        let mut state   = owner.state.lock().unwrap();

        release.store(true, Ordering::SeqCst);

        // ... getting as far as waking the owner up (which has to wait as we've got the state locked)
        if !wait_for(|| owner.in_wake.load(Ordering::SeqCst), Duration::from_secs(5)) { return Err("the waker was never called after the operation finished".to_string()); }
        thread::sleep(Duration::from_millis(20));

        // The poll picks up the value
        Owner::poll_locked(&owner, &mut state);
        Ok(state.value.take())
    }, Duration::from_secs(4));

    match poll_again {
        None                    => Err(format!("{:?}: deadlock: the future could not be polled while the thread that finished the operation was calling the waker (queue is {:?})", via, queue)),
        Some(Err(msg))          => Err(format!("{:?}: {}", via, msg)),
        Some(Ok(Some(Ok(42))))  => Ok(()),
        Some(Ok(other))         => Err(format!("{:?}: expected Ok(42) from the poll after the operation finished, got {:?}", via, other))
    }
}

#[test]
fn owner_that_polls_under_its_own_lock() {
    for via in [Via::FutureDesync, Via::After].iter() {
        let result = owner_scenario(*via);
        assert!(result.is_ok(), "{}", result.unwrap_err());
    }
}

// ------------------------------------------------------------------------------------------------------------------------

///
/// A task for a minimal executor that runs the task immediately on the thread that wakes it
///
struct RunOnWake {
    future: Mutex<Option<TestFuture>>,
    value:  Mutex<Option<Result<usize, oneshot::Canceled>>>
}

impl RunOnWake {
    fn run(arc_self: &Arc<Self>) {
        let waker       = task::waker(Arc::clone(arc_self));
        let mut context = task::Context::from_waker(&waker);
        let mut slot    = arc_self.future.lock().unwrap();

        if let Some(mut future) = slot.take() {
            match future.poll_unpin(&mut context) {
                Poll::Ready(value)  => { *arc_self.value.lock().unwrap() = Some(value); }
                Poll::Pending       => { *slot = Some(future); }
            }
        }
    }
}

impl ArcWake for RunOnWake {
    fn wake_by_ref(arc_self: &Arc<Self>) {
        RunOnWake::run(arc_self);
    }
}

fn run_on_wake_scenario(via: Via) -> Result<(), String> {
    let scheduler   = Scheduler::new();
    scheduler.set_max_threads(2);

    let queue       = scheduler.create_job_queue();
    let started     = Arc::new(AtomicBool::new(false));
    let release     = Arc::new(AtomicBool::new(false));
    let future      = start_operation(via, &scheduler, &queue, &started, &release);

    let task        = Arc::new(RunOnWake { future: Mutex::new(Some(future)), value: Mutex::new(None) });

    if !wait_for(|| started.load(Ordering::SeqCst), Duration::from_secs(5)) { return Err(format!("{:?}: operation never started", via)); }

    // 'Spawn' the task: the first poll leaves the waker with the future as the operation is still running
    RunOnWake::run(&task);
    if task.value.lock().unwrap().is_some() { return Err(format!("{:?}: future resolved before its operation finished", via)); }

    // Let the operation finish: the task is woken, which runs it to completion
    release.store(true, Ordering::SeqCst);

    let check_task  = Arc::clone(&task);
    let finished    = wait_for(move || check_task.value.try_lock().map(|val| val.is_some()).unwrap_or(false), Duration::from_secs(4));

    if !finished {
        return Err(format!("{:?}: the task awaiting the future never got a value after the operation finished (queue is {:?})", via, queue));
    }

    let value = task.value.lock().unwrap().take();
    if value != Some(Ok(42)) { return Err(format!("{:?}: expected Ok(42), got {:?}", via, value)); }

    // The queue carries on working afterwards
    let later = scheduler.future_desync(&queue, || async { 7usize });
    match with_timeout(move || later.sync(), Duration::from_secs(4)) {
        Some(Ok(7)) => Ok(()),
        other       => Err(format!("{:?}: a later operation on the same queue gave {:?} (queue is {:?})", via, other, queue))
    }
}

#[test]
fn run_on_wake_executor() {
    for via in [Via::FutureDesync, Via::After].iter() {
        let result = run_on_wake_scenario(*via);
        assert!(result.is_ok(), "{}", result.unwrap_err());
    }
}
