//
// Demonstration for C06: a wake-up for a suspended future operation must never be lost.
//
// Runner context: a thread inside `sync` that is draining the queue itself (pool size 0), parked because the
// future job at the front of the queue returned Pending.
//
// Wake-up position: after the queue is parked, fired *repeatedly* (twice, back to back) from another thread.
//

use desync::scheduler::*;

use futures::task::{Context, Poll, Waker};

use std::future::Future;
use std::pin::Pin;
use std::sync::atomic::{AtomicBool, AtomicUsize, Ordering};
use std::sync::mpsc;
use std::sync::{Arc, Mutex};
use std::thread;
use std::time::{Duration, Instant};

///
/// The 'external event' that the queued operation waits for
///
struct Event {
    fired: AtomicBool,
    waker: Mutex<Option<Waker>>,
    polls: AtomicUsize,
}

///
/// Future that completes once the event has fired (always stores the most recent waker, as a well-behaved future should)
///
struct WaitForEvent(Arc<Event>);

impl Future for WaitForEvent {
    type Output = ();

    fn poll(self: Pin<&mut Self>, context: &mut Context) -> Poll<()> {
        self.0.polls.fetch_add(1, Ordering::SeqCst);

        // Store the waker before checking the flag so that a wake-up can't slip between the two
        *self.0.waker.lock().unwrap() = Some(context.waker().clone());

        if self.0.fired.load(Ordering::SeqCst) {
            Poll::Ready(())
        } else {
            Poll::Pending
        }
    }
}

///
/// Waits until the Debug output of the queue contains the specified text
///
fn wait_for_state(queue: &Arc<JobQueue>, state: &str, max_wait: Duration) -> bool {
    let start = Instant::now();

    while start.elapsed() < max_wait {
        if format!("{:?}", queue).contains(state) {
            return true;
        }
        thread::sleep(Duration::from_millis(1));
    }

    false
}

///
/// Suspends a future operation on a queue that is being run by a thread inside `sync`, waits for that thread to be parked
/// and then fires the event's waker `num_wakes` times in a row from this thread.
///
/// Returns Ok(()) if the operation completed, the job queued behind it ran and the sync call returned.
///
fn sync_runner_with_wakes(num_wakes: usize) -> Result<(), String> {
    // A private scheduler with no pool threads: whatever calls 'sync' has to run the queue itself
    let scheduler = Arc::new(Scheduler::new());
    scheduler.set_max_threads(0);
    scheduler.despawn_threads_if_overloaded();

    let queue = scheduler.create_job_queue();
    let event = Arc::new(Event { fired: AtomicBool::new(false), waker: Mutex::new(None), polls: AtomicUsize::new(0) });

    // The operation that will be suspended
    let op_done     = Arc::new(AtomicBool::new(false));
    let op_event    = Arc::clone(&event);
    let op_done2    = Arc::clone(&op_done);
    scheduler.future_desync(&queue, move || async move {
        WaitForEvent(op_event).await;
        op_done2.store(true, Ordering::SeqCst);
    }).detach();

    // An operation queued behind it
    let behind_done     = Arc::new(AtomicBool::new(false));
    let behind_done2    = Arc::clone(&behind_done);
    scheduler.desync(&queue, move || { behind_done2.store(true, Ordering::SeqCst); });

    // The runner: a thread inside sync, which drains the queue on the calling thread
    let (sync_result, recv_result)  = mpsc::channel();
    let sync_scheduler              = Arc::clone(&scheduler);
    let sync_queue                  = Arc::clone(&queue);
    thread::spawn(move || {
        let result = sync_scheduler.sync(&sync_queue, || 42);
        sync_result.send(result).ok();
    });

    // Wait for the operation to be suspended with the sync thread parked
    if !wait_for_state(&queue, "WaitingForUnpark", Duration::from_secs(5)) {
        return Err(format!("Queue never parked: {:?}", queue));
    }
    thread::sleep(Duration::from_millis(20));

    // The external event occurs: wake the operation (several times in a row)
    let waker = event.waker.lock().unwrap().clone().expect("Operation was polled");
    event.fired.store(true, Ordering::SeqCst);

    for _ in 0..num_wakes {
        waker.wake_by_ref();
    }

    // The sync call should finish, having completed the operation and the job queued behind it
    match recv_result.recv_timeout(Duration::from_secs(2)) {
        Ok(42)  => { }
        Ok(x)   => { return Err(format!("Unexpected sync result {}", x)); }
        Err(_)  => {
            return Err(format!("Wake-up lost after {} wake(s): sync never returned. {:?}, polls: {}, operation done: {}, job behind done: {}",
                num_wakes, queue, event.polls.load(Ordering::SeqCst), op_done.load(Ordering::SeqCst), behind_done.load(Ordering::SeqCst)));
        }
    }

    if !op_done.load(Ordering::SeqCst)      { return Err("Operation did not complete".to_string()); }
    if !behind_done.load(Ordering::SeqCst)  { return Err("Operation queued behind did not run".to_string()); }

    Ok(())
}

#[test]
fn single_wake_after_park_resumes_sync_runner() {
    // Control: passes with and without the change
    for _ in 0..3 {
        sync_runner_with_wakes(1).unwrap();
    }
}

#[test]
fn repeated_wake_after_park_resumes_sync_runner() {
    for _ in 0..5 {
        sync_runner_with_wakes(2).unwrap();
    }
}

#[test]
fn repeated_wake_from_several_threads_resumes_sync_runner() {
    // Same thing, but with the wake-ups coming from two other threads at once
    for _ in 0..5 {
        let scheduler = Arc::new(Scheduler::new());
        scheduler.set_max_threads(0);
        scheduler.despawn_threads_if_overloaded();

        let queue = scheduler.create_job_queue();
        let event = Arc::new(Event { fired: AtomicBool::new(false), waker: Mutex::new(None), polls: AtomicUsize::new(0) });

        let op_event = Arc::clone(&event);
        scheduler.future_desync(&queue, move || WaitForEvent(op_event)).detach();

        let (sync_result, recv_result)  = mpsc::channel();
        let sync_scheduler              = Arc::clone(&scheduler);
        let sync_queue                  = Arc::clone(&queue);
        thread::spawn(move || {
            let result = sync_scheduler.sync(&sync_queue, || 42);
            sync_result.send(result).ok();
        });

        assert!(wait_for_state(&queue, "WaitingForUnpark", Duration::from_secs(5)), "Queue never parked: {:?}", queue);
        thread::sleep(Duration::from_millis(20));

        let waker = event.waker.lock().unwrap().clone().expect("Operation was polled");
        event.fired.store(true, Ordering::SeqCst);

        let wakers = (0..2).map(|_| {
            let waker = waker.clone();
            thread::spawn(move || { for _ in 0..4 { waker.wake_by_ref(); } })
        }).collect::<Vec<_>>();
        wakers.into_iter().for_each(|thread| { thread.join().unwrap(); });

        let result = recv_result.recv_timeout(Duration::from_secs(2));
        assert!(result == Ok(42), "Wake-up lost: sync never returned. {:?}, polls: {}", queue, event.polls.load(Ordering::SeqCst));
    }
}
