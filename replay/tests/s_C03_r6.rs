//!
//! Demonstration for C03 ("no operation is lost, duplicated or left stranded").
//!
//! A queue that `sync()` drains on the calling thread (because the pool is exactly at its maximum and every pool
//! thread is occupied) must be handed back to the scheduler afterwards, whatever wake-ups arrived while it was
//! being drained. A wake-up that arrives while the queue is running, and is not followed by a `Pending` result
//! (the future was ready anyway, or the waker was a stale clone fired from elsewhere), must not leave the queue
//! marked as running: anything scheduled on it later has to run without any other call being needed.
//!

use desync::scheduler::*;

use std::future::Future;
use std::pin::Pin;
use std::sync::atomic::{AtomicBool, AtomicUsize, Ordering};
use std::sync::mpsc;
use std::sync::{Arc, Mutex};
use std::task::{Context, Poll, Waker};
use std::thread;
use std::time::{Duration, Instant};

///
/// Future that is ready the first time it is polled, but also signals its waker during that poll (this is what
/// eg a oneshot receiver does when the sender completes it while it's in the middle of being polled)
///
struct WakeThenReady {
    polled: Arc<AtomicUsize>,
}

impl Future for WakeThenReady {
    type Output = ();

    fn poll(self: Pin<&mut Self>, context: &mut Context) -> Poll<()> {
        self.polled.fetch_add(1, Ordering::SeqCst);
        context.waker().wake_by_ref();
        Poll::Ready(())
    }
}

///
/// Future that yields once (wakes itself and returns pending) and leaves a clone of its waker in a shared slot, the way
/// the losing side of a `select` leaves its waker registered with an event source after the future has finished
///
struct YieldAndLeakWaker {
    yielded:    bool,
    leaked:     Arc<Mutex<Option<Waker>>>,
}

impl Future for YieldAndLeakWaker {
    type Output = ();

    fn poll(mut self: Pin<&mut Self>, context: &mut Context) -> Poll<()> {
        if !self.yielded {
            self.yielded = true;
            *self.leaked.lock().unwrap() = Some(context.waker().clone());
            context.waker().wake_by_ref();
            Poll::Pending
        } else {
            Poll::Ready(())
        }
    }
}

///
/// Creates a scheduler with a single pool thread that is occupied until the returned sender is signalled or dropped
///
fn scheduler_with_busy_pool() -> (Scheduler, Arc<JobQueue>, mpsc::Sender<()>) {
    let scheduler = Scheduler::new();
    scheduler.set_max_threads(1);

    let blocker_queue           = scheduler.create_job_queue();
    let (release, wait_release) = mpsc::channel::<()>();
    let (started, wait_started) = mpsc::channel::<()>();

    scheduler.desync(&blocker_queue, move || {
        started.send(()).ok();
        wait_release.recv_timeout(Duration::from_secs(20)).ok();
    });

    wait_started.recv_timeout(Duration::from_secs(10)).expect("Pool thread never started the blocking job");

    (scheduler, blocker_queue, release)
}

///
/// Waits for a flag to become set
///
fn wait_for(flag: &AtomicBool, timeout: Duration) -> bool {
    let start = Instant::now();

    while !flag.load(Ordering::SeqCst) {
        if Instant::now().duration_since(start) > timeout {
            return false;
        }
        thread::sleep(Duration::from_millis(5));
    }

    true
}

///
/// After the queue has been drained by a sync() call, schedules one more job on it and checks that it runs on its own
///
fn check_queue_still_runs_jobs(scheduler: &Scheduler, queue: &Arc<JobQueue>, what: &str) {
    // Give everything a moment to go quiet: the queue should be back to idle with nothing on it
    thread::sleep(Duration::from_millis(50));
    let quiet_state = format!("{:?}", queue);

    // Schedule one more job: no further calls are made after this one
    let ran         = Arc::new(AtomicBool::new(false));
    let also_ran    = Arc::clone(&ran);
    scheduler.desync(queue, move || { also_ran.store(true, Ordering::SeqCst); });

    let did_run     = wait_for(&ran, Duration::from_secs(3));
    let final_state = format!("{:?}", queue);

    assert!(did_run, "{}: job scheduled after the sync() was never run (queue when quiet: '{}', queue now: '{}', scheduler: '{:?}')", what, quiet_state, final_state, scheduler);
    assert!(quiet_state.contains("State: Idle") && quiet_state.contains("Pending: 0"), "{}: queue was not idle once everything had gone quiet: '{}'", what, quiet_state);
}

#[test]
fn job_scheduled_after_sync_drained_a_self_waking_future_still_runs() {
    let (scheduler, _blocker_queue, release) = scheduler_with_busy_pool();

    // The pool is at its maximum and busy, so this stays pending...
    let queue       = scheduler.create_job_queue();
    let polled      = Arc::new(AtomicUsize::new(0));
    let also_polled = Arc::clone(&polled);
    scheduler.future_desync(&queue, move || WakeThenReady { polled: also_polled }).detach();

    // ... until this sync call drains the queue on this thread
    let sync_result = scheduler.sync(&queue, || 42);
    assert!(sync_result == 42);
    assert!(polled.load(Ordering::SeqCst) == 1, "Future job ran {} times", polled.load(Ordering::SeqCst));

    // Pool thread becomes available again
    release.send(()).ok();

    check_queue_still_runs_jobs(&scheduler, &queue, "self-waking future");
}

#[test]
fn job_scheduled_after_sync_drained_a_queue_with_a_stale_waker_still_runs() {
    let (scheduler, _blocker_queue, release) = scheduler_with_busy_pool();

    // First job yields once and leaves its waker behind, second job fires that (now stale) waker: both stay pending as the pool is busy
    let queue       = scheduler.create_job_queue();
    let leaked      = Arc::new(Mutex::new(None));
    let also_leaked = Arc::clone(&leaked);
    let fired       = Arc::new(AtomicBool::new(false));
    let also_fired  = Arc::clone(&fired);

    scheduler.future_desync(&queue, move || YieldAndLeakWaker { yielded: false, leaked: also_leaked }).detach();
    scheduler.desync(&queue, move || {
        if let Some(stale_waker) = leaked.lock().unwrap().take() {
            stale_waker.wake();
            also_fired.store(true, Ordering::SeqCst);
        }
    });

    // Drain the queue on this thread
    let sync_result = scheduler.sync(&queue, || 42);
    assert!(sync_result == 42);
    assert!(fired.load(Ordering::SeqCst), "Stale waker was never fired");

    // Pool thread becomes available again
    release.send(()).ok();

    check_queue_still_runs_jobs(&scheduler, &queue, "stale waker");
}
