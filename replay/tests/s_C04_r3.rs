//
// Demonstration for C04: "sync always returns, with its own result, after running its closure once"
//
// A queue with no pool thread available is drained by the thread that calls `sync`. The job ahead of the sync is a
// future that needs to be woken up: the caller parks until the wake arrives and then finishes the future. The task
// that completed the future wakes the same waker a second time a little later (wakers may legally be woken more than
// once, eg a channel that wakes its receiver for a second message or on close), while the caller is still running
// its own closure for the queue.
//
// After that first `sync` has returned, nothing is running the queue and nothing is waiting on it, so a second `sync`
// must return at once with its own value.
//

extern crate desync;
extern crate futures;

use desync::scheduler::*;

use futures::prelude::*;
use futures::task::{Context, Poll, Waker};

use std::pin::Pin;
use std::sync::*;
use std::sync::mpsc;
use std::thread;
use std::time::Duration;

///
/// State shared between the hand-rolled future and the thread that completes it
///
struct Shared {
    ready: bool,
    waker: Option<Waker>,
}

///
/// Future that becomes ready when some other thread sets `ready` and wakes the stored waker
///
struct WaitForFlag(Arc<Mutex<Shared>>);

impl Future for WaitForFlag {
    type Output = ();

    fn poll(self: Pin<&mut Self>, context: &mut Context) -> Poll<()> {
        let mut shared = self.0.lock().unwrap();

        if shared.ready {
            Poll::Ready(())
        } else {
            shared.waker = Some(context.waker().clone());
            Poll::Pending
        }
    }
}

#[test]
fn sync_returns_after_a_drain_that_saw_a_late_wake() {
    // Private scheduler with no pool threads: every sync has to run the queue on the calling thread
    let scheduler = Arc::new(Scheduler::new());
    scheduler.set_max_threads(0);
    scheduler.despawn_threads_if_overloaded();

    let queue   = scheduler.create_job_queue();
    let shared  = Arc::new(Mutex::new(Shared { ready: false, waker: None }));

    // Job 1: a future that has to be woken by another thread (the queue goes to 'Pending': there is no thread to run it)
    let future_shared = Arc::clone(&shared);
    scheduler.future_desync(&queue, move || WaitForFlag(future_shared)).detach();

    let (in_closure_send, in_closure_recv) = mpsc::channel::<()>();
    let (go_send, go_recv)                 = mpsc::channel::<()>();

    // The 'other task': completes the future, then wakes the same waker again once the sync closure is running
    let waker_shared = Arc::clone(&shared);
    let completer = thread::spawn(move || {
        // Wait for the future to be polled by whoever is draining the queue
        let waker = loop {
            if let Some(waker) = waker_shared.lock().unwrap().waker.clone() { break waker; }
            thread::sleep(Duration::from_millis(1));
        };

        // Give the draining thread time to actually go to sleep
        thread::sleep(Duration::from_millis(50));

        // Complete the future and wake it
        waker_shared.lock().unwrap().ready = true;
        waker.wake_by_ref();

        // The future is finished once the sync closure starts to run
        in_closure_recv.recv().unwrap();

        // Late, redundant wake of the same waker
        waker.wake_by_ref();

        // Let the sync closure finish
        go_send.send(()).unwrap();
    });

    // First sync: queue is pending, so this thread drains it (runs the future, then its own closure)
    let first = scheduler.sync(&queue, move || {
        in_closure_send.send(()).unwrap();
        go_recv.recv().unwrap();
        42
    });
    assert_eq!(first, 42);
    completer.join().unwrap();

    println!("After first sync: {:?}", queue);

    // Second sync: nothing is scheduled ahead of it and nothing is running the queue, so it must return at once
    let (done_send, done_recv) = mpsc::channel();
    let sync_scheduler  = Arc::clone(&scheduler);
    let sync_queue      = Arc::clone(&queue);
    thread::spawn(move || {
        let second = sync_scheduler.sync(&sync_queue, || 7);
        done_send.send(second).ok();
    });

    match done_recv.recv_timeout(Duration::from_secs(5)) {
        Ok(second)  => assert_eq!(second, 7),
        Err(_)      => panic!("second sync did not return within 5s; queue is {:?}", queue),
    }
}
