//
// Demonstration for seed C15: a panic on one queue must stay contained to that queue.
//
// Sequence (private scheduler, pool maximum 1):
//   1. the only pool thread is kept busy by a 'blocker' queue
//   2. a job is queued on the 'victim' queue: no thread is free, so the victim sits in the schedule as Pending
//   3. a sync caller drains the victim on its own thread and its operation panics there (victim is now panicked
//      and - as sync_drain never removes it - still listed in the schedule)
//   4. another scheduling attempt on the victim fails loudly, as it should
//   5. the pool thread is released, goes back to the schedule for more work and walks over the stale victim entry
//   6. healthy queues must still be fully usable: desync jobs run on the pool, sync jobs run
//
extern crate desync;
extern crate futures;

use desync::scheduler::*;

use std::panic::{catch_unwind, AssertUnwindSafe};
use std::sync::*;
use std::sync::atomic::{AtomicBool, Ordering};
use std::sync::mpsc;
use std::thread;
use std::time::{Duration, Instant};

/// Runs an action on a new thread and returns true if it panicked (the thread has finished unwinding when this returns)
fn panics_on_own_thread<TFn: 'static+Send+FnOnce() -> ()>(action: TFn) -> bool {
    thread::Builder::new()
        .name("seed demo caller".to_string())
        .spawn(action)
        .expect("spawn caller thread")
        .join()
        .is_err()
}

fn run_scenario(max_threads: usize) {
    let scheduler = Arc::new(Scheduler::new());
    scheduler.set_max_threads(max_threads);

    // 1. Occupy every pool thread
    let release         = Arc::new(AtomicBool::new(false));
    let (started, wait_started) = mpsc::channel();
    let blockers        = (0..max_threads).map(|_| scheduler.create_job_queue()).collect::<Vec<_>>();

    for blocker in blockers.iter() {
        let release = Arc::clone(&release);
        let started = started.clone();
        scheduler.desync(blocker, move || {
            started.send(()).ok();
            while !release.load(Ordering::SeqCst) { thread::sleep(Duration::from_millis(1)); }
        });
    }
    for _ in 0..max_threads {
        wait_started.recv_timeout(Duration::from_secs(5)).expect("blocker should start on a pool thread");
    }

    // 2. Victim gets a job while the pool is saturated: it is now pending in the schedule
    let victim = scheduler.create_job_queue();
    scheduler.desync(&victim, || { });

    // 3. A sync caller drains the victim on its own thread, and its operation panics
    {
        let scheduler   = Arc::clone(&scheduler);
        let victim      = Arc::clone(&victim);
        let panicked    = panics_on_own_thread(move || { scheduler.sync(&victim, || { panic!("victim operation panics"); }) });
        assert!(panicked, "the panic should reach the sync caller");
    }

    // 4. Scheduling on the panicked object fails loudly
    {
        let scheduler   = Arc::clone(&scheduler);
        let victim      = Arc::clone(&victim);
        let panicked    = panics_on_own_thread(move || { scheduler.desync(&victim, || { }); });
        assert!(panicked, "scheduling on a panicked queue should panic");
    }

    // 5. Release the pool, give the threads time to go back to the schedule
    release.store(true, Ordering::SeqCst);
    for blocker in blockers.iter() {
        scheduler.sync(blocker, || { });
    }
    thread::sleep(Duration::from_millis(100));

    // 6. Healthy objects must be fully usable
    let healthy = (0..3).map(|_| scheduler.create_job_queue()).collect::<Vec<_>>();
    let (done, wait_done) = mpsc::channel();

    for (idx, queue) in healthy.iter().enumerate() {
        let done        = done.clone();
        let scheduled   = catch_unwind(AssertUnwindSafe(|| {
            scheduler.desync(queue, move || { done.send(idx).ok(); });
        }));
        assert!(scheduled.is_ok(), "desync on healthy queue {} panicked (pool max {}): the victim's panic was not contained", idx, max_threads);
    }

    let deadline    = Instant::now() + Duration::from_secs(5);
    let mut seen    = vec![false; healthy.len()];
    while seen.iter().any(|seen| !seen) {
        let remaining = deadline.saturating_duration_since(Instant::now());
        match wait_done.recv_timeout(remaining) {
            Ok(idx) => { seen[idx] = true; }
            Err(_)  => panic!("jobs on healthy queues never ran on the pool (pool max {}, ran: {:?}, scheduler: {:?})", max_threads, seen, scheduler),
        }
    }

    for queue in healthy.iter() {
        let scheduler   = Arc::clone(&scheduler);
        let queue       = Arc::clone(queue);
        let (tx, rx)    = mpsc::channel();
        thread::spawn(move || { tx.send(scheduler.sync(&queue, || 42)).ok(); });
        assert_eq!(rx.recv_timeout(Duration::from_secs(5)).ok(), Some(42), "sync on a healthy queue should run");
    }

    // The victim still fails loudly
    {
        let scheduler   = Arc::clone(&scheduler);
        let victim      = Arc::clone(&victim);
        let panicked    = panics_on_own_thread(move || { scheduler.sync(&victim, || { }); });
        assert!(panicked, "sync on a panicked queue should panic");
    }
}

#[test]
fn panic_in_sync_caller_is_contained_pool_max_1() {
    run_scenario(1);
}

#[test]
fn panic_in_sync_caller_is_contained_pool_max_2() {
    run_scenario(2);
}

#[test]
fn panic_in_sync_caller_is_contained_pool_max_3() {
    run_scenario(3);
}
