//!
//! Demonstration for property C05: dropping a `Desync` must block until every operation scheduled on it beforehand has
//! finished, and only then destroy the protected value (exactly once).
//!
//! Scenario (needs a particular pool state plus a particular moment for the drop):
//!
//!  * the pool has no free thread (one thread, busy with another object's job), so a `future_desync` operation stays queued
//!  * thread A calls `.sync()` on the `SchedulerFuture` returned by `future_desync`: it drains the queue itself, polls the
//!    operation, which suspends, so thread A parks with the operation in its hands (queue is 'waiting for unpark')
//!  * thread B drops the last (only) owner of the `Desync` at that moment
//!  * the operation is only allowed to continue later on
//!
//! The drop has to wait for the suspended operation: the value may only be destroyed after it has finished.
//!

use desync::Desync;
use desync::scheduler::scheduler;

use futures::prelude::*;
use futures::future;
use futures::task::{Poll, Waker};

use std::sync::*;
use std::sync::atomic::{AtomicBool, AtomicUsize, Ordering};
use std::sync::mpsc;
use std::thread;
use std::time::{Duration, Instant};

/// What the test observes
struct Observed {
    /// The operation has been polled at least once and is suspended on the gate
    op_suspended:           AtomicBool,
    /// The operation ran to its end
    op_finished:            AtomicBool,
    /// The operation resumed after the value had been destroyed
    op_resumed_after_drop:  AtomicBool,
    /// Number of times the protected value was destroyed
    drops:                  AtomicUsize,
    /// The value was destroyed while the operation had not finished yet
    dropped_before_op_end:  AtomicBool,

    /// The gate the operation waits on
    gate_open:              AtomicBool,
    gate_waker:             Mutex<Option<Waker>>,
}

/// The protected value
struct Probe {
    touched:  usize,
    observed: Arc<Observed>
}

impl Drop for Probe {
    fn drop(&mut self) {
        if !self.observed.op_finished.load(Ordering::SeqCst) {
            self.observed.dropped_before_op_end.store(true, Ordering::SeqCst);
        }
        self.observed.drops.fetch_add(1, Ordering::SeqCst);
    }
}

fn wait_until<F: Fn() -> bool>(what: &str, condition: F) {
    let start = Instant::now();
    while !condition() {
        assert!(start.elapsed() < Duration::from_secs(10), "Timed out waiting for: {}", what);
        thread::sleep(Duration::from_millis(2));
    }
}

#[test]
fn drop_waits_for_operation_suspended_in_a_sync_caller() {
    // Pool state: a single pool thread, kept busy by a job on another object
    let pool = scheduler();
    pool.set_max_threads(1);
    pool.despawn_threads_if_overloaded();

    let blocker                     = Desync::new(());
    let blocker_running             = Arc::new(AtomicBool::new(false));
    let (release_pool, wait_release) = mpsc::channel::<()>();
    {
        let blocker_running = Arc::clone(&blocker_running);
        blocker.desync(move |_| {
            blocker_running.store(true, Ordering::SeqCst);
            wait_release.recv_timeout(Duration::from_secs(20)).ok();
        });
    }
    wait_until("pool thread to be busy", || blocker_running.load(Ordering::SeqCst));

    // The object under test
    let observed = Arc::new(Observed {
        op_suspended:           AtomicBool::new(false),
        op_finished:            AtomicBool::new(false),
        op_resumed_after_drop:  AtomicBool::new(false),
        drops:                  AtomicUsize::new(0),
        dropped_before_op_end:  AtomicBool::new(false),
        gate_open:              AtomicBool::new(false),
        gate_waker:             Mutex::new(None)
    });
    let target = Desync::new(Probe { touched: 0, observed: Arc::clone(&observed) });

    // Schedule an operation that suspends until the gate is opened, then uses the value
    let op_observed = Arc::clone(&observed);
    let operation   = target.future_desync(move |probe| {
        async move {
            let gate = Arc::clone(&op_observed);
            future::poll_fn(move |context| {
                if gate.gate_open.load(Ordering::SeqCst) {
                    Poll::Ready(())
                } else {
                    *gate.gate_waker.lock().unwrap() = Some(context.waker().clone());
                    gate.op_suspended.store(true, Ordering::SeqCst);

                    if gate.gate_open.load(Ordering::SeqCst) { Poll::Ready(()) } else { Poll::Pending }
                }
            }).await;

            if op_observed.drops.load(Ordering::SeqCst) != 0 {
                // The value is gone: don't touch it, just report
                op_observed.op_resumed_after_drop.store(true, Ordering::SeqCst);
            } else {
                probe.touched += 1;
                thread::sleep(Duration::from_millis(20));
                probe.touched += 1;
                op_observed.op_finished.store(true, Ordering::SeqCst);
            }
        }.boxed()
    });

    // Thread A: waits synchronously for the operation (no pool thread is free, so it runs the queue itself and parks in the operation)
    let sync_caller = thread::spawn(move || { operation.sync().ok(); });
    wait_until("operation to suspend", || observed.op_suspended.load(Ordering::SeqCst));
    thread::sleep(Duration::from_millis(100));

    // Thread B: drops the only owner while the operation is suspended
    let drop_returned   = Arc::new(AtomicBool::new(false));
    let (b_done, b_wait) = mpsc::channel::<()>();
    let dropper         = {
        let drop_returned = Arc::clone(&drop_returned);
        thread::spawn(move || {
            drop(target);
            drop_returned.store(true, Ordering::SeqCst);
            b_done.send(()).ok();
        })
    };

    // Give the drop plenty of time: it must still be blocked, as the operation cannot finish before the gate opens
    thread::sleep(Duration::from_millis(300));
    let returned_early  = drop_returned.load(Ordering::SeqCst);
    let dropped_early   = observed.drops.load(Ordering::SeqCst);

    // Open the gate: the operation continues, and after it the drop
    observed.gate_open.store(true, Ordering::SeqCst);
    let waker = observed.gate_waker.lock().unwrap().take();
    waker.map(|waker| waker.wake());

    let drop_completed = b_wait.recv_timeout(Duration::from_secs(10)).is_ok();

    // Release everything before checking the results
    release_pool.send(()).ok();
    if drop_completed {
        dropper.join().ok();
        sync_caller.join().ok();
    }
    drop(blocker);

    assert!(!returned_early, "drop() returned while an operation scheduled before it was still suspended");
    assert!(dropped_early == 0, "the value was destroyed while an operation scheduled before the drop was still suspended");
    assert!(drop_completed, "drop() never returned after the operation was allowed to finish");
    assert!(!observed.dropped_before_op_end.load(Ordering::SeqCst), "value destroyed before the operation finished");
    assert!(!observed.op_resumed_after_drop.load(Ordering::SeqCst), "operation resumed after the value was destroyed");
    assert!(observed.op_finished.load(Ordering::SeqCst), "the operation never finished");
    assert!(observed.drops.load(Ordering::SeqCst) == 1, "value destroyed {} times", observed.drops.load(Ordering::SeqCst));
}
