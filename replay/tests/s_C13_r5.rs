//
// Demonstration for C13: a suspended queue must hold later work until the resumer is used or dropped.
//
// The scenario: a future job that waits for either of two oneshot channels is woken for *both* reasons. The
// second wake-up arrives while the job is already running on the pool thread, so it leaves the queue in the
// 'awoken while running' state. The next job on the queue is the one created by `suspend()`: it hands out
// the resumer and then returns 'pending' with that stale wake-up still recorded against the queue.
//
// Nothing scheduled after the suspend request may run until the resumer is used.
//

extern crate desync;
extern crate futures;

use desync::scheduler::*;

use futures::channel::oneshot;
use futures::executor;
use futures::future;
use futures::future::Either;

use std::sync::*;
use std::sync::atomic::{AtomicUsize, Ordering};
use std::sync::mpsc;
use std::thread;
use std::time::{Duration, Instant};

/// Waits until the debug description of the queue contains a particular string
fn wait_for_state(queue: &Arc<JobQueue>, expected: &str) -> bool {
    let start = Instant::now();

    while start.elapsed() < Duration::from_secs(5) {
        if format!("{:?}", queue).contains(expected) {
            return true;
        }
        thread::sleep(Duration::from_millis(1));
    }

    false
}

fn suspended_queue_holds_later_jobs(pool_size: usize) {
    let scheduler   = Arc::new(Scheduler::new());
    scheduler.set_max_threads(pool_size);
    scheduler.despawn_threads_if_overloaded();

    let queue       = scheduler.create_job_queue();

    // The order in which things happened on the queue
    let log         = Arc::new(Mutex::new(vec![]));
    let later_runs  = Arc::new(AtomicUsize::new(0));

    // First job: waits for either of two channels, then does some (blocking) work before it finishes
    let (tx_a, rx_a)            = oneshot::channel::<()>();
    let (tx_b, rx_b)            = oneshot::channel::<()>();
    let (working_tx, working_rx) = mpsc::channel::<()>();
    let (finish_tx, finish_rx)  = mpsc::channel::<()>();

    let first_log   = Arc::clone(&log);
    scheduler.future_desync(&queue, move || async move {
        // Wait for one of the two channels: whichever one is left over is kept until the work is done
        let _left_over = match future::select(rx_a, rx_b).await {
            Either::Left((_, other))    => other,
            Either::Right((_, other))   => other
        };

        // Do the 'work' (the test decides when it is finished)
        working_tx.send(()).ok();
        finish_rx.recv_timeout(Duration::from_secs(5)).ok();

        first_log.lock().unwrap().push("first");
    }).detach();

    // The job is waiting for its channels
    assert!(wait_for_state(&queue, "WaitingForWake"), "First job never started waiting: {:?}", queue);

    // First wake-up: the job starts its work on the pool thread
    tx_a.send(()).unwrap();
    working_rx.recv_timeout(Duration::from_secs(5)).expect("First job never woke up");

    // Second wake-up, for the other channel, while the job is running
    tx_b.send(()).unwrap();
    assert!(wait_for_state(&queue, "AwokenWhileRunning"), "Queue was not woken while running: {:?}", queue);

    // Request the suspension, then schedule more work after it
    let suspended   = scheduler.suspend(&queue);

    for _ in 0..3 {
        let later_log   = Arc::clone(&log);
        let later_runs  = Arc::clone(&later_runs);
        scheduler.desync(&queue, move || {
            later_runs.fetch_add(1, Ordering::SeqCst);
            later_log.lock().unwrap().push("later");
        });
    }

    // Let the first job finish: the queue moves on to the suspension
    finish_tx.send(()).unwrap();

    let resumer     = executor::block_on(suspended).expect("Queue was never suspended");

    // Everything before the suspension is done, nothing after it has started (give it a chance to go wrong)
    assert!(*log.lock().unwrap() == vec!["first"], "Unexpected log at suspension: {:?}", log.lock().unwrap());

    thread::sleep(Duration::from_millis(100));

    let ran_while_suspended = later_runs.load(Ordering::SeqCst);
    assert!(ran_while_suspended == 0, "{} job(s) scheduled after the suspension ran while the queue was suspended ({:?})", ran_while_suspended, queue);

    // A sync call made during the suspension waits rather than overtaking
    let sync_scheduler  = Arc::clone(&scheduler);
    let sync_queue      = Arc::clone(&queue);
    let sync_log        = Arc::clone(&log);
    let (sync_tx, sync_rx) = mpsc::channel();
    thread::spawn(move || {
        sync_scheduler.sync(&sync_queue, move || { sync_log.lock().unwrap().push("sync"); });
        sync_tx.send(()).ok();
    });

    assert!(sync_rx.recv_timeout(Duration::from_millis(100)).is_err(), "sync() returned while the queue was suspended");
    assert!(later_runs.load(Ordering::SeqCst) == 0, "Later jobs ran while the queue was suspended");

    // Resuming lets everything run, in order
    resumer.resume();

    sync_rx.recv_timeout(Duration::from_secs(5)).expect("sync() never returned after the queue was resumed");
    assert!(*log.lock().unwrap() == vec!["first", "later", "later", "later", "sync"], "Unexpected final log: {:?}", log.lock().unwrap());
}

#[test]
fn suspended_queue_holds_later_jobs_one_thread() {
    suspended_queue_holds_later_jobs(1);
}

#[test]
fn suspended_queue_holds_later_jobs_three_threads() {
    suspended_queue_holds_later_jobs(3);
}
