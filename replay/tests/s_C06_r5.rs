//
// Demonstration for C06: a wake-up for a suspended future operation is never lost.
//
// A future-based operation is suspended inside `sync` (the scheduler has no pool threads, so the thread calling `sync`
// drains the queue itself and parks while the operation is pending). Once the thread is parked, two other threads that
// each hold a clone of the operation's waker wake it at the same moment - the same thing that happens when a future
// has registered its waker with two event sources (eg a `select` over two channels) and both of them fire together.
//
// The operation must be polled again and complete, and the `sync` behind it must then run.
//

use desync::scheduler::*;

use std::future::Future;
use std::pin::Pin;
use std::sync::atomic::{AtomicBool, AtomicUsize, Ordering};
use std::sync::mpsc;
use std::sync::{Arc, Mutex};
use std::task::{Context, Poll, Waker};
use std::thread;
use std::time::{Duration, Instant};

/// State shared between the suspended operation and the threads that wake it up
struct Gate {
    /// Set to true when the external event has happened
    open: AtomicBool,

    /// The waker from the most recent poll
    waker: Mutex<Option<Waker>>,

    /// Number of times the operation was polled
    polls: AtomicUsize,
}

/// Future that is pending until the gate is opened
struct WaitForGate(Arc<Gate>);

impl Future for WaitForGate {
    type Output = usize;

    fn poll(self: Pin<&mut Self>, context: &mut Context) -> Poll<usize> {
        let gate = &self.0;
        gate.polls.fetch_add(1, Ordering::SeqCst);

        if gate.open.load(Ordering::SeqCst) {
            return Poll::Ready(gate.polls.load(Ordering::SeqCst));
        }

        *gate.waker.lock().unwrap() = Some(context.waker().clone());

        if gate.open.load(Ordering::SeqCst) {
            Poll::Ready(gate.polls.load(Ordering::SeqCst))
        } else {
            Poll::Pending
        }
    }
}

/// Spins until `condition` is true, or gives up after a few seconds
fn wait_until<F: Fn() -> bool>(condition: F) -> bool {
    let start = Instant::now();

    while !condition() {
        if start.elapsed() > Duration::from_secs(5) {
            return false;
        }
        thread::yield_now();
    }

    true
}

/// One round: returns Ok(()) if the suspended operation and the sync behind it both completed
fn double_wake_while_parked_in_sync(round: usize) -> Result<(), String> {
    // Scheduler with no pool threads: the thread that calls `sync` runs the queue
    let scheduler = Arc::new(Scheduler::new());
    scheduler.set_max_threads(0);
    scheduler.despawn_threads_if_overloaded();

    let queue = scheduler.create_job_queue();
    let gate  = Arc::new(Gate { open: AtomicBool::new(false), waker: Mutex::new(None), polls: AtomicUsize::new(0) });

    // The future-based operation, with a sync queued behind it
    let future_gate = Arc::clone(&gate);
    let operation   = scheduler.future_desync(&queue, move || WaitForGate(future_gate));

    let (done_send, done_recv)  = mpsc::channel();
    let sync_scheduler          = Arc::clone(&scheduler);
    let sync_queue              = Arc::clone(&queue);
    let sync_thread             = thread::spawn(move || {
        let result = sync_scheduler.sync(&sync_queue, || 42);
        done_send.send(result).ok();
    });

    // Wait for the operation to be suspended with the sync thread parked
    let parked_queue = Arc::clone(&queue);
    if !wait_until(move || format!("{:?}", parked_queue).contains("WaitingForUnpark")) {
        return Err(format!("round {}: sync thread never parked ({:?})", round, queue));
    }

    // The event happens, and two threads fire the waker at the same moment
    let waker   = gate.waker.lock().unwrap().clone().expect("waker was registered");
    let ready   = Arc::new(AtomicUsize::new(0));
    gate.open.store(true, Ordering::SeqCst);

    let wakers = (0..2).map(|_| {
        let waker = waker.clone();
        let ready = Arc::clone(&ready);

        thread::spawn(move || {
            // Tiny spin barrier so both wake-ups land together
            ready.fetch_add(1, Ordering::SeqCst);
            while ready.load(Ordering::SeqCst) < 2 { std::hint::spin_loop(); }

            waker.wake_by_ref();
        })
    }).collect::<Vec<_>>();

    wakers.into_iter().for_each(|waker_thread| { waker_thread.join().ok(); });

    // The sync behind the operation must now proceed
    let sync_result = done_recv.recv_timeout(Duration::from_secs(5));
    if sync_result != Ok(42) {
        return Err(format!("round {}: sync behind the suspended operation did not complete: {:?} ({:?})", round, sync_result, queue));
    }
    sync_thread.join().map_err(|_| format!("round {}: sync thread panicked", round))?;

    // ... and the operation itself must have completed after being polled again
    let polls = futures::executor::block_on(operation).map_err(|_| format!("round {}: operation was cancelled", round))?;
    if polls < 2 {
        return Err(format!("round {}: operation was never polled again", round));
    }

    Ok(())
}

#[test]
fn wake_twice_while_sync_thread_is_parked() {
    for round in 0..40 {
        if let Err(problem) = double_wake_while_parked_in_sync(round) {
            panic!("{}", problem);
        }
    }
}
