//
// Demonstration for C16: dropping the output stream of a pipe must shut the pipe down (release the strong reference
// on the Desync, drop the input stream and the processing closure) wherever the producing poll job happens to be at
// the moment of the drop, even if the input never produces anything again.
//
// The input stream here is hand-rolled so that the test can hold the poll job *inside* `poll_next` of the input
// while the output stream is dropped, and then let the input report `Pending` and stay silent forever.
//

extern crate desync;
extern crate futures;

use desync::{pipe, Desync};

use futures::future;
use futures::prelude::*;
use futures::task::{Context, Poll, Waker};

use std::pin::Pin;
use std::sync::atomic::{AtomicBool, AtomicUsize, Ordering};
use std::sync::mpsc;
use std::sync::{Arc, Mutex};
use std::thread;
use std::time::{Duration, Instant};

/// State shared between the test and its input stream
struct InputShared {
    /// The last waker handed to the input stream
    waker:      Mutex<Option<Waker>>,

    /// Number of times the input stream has been polled
    polls:      AtomicUsize,

    /// When set, the next poll reports that it has started and then waits for the gate before returning
    hold_next:  AtomicBool,

    /// Set when the input stream is dropped
    dropped:    AtomicBool,
}

/// An input stream that never produces a value, and that can be held in the middle of a poll
struct SilentInput {
    shared:     Arc<InputShared>,
    entered:    mpsc::Sender<()>,
    gate:       Mutex<mpsc::Receiver<()>>,
}

impl Stream for SilentInput {
    type Item = usize;

    fn poll_next(self: Pin<&mut Self>, context: &mut Context) -> Poll<Option<usize>> {
        self.shared.polls.fetch_add(1, Ordering::SeqCst);

        if self.shared.hold_next.swap(false, Ordering::SeqCst) {
            // Tell the test that the poll job is in the middle of polling the input, then wait until it lets us continue
            self.entered.send(()).ok();
            self.gate.lock().unwrap().recv_timeout(Duration::from_secs(10)).ok();
        }

        // Nothing to produce: remember the waker (it is never used again after the hold: the input stays silent)
        *self.shared.waker.lock().unwrap() = Some(context.waker().clone());
        Poll::Pending
    }
}

impl Drop for SilentInput {
    fn drop(&mut self) {
        self.shared.dropped.store(true, Ordering::SeqCst);
    }
}

/// Waits for a condition to become true
fn wait_for(timeout: Duration, condition: impl Fn() -> bool) -> bool {
    let start = Instant::now();

    while start.elapsed() < timeout {
        if condition() { return true; }
        thread::sleep(Duration::from_millis(5));
    }

    condition()
}

fn drop_output_while_input_is_being_polled() {
    let shared = Arc::new(InputShared {
        waker:      Mutex::new(None),
        polls:      AtomicUsize::new(0),
        hold_next:  AtomicBool::new(false),
        dropped:    AtomicBool::new(false),
    });

    let (entered_send, entered_recv)    = mpsc::channel();
    let (gate_send, gate_recv)          = mpsc::channel();
    let input                           = SilentInput { shared: Arc::clone(&shared), entered: entered_send, gate: Mutex::new(gate_recv) };

    // The processing closure owns a token so we can tell when it is dropped
    let process_token   = Arc::new(());
    let process_owned   = Arc::clone(&process_token);

    let target          = Arc::new(Desync::new(0usize));
    let output          = pipe(Arc::clone(&target), input, move |count, value: usize| {
        let _keep = &process_owned;
        *count += value;
        future::ready(*count).boxed()
    });

    // pipe() only returns once the first poll has finished: the input is idle and has a waker
    assert!(shared.polls.load(Ordering::SeqCst) == 1);
    assert!(wait_for(Duration::from_secs(1), || Arc::strong_count(&target) == 2), "the pipe should hold a strong reference while the output exists");

    // Wake the input: the poll job starts again and is held inside the input's poll_next
    shared.hold_next.store(true, Ordering::SeqCst);
    let waker = shared.waker.lock().unwrap().take().expect("input was polled with a waker");
    waker.wake();

    entered_recv.recv_timeout(Duration::from_secs(10)).expect("the poll job should poll the input after it is woken");

    // Drop the output stream while the poll job is in the middle of its loop...
    drop(output);

    // ... and then let the input report that it has nothing (it will never wake anything again)
    gate_send.send(()).unwrap();

    // The pipe must shut down all the same
    let input_dropped   = wait_for(Duration::from_secs(3), || shared.dropped.load(Ordering::SeqCst));
    let process_dropped = wait_for(Duration::from_secs(1), || Arc::strong_count(&process_token) == 1);
    let target_released = wait_for(Duration::from_secs(1), || Arc::strong_count(&target) == 1);

    assert!(target_released, "the strong reference on the Desync was not released");
    assert!(input_dropped, "the input stream was not dropped after the output stream was dropped mid-poll (polls: {})", shared.polls.load(Ordering::SeqCst));
    assert!(process_dropped, "the processing closure was not dropped after the output stream was dropped mid-poll");
}

#[test]
fn seed_demo_drop_output_while_input_is_being_polled() {
    // Run the scenario on a separate thread so that a hang is reported as a failure rather than blocking the test run
    let (done_send, done_recv) = mpsc::channel();

    thread::spawn(move || {
        drop_output_while_input_is_being_polled();
        done_send.send(()).ok();
    });

    match done_recv.recv_timeout(Duration::from_secs(25)) {
        Ok(())  => { }
        Err(_)  => panic!("scenario failed or did not finish in time")
    }
}

#[test]
fn seed_demo_drop_output_while_input_is_idle() {
    // Control: the drop arrives while the poll job is idle and registered with the input (works with or without the change)
    let shared = Arc::new(InputShared {
        waker:      Mutex::new(None),
        polls:      AtomicUsize::new(0),
        hold_next:  AtomicBool::new(false),
        dropped:    AtomicBool::new(false),
    });

    let (entered_send, _entered_recv)   = mpsc::channel();
    let (_gate_send, gate_recv)         = mpsc::channel::<()>();
    let input                           = SilentInput { shared: Arc::clone(&shared), entered: entered_send, gate: Mutex::new(gate_recv) };

    let target          = Arc::new(Desync::new(0usize));
    let output          = pipe(Arc::clone(&target), input, |count, value: usize| { *count += value; future::ready(*count).boxed() });

    drop(output);

    assert!(wait_for(Duration::from_secs(3), || shared.dropped.load(Ordering::SeqCst)), "input not dropped after an idle drop");
    assert!(wait_for(Duration::from_secs(1), || Arc::strong_count(&target) == 1), "strong reference not released after an idle drop");
}
