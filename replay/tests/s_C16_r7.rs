extern crate desync;
extern crate futures;

use desync::*;
use futures::prelude::*;
use futures::task::{Context, Poll, Waker};

use std::collections::VecDeque;
use std::pin::Pin;
use std::sync::*;
use std::sync::mpsc;
use std::thread;
use std::time::{Duration, Instant};

///
/// State shared between the test and the input stream
///
struct FeedState {
    /// Items waiting to be read by the pipe
    queue: VecDeque<u32>,

    /// The waker that was passed in by the most recent poll
    waker: Option<Waker>,
}

///
/// A hand-rolled input stream: like many such streams it remembers the waker of the most recent poll, whether
/// or not it had an item to return
///
struct Feed {
    state:   Arc<Mutex<FeedState>>,
    dropped: mpsc::Sender<&'static str>,
}

impl Stream for Feed {
    type Item = u32;

    fn poll_next(self: Pin<&mut Self>, context: &mut Context) -> Poll<Option<u32>> {
        let mut state = self.state.lock().unwrap();

        state.waker = Some(context.waker().clone());

        match state.queue.pop_front() {
            Some(item)  => Poll::Ready(Some(item)),
            None        => Poll::Pending
        }
    }
}

impl Drop for Feed {
    fn drop(&mut self) {
        self.dropped.send("input").ok();
    }
}

///
/// Signals when the processing closure is dropped
///
struct ClosureGuard(mpsc::Sender<&'static str>);

impl Drop for ClosureGuard {
    fn drop(&mut self) {
        self.0.send("closure").ok();
    }
}

///
/// Fills a pipe up to its back-pressure depth, then drops the output stream while the input stays silent
///
fn drop_output_while_throttled() -> Result<(), String> {
    let (dropped_tx, dropped_rx)    = mpsc::channel();
    let state                       = Arc::new(Mutex::new(FeedState { queue: VecDeque::new(), waker: None }));
    let input                       = Feed { state: Arc::clone(&state), dropped: dropped_tx.clone() };
    let guard                       = ClosureGuard(dropped_tx);

    let obj         = Arc::new(Desync::new(0u32));
    let weak_obj    = Arc::downgrade(&obj);

    // The pipe counts the items it has processed in the desync
    let mut output = pipe(Arc::clone(&obj), input, move |count: &mut u32, item: u32| {
        let _guard = &guard;
        *count += 1;
        future::ready(item).boxed()
    });
    output.set_backpressure_depth(2);

    // The initial poll has happened: the input is registered and has nothing to return. Make as many items available
    // as fit in the output, and tell the pipe about them
    let waker = {
        let mut state = state.lock().unwrap();
        state.queue.push_back(1);
        state.queue.push_back(2);
        state.waker.take()
    };
    waker.ok_or_else(|| "The input was not polled by pipe()".to_string())?.wake();

    // The poll job was queued by the wake, so it has finished once this returns. Nobody has read from the output, so it's now full.
    let processed = obj.sync(|count| *count);
    if processed != 2 {
        return Err(format!("Expected 2 items to have been processed, found {}", processed));
    }
    if !state.lock().unwrap().queue.is_empty() {
        return Err("Input was not drained".to_string());
    }

    // Drop the output. The input says nothing more from here on
    drop(output);

    // The input stream and the closure must be dropped
    let mut seen = vec![];
    for _ in 0..2 {
        match dropped_rx.recv_timeout(Duration::from_secs(3)) {
            Ok(what)    => seen.push(what),
            Err(_)      => return Err(format!("Pipe was not shut down after its output was dropped (dropped so far: {:?})", seen))
        }
    }

    // The pipe's reference to the desync must be released
    drop(obj);
    let start = Instant::now();
    while weak_obj.upgrade().is_some() {
        if start.elapsed() > Duration::from_secs(3) {
            return Err("Pipe still holds a reference to the Desync".to_string());
        }
        thread::sleep(Duration::from_millis(5));
    }

    Ok(())
}

#[test]
fn dropping_full_pipe_output_releases_input() {
    // Run the scenario on its own thread so that a hang shows up as a failure
    let (done_tx, done_rx) = mpsc::channel();
    thread::spawn(move || {
        done_tx.send(drop_output_while_throttled()).ok();
    });

    match done_rx.recv_timeout(Duration::from_secs(15)) {
        Ok(Ok(()))      => { }
        Ok(Err(msg))    => panic!("{}", msg),
        Err(_)          => panic!("Scenario did not complete")
    }
}
