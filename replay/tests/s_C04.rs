//
// Demonstration for property C04: "sync always returns, with its own result, after running its closure once"
//
// Several threads call `sync` on a queue that is currently being run by another `sync` caller, so they all
// block in the 'wait for background' path. No pool thread is free (the pool is either empty or saturated by a
// blocked job), so when the runner finishes, the waiters have to run the queue themselves: one of them claims
// the queue, runs up to its own job and hands the queue on to the remaining waiters, and so on until every
// waiter has returned.
//
// Every `sync` call must return its own closure's value after running that closure exactly once.
//

extern crate desync;

use desync::scheduler::*;

use std::sync::*;
use std::sync::atomic::{AtomicUsize, Ordering};
use std::sync::mpsc::*;
use std::thread;
use std::time::{Duration, Instant};

const NUM_WAITERS: usize = 5;

///
/// Runs the scenario on the specified scheduler (which must have no free pool threads), returning the
/// values returned by the `sync` calls that completed in time (indexed by waiter) and the number of times each closure ran
///
fn blocked_syncs_all_return(scheduler: Arc<Scheduler>) -> (Vec<Option<usize>>, Vec<usize>) {
    let queue = scheduler.create_job_queue();

    // The runner: the queue is idle, so this sync runs immediately on its own thread and keeps the queue in the running state until released
    let (started_tx, started_rx)    = channel();
    let (release_tx, release_rx)    = channel::<()>();
    let runner_scheduler            = Arc::clone(&scheduler);
    let runner_queue                = Arc::clone(&queue);
    let runner                      = thread::spawn(move || {
        runner_scheduler.sync(&runner_queue, move || {
            started_tx.send(()).unwrap();
            release_rx.recv().ok();
            1000
        })
    });

    started_rx.recv().unwrap();

    // The waiters: the queue is running elsewhere, so these all queue their job and block
    let (done_tx, done_rx)  = channel();
    let run_counts          = (0..NUM_WAITERS).map(|_| Arc::new(AtomicUsize::new(0))).collect::<Vec<_>>();

    for waiter in 0..NUM_WAITERS {
        let waiter_scheduler    = Arc::clone(&scheduler);
        let waiter_queue        = Arc::clone(&queue);
        let done_tx             = done_tx.clone();
        let run_count           = Arc::clone(&run_counts[waiter]);

        thread::spawn(move || {
            let result = waiter_scheduler.sync(&waiter_queue, move || {
                run_count.fetch_add(1, Ordering::SeqCst);

                // Takes a little while, so any waiter that was woken up but didn't get to run the queue is blocked again by the time we finish
                thread::sleep(Duration::from_millis(40));
                waiter
            });

            done_tx.send((waiter, result)).ok();
        });

        // The waiters queue up in order
        thread::sleep(Duration::from_millis(30));
    }

    // Give all of the waiters time to block
    thread::sleep(Duration::from_millis(200));

    // The runner finishes: no pool thread can pick up the queue, so the waiters must run it
    release_tx.send(()).unwrap();
    assert!(runner.join().unwrap() == 1000);

    // All of the waiters should return their own result
    let mut results     = vec![None; NUM_WAITERS];
    let deadline        = Instant::now() + Duration::from_secs(5);

    for _ in 0..NUM_WAITERS {
        let now = Instant::now();
        if now >= deadline { break; }

        match done_rx.recv_timeout(deadline - now) {
            Ok((waiter, result))    => { results[waiter] = Some(result); }
            Err(_)                  => { break; }
        }
    }

    let run_counts = run_counts.iter().map(|count| count.load(Ordering::SeqCst)).collect();

    (results, run_counts)
}

fn check(results: Vec<Option<usize>>, run_counts: Vec<usize>) {
    println!("sync results: {:?}, closure run counts: {:?}", results, run_counts);

    for waiter in 0..NUM_WAITERS {
        assert!(results[waiter].is_some(), "sync call {} never returned (results: {:?}, closures run: {:?})", waiter, results, run_counts);
        assert!(results[waiter] == Some(waiter), "sync call {} returned the wrong result (results: {:?})", waiter, results);
        assert!(run_counts[waiter] == 1, "closure for sync call {} ran {} times", waiter, run_counts[waiter]);
    }
}

#[test]
fn blocked_syncs_all_return_with_no_pool_threads() {
    // Scheduler with no threads at all: only the callers of sync can run the queue
    let scheduler = Arc::new(Scheduler::new());
    scheduler.set_max_threads(0);
    scheduler.despawn_threads_if_overloaded();

    let (results, run_counts) = blocked_syncs_all_return(scheduler);
    check(results, run_counts);
}

#[test]
fn blocked_syncs_all_return_with_saturated_pool() {
    // Scheduler with a single thread, which is stuck running a job on another queue
    let scheduler = Arc::new(Scheduler::new());
    scheduler.set_max_threads(1);
    scheduler.despawn_threads_if_overloaded();

    let blocker_queue               = scheduler.create_job_queue();
    let (blocked_tx, blocked_rx)    = channel();
    let (unblock_tx, unblock_rx)    = channel::<()>();

    scheduler.desync(&blocker_queue, move || {
        blocked_tx.send(()).unwrap();
        unblock_rx.recv().ok();
    });
    blocked_rx.recv().unwrap();

    let (results, run_counts) = blocked_syncs_all_return(Arc::clone(&scheduler));

    // Free up the pool thread again
    unblock_tx.send(()).unwrap();

    check(results, run_counts);
}
