//
// Demonstration for C10 (different Desync objects make progress independently)
//
// A pool with a maximum of 2 threads. One object's job panics (that object is now dead, which is fine). After that, ONE
// other object blocks on an external gate: k = 1 < max = 2, so a third object must still be served, either by a free
// thread or by a thread the pool may still spawn.
//

extern crate desync;
extern crate futures;

use desync::Desync;
use desync::scheduler::*;

use std::mem;
use std::sync::*;
use std::sync::atomic::{AtomicBool, Ordering};
use std::sync::mpsc;
use std::thread;
use std::time::{Duration, Instant};

/// Waits for a flag to become set, returns false if it does not do so before the deadline
fn wait_for(flag: &AtomicBool, how_long: Duration) -> bool {
    let deadline = Instant::now() + how_long;

    while Instant::now() < deadline {
        if flag.load(Ordering::SeqCst) { return true; }
        thread::sleep(Duration::from_millis(5));
    }

    flag.load(Ordering::SeqCst)
}

#[test]
fn other_queues_progress_while_one_is_blocked_after_an_earlier_panic() {
    let scheduler = Scheduler::new();
    scheduler.set_max_threads(2);

    // Step 1: a job on queue A panics on a pool thread
    let queue_a     = scheduler.create_job_queue();
    let a_started   = Arc::new(AtomicBool::new(false));
    let a_started2  = Arc::clone(&a_started);

    scheduler.desync(&queue_a, move || {
        a_started2.store(true, Ordering::SeqCst);
        panic!("Job on queue A panics (this is an expected part of the demonstration)");
    });

    assert!(wait_for(&a_started, Duration::from_secs(5)), "Queue A never ran");

    // Give the panic plenty of time to finish unwinding
    thread::sleep(Duration::from_millis(300));
    println!("After panic:  {:?} / {:?}", scheduler, queue_a);

    // Step 2: queue B blocks on an external gate (k = 1 blocked object, pool maximum is 2)
    let queue_b             = scheduler.create_job_queue();
    let (open_gate, gate)   = mpsc::channel::<()>();
    let b_started           = Arc::new(AtomicBool::new(false));
    let b_started2          = Arc::clone(&b_started);

    scheduler.desync(&queue_b, move || {
        b_started2.store(true, Ordering::SeqCst);
        gate.recv().ok();
    });

    assert!(wait_for(&b_started, Duration::from_secs(5)), "Queue B never ran");
    println!("B blocked:    {:?}", scheduler);

    // Step 3: queue C must run while B is blocked
    let queue_c     = scheduler.create_job_queue();
    let c_ran       = Arc::new(AtomicBool::new(false));
    let c_ran2      = Arc::clone(&c_ran);

    scheduler.desync(&queue_c, move || { c_ran2.store(true, Ordering::SeqCst); });

    let mut c_finished = wait_for(&c_ran, Duration::from_secs(2));

    if !c_finished {
        // Nudge the scheduler with another scheduling call from yet another object (rules out the case where the pool merely
        // needed one more call to notice that the thread that ran A had gone away)
        let queue_d = scheduler.create_job_queue();
        scheduler.desync(&queue_d, move || { });

        c_finished = wait_for(&c_ran, Duration::from_secs(3));
    }

    println!("C scheduled:  {:?} / {:?}", scheduler, queue_c);

    // Open the gate so nothing is left blocked whatever the outcome
    open_gate.send(()).ok();

    assert!(c_finished, "Queue C did not run while queue B was blocked, though only 1 of a maximum of 2 threads is blocked");

    // sync on C is also served
    assert!(scheduler.sync(&queue_c, || 42) == 42);
}

#[test]
fn other_desyncs_progress_while_one_is_blocked_after_an_earlier_panic() {
    // Same thing using Desync objects on the global scheduler (this test file is the only user of it in this process)
    scheduler().set_max_threads(2);

    // An object whose job panics
    let panicker    = Desync::new(0);
    let panicked    = Arc::new(AtomicBool::new(false));
    let panicked2   = Arc::clone(&panicked);
    panicker.desync(move |_| {
        panicked2.store(true, Ordering::SeqCst);
        panic!("Desync job panics (this is an expected part of the demonstration)");
    });
    assert!(wait_for(&panicked, Duration::from_secs(5)), "Panicking job never ran");
    thread::sleep(Duration::from_millis(300));

    // Dropping a panicked Desync panics, so just leak it
    mem::forget(panicker);

    // An object that blocks on a gate
    let blocked             = Arc::new(Desync::new(0));
    let (open_gate, gate)   = mpsc::channel::<()>();
    let b_started           = Arc::new(AtomicBool::new(false));
    let b_started2          = Arc::clone(&b_started);
    blocked.desync(move |val| {
        b_started2.store(true, Ordering::SeqCst);
        gate.recv().ok();
        *val = 1;
    });
    assert!(wait_for(&b_started, Duration::from_secs(5)), "Blocking job never ran");

    // A third object should still be served
    let free    = Desync::new(0);
    let ran     = Arc::new(AtomicBool::new(false));
    let ran2    = Arc::clone(&ran);
    free.desync(move |val| { *val = 2; ran2.store(true, Ordering::SeqCst); });

    let mut finished = wait_for(&ran, Duration::from_secs(2));
    if !finished {
        let nudge = Desync::new(0);
        nudge.desync(|val| { *val = 3; });
        finished = wait_for(&ran, Duration::from_secs(3));

        // (Dropping 'nudge' syncs it on this thread, so this does not hang)
    }

    println!("{:?}", scheduler());
    open_gate.send(()).ok();

    assert!(finished, "A Desync did not run its job while a different Desync was blocked, though only 1 of a maximum of 2 threads is blocked");
    assert!(free.sync(|val| *val) == 2);
    assert!(blocked.sync(|val| *val) == 1);
}
