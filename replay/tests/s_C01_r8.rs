use ::desync::*;
use ::desync::scheduler::{scheduler};

use futures::prelude::*;
use futures::channel::oneshot;
use futures::task::{Context, Poll, noop_waker};

use std::pin::Pin;
use std::sync::{Arc, Mutex};
use std::sync::atomic::{AtomicUsize, Ordering};
use std::sync::mpsc;
use std::thread;
use std::time::Duration;

///
/// Tracks how many operations are inside the 'protected' section of a Desync at once
///
struct Occupancy {
    inside:     AtomicUsize,
    max_inside: AtomicUsize
}

impl Occupancy {
    fn enter(&self) {
        let now_inside = self.inside.fetch_add(1, Ordering::SeqCst) + 1;
        self.max_inside.fetch_max(now_inside, Ordering::SeqCst);
    }

    fn leave(&self) {
        self.inside.fetch_sub(1, Ordering::SeqCst);
    }
}

///
/// A future_desync() operation is polled once from the caller's thread while the pool has no threads (so the poll
/// drains the queue on the calling thread), then the pool gets some threads and carries on with the operation in the
/// background. The caller then loses interest in the result and detaches the future while the operation is still
/// running: the operation queued behind it must still wait for it to finish.
///
fn scenario(done: mpsc::Sender<(usize, Vec<&'static str>)>) {
    // No pool threads to start with: polling a future is the only way to make progress
    scheduler().set_max_threads(0);
    scheduler().despawn_threads_if_overloaded();

    let occupancy   = Arc::new(Occupancy { inside: AtomicUsize::new(0), max_inside: AtomicUsize::new(0) });
    let data        = Desync::new(());
    let order       = Arc::new(Mutex::new(vec![]));

    let (go, wait_for_go)           = oneshot::channel::<()>();
    let (entered, wait_for_entered) = mpsc::channel::<()>();

    // First operation: waits for an external event and then spends some time working on the data
    let first_occupancy = Arc::clone(&occupancy);
    let first_order     = Arc::clone(&order);
    let mut first       = data.future_desync(move |_| {
        async move {
            wait_for_go.await.ok();

            first_occupancy.enter();
            entered.send(()).ok();
            thread::sleep(Duration::from_millis(400));
            first_order.lock().unwrap().push("first");
            first_occupancy.leave();
        }.boxed()
    });

    // Poll it once from this thread: it starts on this thread and suspends at the await
    let waker       = noop_waker();
    let mut context = Context::from_waker(&waker);
    assert!(Pin::new(&mut first).poll(&mut context) == Poll::Pending);

    // The pool gets its threads back and picks up the suspended queue
    scheduler().set_max_threads(2);
    thread::sleep(Duration::from_millis(100));

    // Second operation, queued behind the first
    let second_occupancy = Arc::clone(&occupancy);
    let second_order     = Arc::clone(&order);
    data.desync(move |_| {
        second_occupancy.enter();
        thread::sleep(Duration::from_millis(100));
        second_order.lock().unwrap().push("second");
        second_occupancy.leave();
    });

    // Let the first operation continue, and wait for it to be in the middle of its work
    go.send(()).ok();
    wait_for_entered.recv_timeout(Duration::from_secs(3)).expect("First operation never resumed");

    // We're not interested in the result any more
    first.detach();

    // Wait for both operations to finish
    for _ in 0..150 {
        if order.lock().unwrap().len() == 2 && occupancy.inside.load(Ordering::SeqCst) == 0 { break; }
        thread::sleep(Duration::from_millis(20));
    }

    // Report what happened (before the Desync is dropped, which synchronises with its queue once more)
    let order = order.lock().unwrap().clone();
    done.send((occupancy.max_inside.load(Ordering::SeqCst), order)).ok();
}

#[test]
fn detached_future_still_excludes_later_operations() {
    // Run the scenario with a watchdog
    let (done, wait_for_done) = mpsc::channel();

    thread::spawn(move || {
        scenario(done);
    });

    let (max_inside, order) = wait_for_done.recv_timeout(Duration::from_secs(5)).expect("Scenario timed out");

    assert!(max_inside == 1, "{} operations were running on the same Desync at once", max_inside);
    assert!(order == vec!["first", "second"], "Operations ran as {:?}", order);
}
