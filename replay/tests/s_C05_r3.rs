//
// Demonstration for seed C05: dropping a Desync must wait for every operation that was scheduled on it
// beforehand (including a future that is currently suspended) before it destroys the protected value.
//
// Scenario (public API only, hand-rolled futures):
//
//  1. A future job is polled by a `sync()` caller that drains the queue on its own thread. The waker it is
//     handed (a 'wake this thread' waker belonging to the queue) is kept. Keeping and later invoking an old
//     waker is allowed by the `Future` contract (it is just a spurious wake).
//  2. A second future is scheduled. It is polled by a pool thread, returns `Pending`, and the queue suspends
//     with that future at its head.
//  3. The old waker from step 1 is invoked. The queue is marked as woken (idle, but with the suspended future
//     still at its head) and is waiting for somebody to pick it up again.
//  4. The last owner of the Desync is dropped. The drop must poll the suspended future to completion (on the
//     dropping thread) before it destroys the value. The test releases the future shortly afterwards.
//
// The suspended future must never be polled after the value has been destroyed, and must have completed by
// the time `drop` returns.
//

extern crate desync;
extern crate futures;

use desync::Desync;

use futures::prelude::*;
use futures::task::{Context, Poll, Waker};

use std::pin::Pin;
use std::sync::atomic::{AtomicBool, AtomicUsize, Ordering};
use std::sync::mpsc;
use std::sync::{Arc, Mutex};
use std::thread;
use std::time::{Duration, Instant};

///
/// The protected value: records when it's destroyed
///
struct Tracked {
    destroyed:  Arc<AtomicBool>,
    drop_count: Arc<AtomicUsize>,
}

impl Drop for Tracked {
    fn drop(&mut self) {
        self.destroyed.store(true, Ordering::SeqCst);
        self.drop_count.fetch_add(1, Ordering::SeqCst);
    }
}

///
/// Future that completes immediately, but records the waker it was polled with and the thread that polled it
///
struct CaptureWaker {
    captured: Arc<Mutex<Option<(Waker, thread::ThreadId)>>>,
}

impl Future for CaptureWaker {
    type Output = ();

    fn poll(self: Pin<&mut Self>, context: &mut Context) -> Poll<()> {
        *self.captured.lock().unwrap() = Some((context.waker().clone(), thread::current().id()));
        Poll::Ready(())
    }
}

///
/// Shared state of the future that suspends the queue
///
struct GateState {
    /// Number of times the future has been polled
    polls: usize,

    /// The most recent waker the future was polled with
    waker: Option<Waker>,

    /// Set to true to let the future complete
    release: bool,

    /// Set once the future has returned Ready
    completed: bool,

    /// Set if the future was polled after the protected value was destroyed
    polled_after_destroy: bool,
}

///
/// Future that stays pending until released. It holds the `&mut Tracked` borrow for as long as it lives,
/// like any `future_desync` operation does
///
struct Gate<'a> {
    _value:     &'a mut Tracked,
    destroyed:  Arc<AtomicBool>,
    state:      Arc<Mutex<GateState>>,
}

impl<'a> Future for Gate<'a> {
    type Output = ();

    fn poll(self: Pin<&mut Self>, context: &mut Context) -> Poll<()> {
        let mut state = self.state.lock().unwrap();

        state.polls += 1;
        state.waker = Some(context.waker().clone());

        if self.destroyed.load(Ordering::SeqCst) {
            // The value we have borrowed is gone: don't touch it, just report and finish
            state.polled_after_destroy  = true;
            state.completed             = true;
            return Poll::Ready(());
        }

        if state.release {
            state.completed = true;
            Poll::Ready(())
        } else {
            Poll::Pending
        }
    }
}

///
/// Waits for a condition to become true (false if it doesn't within the timeout)
///
fn wait_for<F: Fn() -> bool>(timeout: Duration, condition: F) -> bool {
    let start = Instant::now();

    while !condition() {
        if start.elapsed() > timeout {
            return false;
        }
        thread::sleep(Duration::from_millis(2));
    }

    true
}

///
/// Obtains a Desync along with a stale 'wake thread' waker for its queue, by having a `sync()` on this thread
/// drain a future job. (If a pool thread happens to get to the job first we just try again with a new object)
///
fn desync_with_thread_waker(destroyed: &Arc<AtomicBool>, drop_count: &Arc<AtomicUsize>) -> (Desync<Tracked>, Waker) {
    for _attempt in 0..1000 {
        destroyed.store(false, Ordering::SeqCst);
        drop_count.store(0, Ordering::SeqCst);

        let desync      = Desync::new(Tracked { destroyed: Arc::clone(destroyed), drop_count: Arc::clone(drop_count) });
        let captured    = Arc::new(Mutex::new(None));
        let job_capture = Arc::clone(&captured);

        desync.future_desync(move |_| { CaptureWaker { captured: job_capture }.boxed() }).detach();
        desync.sync(|_| { });

        let (waker, polling_thread) = captured.lock().unwrap().take().expect("Future job ran before the sync returned");

        if polling_thread == thread::current().id() {
            return (desync, waker);
        }

        // Polled by a pool thread: this waker is not the kind we're after
        mem_drop_checked(desync, destroyed, drop_count);
    }

    panic!("Never got to drain a future job from sync()");
}

fn mem_drop_checked(desync: Desync<Tracked>, destroyed: &Arc<AtomicBool>, drop_count: &Arc<AtomicUsize>) {
    drop(desync);
    assert!(destroyed.load(Ordering::SeqCst));
    assert!(drop_count.load(Ordering::SeqCst) == 1);
}

///
/// Runs the scenario once. Returns an error string describing the violation if there is one
///
fn run_scenario() -> Result<(), String> {
    let destroyed   = Arc::new(AtomicBool::new(false));
    let drop_count  = Arc::new(AtomicUsize::new(0));

    // Step 1: get hold of an old waker for the queue
    let (desync, old_waker) = desync_with_thread_waker(&destroyed, &drop_count);

    // Step 2: suspend the queue on a future
    let gate_state = Arc::new(Mutex::new(GateState { polls: 0, waker: None, release: false, completed: false, polled_after_destroy: false }));

    let job_state       = Arc::clone(&gate_state);
    let job_destroyed   = Arc::clone(&destroyed);
    desync.future_desync(move |value| {
        Gate { _value: value, destroyed: job_destroyed, state: job_state }.boxed()
    }).detach();

    if !wait_for(Duration::from_secs(10), || gate_state.lock().unwrap().polls >= 1) {
        return Err("Suspending future was never polled".to_string());
    }

    // Give the pool thread time to finish suspending the queue
    thread::sleep(Duration::from_millis(100));

    // Step 3: spurious wake via the old waker
    old_waker.wake();
    thread::sleep(Duration::from_millis(20));

    // Releases the future once the drop has had a chance to pick it up (or the value has been destroyed, or after a while regardless)
    let releaser_state      = Arc::clone(&gate_state);
    let releaser_destroyed  = Arc::clone(&destroyed);
    let releaser            = thread::spawn(move || {
        wait_for(Duration::from_secs(3), || releaser_state.lock().unwrap().polls >= 2 || releaser_destroyed.load(Ordering::SeqCst));
        thread::sleep(Duration::from_millis(50));

        // Release, and keep waking whatever the latest waker is until the future completes
        for _ in 0..200 {
            let waker = {
                let mut state = releaser_state.lock().unwrap();
                state.release = true;
                if state.completed { break; }
                state.waker.clone()
            };
            waker.map(|waker| waker.wake());
            thread::sleep(Duration::from_millis(20));
        }
    });

    // Step 4: drop the last owner (on its own thread, so we can time out if it never returns)
    let (drop_done, on_drop_done)   = mpsc::channel();
    let dropper_state               = Arc::clone(&gate_state);
    thread::spawn(move || {
        drop(desync);
        let completed_at_drop = dropper_state.lock().unwrap().completed;
        drop_done.send(completed_at_drop).ok();
    });

    let completed_at_drop = match on_drop_done.recv_timeout(Duration::from_secs(15)) {
        Ok(completed_at_drop)   => completed_at_drop,
        Err(_)                  => return Err("Dropping the Desync never returned".to_string())
    };

    // Let anything that was rescheduled in the background run
    releaser.join().ok();
    thread::sleep(Duration::from_millis(100));

    let state = gate_state.lock().unwrap();

    if !destroyed.load(Ordering::SeqCst) || drop_count.load(Ordering::SeqCst) != 1 {
        return Err(format!("Value destroyed {} times", drop_count.load(Ordering::SeqCst)));
    }
    if state.polled_after_destroy {
        return Err("An operation scheduled before the drop was polled after the value was destroyed".to_string());
    }
    if !completed_at_drop {
        return Err("Drop returned before an operation scheduled before it had finished".to_string());
    }

    Ok(())
}

#[test]
fn drop_waits_for_suspended_future_after_stale_wake() {
    for iteration in 0..3 {
        if let Err(problem) = run_scenario() {
            panic!("iteration {}: {}", iteration, problem);
        }
    }
}
