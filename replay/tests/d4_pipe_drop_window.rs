//! Replay of finding D4: the producing poll job of `pipe` registers for "output stream dropped" without
//! re-checking `closed`; an output stream dropped between the job's loop top and that registration wakes
//! nobody, so with a silent input the input stream and the processing closure are never dropped.
use desync::{Desync, pipe};
use ::desync::scheduler::verif_hooks;
use futures::prelude::*;
use futures::task::{Context, Poll, Waker};
use std::pin::Pin;
use std::sync::*;
use std::sync::atomic::{AtomicBool, AtomicUsize, Ordering};
use std::thread;
use std::time::Duration;

/// an input that never yields anything; remembers the waker it was given and tells when it is dropped
struct SilentInput { waker: Arc<Mutex<Option<Waker>>>, dropped: Arc<AtomicBool>, polls: Arc<AtomicUsize> }
impl Stream for SilentInput {
    type Item = u32;
    fn poll_next(self: Pin<&mut Self>, cx: &mut Context) -> Poll<Option<u32>> {
        *self.waker.lock().unwrap() = Some(cx.waker().clone());
        self.polls.fetch_add(1, Ordering::SeqCst);
        Poll::Pending
    }
}
impl Drop for SilentInput { fn drop(&mut self) { self.dropped.store(true, Ordering::SeqCst); } }

#[test]
fn dropping_output_stream_during_poll_job_releases_input() {
    let waker   = Arc::new(Mutex::new(None));
    let dropped = Arc::new(AtomicBool::new(false));
    let polls   = Arc::new(AtomicUsize::new(0));
    let input   = SilentInput { waker: waker.clone(), dropped: dropped.clone(), polls: polls.clone() };

    let target = Arc::new(Desync::new(0u32));
    let output = pipe(Arc::clone(&target), input, |_, x: u32| future::ready(x).boxed());
    assert_eq!(polls.load(Ordering::SeqCst), 1);

    // hold the next poll job between "input polled: Pending" and "register for stream-closed"
    let at_point = Arc::new((Mutex::new(false), Condvar::new()));
    let release  = Arc::new((Mutex::new(false), Condvar::new()));
    {
        let at_point = at_point.clone(); let release = release.clone();
        verif_hooks::set_callback(Some(Arc::new(move |name: &str| {
            if name == "pipe:before_register_closed" {
                { *at_point.0.lock().unwrap() = true; at_point.1.notify_all(); }
                let mut r = release.0.lock().unwrap();
                while !*r { r = release.1.wait(r).unwrap(); }
            }
        })));
    }

    // a (spurious) wake-up from the input starts a second poll job on a pool thread
    let w = waker.lock().unwrap().take().expect("input was polled");
    w.wake();
    { let mut p = at_point.0.lock().unwrap(); while !*p { p = at_point.1.wait(p).unwrap(); } }

    // the consumer goes away right now
    drop(output);

    // let the poll job continue; the input stays silent from here on
    { *release.0.lock().unwrap() = true; release.1.notify_all(); }
    verif_hooks::set_callback(None);

    for _ in 0..200 { if dropped.load(Ordering::SeqCst) { break; } thread::sleep(Duration::from_millis(10)); }
    println!("REPLAY input_polls={} input_dropped={} target_strong_count={}", polls.load(Ordering::SeqCst), dropped.load(Ordering::SeqCst), Arc::strong_count(&target));
    assert!(dropped.load(Ordering::SeqCst), "output stream dropped, input silent: the input stream (and processing closure) were never released");
}
