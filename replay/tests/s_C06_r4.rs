//
// Demonstration for C06: a wake-up for a suspended future operation is never lost.
//
// A future job is run on a pool thread of a private scheduler. Every time it is polled it hands its waker
// to a helper thread and returns Pending; the helper thread fires that waker exactly once, a (swept) handful
// of nanoseconds after the poll has returned. So each wake-up lands somewhere around the moment the pool thread
// is parking the queue (during the poll, between the poll and the park, just after the park). Every one of those
// wake-ups must cause the job to be polled again. Nothing else ever touches the queue, so a single lost wake-up
// leaves the operation suspended forever, which the test detects as a stall.
//

use desync::scheduler::*;

use futures::task::{Context, Poll, Waker};

use std::future::Future;
use std::pin::Pin;
use std::sync::atomic::{AtomicBool, AtomicUsize, Ordering};
use std::sync::{Arc, Mutex};
use std::thread;
use std::time::{Duration, Instant};

/// Number of suspend/wake cycles to go through
const CYCLES: usize = 150_000;

/// How long a single test is allowed to run for before the job gives up suspending itself
const MAX_RUN_TIME: Duration = Duration::from_secs(8);

/// If the job is not polled again this long after it was suspended, the wake-up is considered lost
const STALL_TIME: Duration = Duration::from_secs(3);

struct Shared {
    /// The waker from the most recent poll
    waker: Mutex<Option<Waker>>,

    /// Incremented by the job at the very end of every poll that returns Pending
    polls: AtomicUsize,

    /// Set once the job has completed
    done: AtomicBool,

    /// Set to make the job finish the next time it's polled (bounds the run time)
    finish_now: AtomicBool,

    /// Set to stop the helper thread
    stop: AtomicBool,
}

///
/// Future that suspends itself `remaining` times, waiting for an external wake-up every time
///
struct Cycler {
    remaining:  usize,
    shared:     Arc<Shared>,
}

impl Future for Cycler {
    type Output = ();

    fn poll(mut self: Pin<&mut Self>, context: &mut Context) -> Poll<()> {
        if self.remaining == 0 || self.shared.finish_now.load(Ordering::SeqCst) {
            self.shared.done.store(true, Ordering::SeqCst);
            return Poll::Ready(());
        }

        self.remaining -= 1;

        // Hand the waker to the helper thread, then signal that we're about to return Pending
        *self.shared.waker.lock().unwrap() = Some(context.waker().clone());
        self.shared.polls.fetch_add(1, Ordering::SeqCst);

        Poll::Pending
    }
}

fn run_once(pool_threads: usize) -> Result<usize, String> {
    let scheduler   = Arc::new(Scheduler::new());
    scheduler.set_max_threads(pool_threads);

    let queue       = scheduler.create_job_queue();
    let shared      = Arc::new(Shared {
        waker:      Mutex::new(None),
        polls:      AtomicUsize::new(0),
        done:       AtomicBool::new(false),
        finish_now: AtomicBool::new(false),
        stop:       AtomicBool::new(false),
    });

    // The helper thread: fires the waker of every poll exactly once, shortly after the poll signalled it
    let helper = {
        let shared = Arc::clone(&shared);

        thread::spawn(move || {
            let mut seen = 0;

            loop {
                // Wait for the next poll
                let mut polls;
                loop {
                    polls = shared.polls.load(Ordering::SeqCst);
                    if polls != seen { break; }
                    if shared.stop.load(Ordering::SeqCst) { return; }
                    std::hint::spin_loop();
                }
                seen = polls;

                // Sweep the moment the wake-up fires
                for _ in 0..(polls % 48) {
                    std::hint::spin_loop();
                }

                // The external event: wake the suspended operation (once)
                let waker = shared.waker.lock().unwrap().take();
                if let Some(waker) = waker {
                    waker.wake();
                }
            }
        })
    };

    // Start the operation in the background: it runs on a pool thread. We never poll the returned future or
    // schedule anything else, so only the wake-ups can make it progress
    {
        let shared = Arc::clone(&shared);
        scheduler.future_desync(&queue, move || Cycler { remaining: CYCLES, shared: shared }).detach();
    }

    // Watch for progress
    let start               = Instant::now();
    let mut last_polls      = 0;
    let mut last_progress   = Instant::now();
    let result;

    loop {
        thread::sleep(Duration::from_millis(5));

        if shared.done.load(Ordering::SeqCst) {
            result = Ok(shared.polls.load(Ordering::SeqCst));
            break;
        }

        let polls = shared.polls.load(Ordering::SeqCst);
        if polls != last_polls {
            last_polls      = polls;
            last_progress   = Instant::now();
        } else if last_progress.elapsed() > STALL_TIME {
            // If the waker was never taken by the helper thread then it's the helper that is stuck and not the queue
            let waker_fired = shared.waker.lock().unwrap().is_none();

            result = Err(format!("operation was woken after poll #{} (wake-up fired: {}) but was never polled again; queue is '{:?}', scheduler is '{:?}'", polls, waker_fired, queue, scheduler));
            break;
        }

        if start.elapsed() > MAX_RUN_TIME {
            shared.finish_now.store(true, Ordering::SeqCst);
        }
    }

    shared.stop.store(true, Ordering::SeqCst);
    helper.join().unwrap();

    result
}

#[test]
fn wake_up_around_the_moment_a_pool_thread_parks_the_queue_is_never_lost() {
    match run_once(2) {
        Ok(polls)   => { println!("completed after {} suspensions", polls); }
        Err(msg)    => { panic!("{}", msg); }
    }
}
