//
// Demonstration for C13: a suspended queue holds later work until resumed, then continues in order.
//
// The queue is being drained by a polled future (the 'local drain' runner: the pool's only thread was busy when
// the work was scheduled, so polling the future runs the queue on the polling thread) when it reaches the
// suspension point. The future that was doing the draining is then abandoned. After the resumer is used, the held
// operations must run, in order, on the pool, and a sync() issued during the suspension must complete.
//
extern crate desync;
extern crate futures;

use desync::scheduler::*;

use futures::future::FutureExt;

use std::sync::*;
use std::sync::mpsc;
use std::thread;
use std::time::{Duration, Instant};

///
/// Waits (for up to 5 seconds) for the scheduler to have no queues waiting in its schedule
///
fn wait_for_empty_schedule(scheduler: &Scheduler) {
    let start = Instant::now();

    while !format!("{:?}", scheduler).ends_with("Pending queue count: 0") {
        if start.elapsed() > Duration::from_secs(5) { break; }
        thread::sleep(Duration::from_millis(1));
    }
}

#[test]
fn held_operations_run_after_resume_when_the_draining_future_was_abandoned() {
    // Private scheduler with a single thread
    let scheduler = Arc::new(Scheduler::new());
    scheduler.set_max_threads(1);

    let queue   = scheduler.create_job_queue();
    let log     = Arc::new(Mutex::new(vec![]));

    // Keep the pool's thread busy with another queue for the moment
    let other_queue                     = scheduler.create_job_queue();
    let (blocking_tx, blocking_rx)      = mpsc::channel();
    let (unblock_tx, unblock_rx)        = mpsc::channel::<()>();
    scheduler.desync(&other_queue, move || { blocking_tx.send(()).ok(); unblock_rx.recv().ok(); });
    blocking_rx.recv_timeout(Duration::from_secs(5)).expect("Pool thread never started");

    // An operation scheduled before the suspend request. It lets the other queue finish, and takes a little while itself
    // (long enough for the pool thread to go back to sleep: it finds nothing to do as our queue is already being run)
    let log2            = Arc::clone(&log);
    let op_scheduler    = Arc::clone(&scheduler);
    scheduler.desync(&queue, move || {
        unblock_tx.send(()).ok();
        wait_for_empty_schedule(&*op_scheduler);
        thread::sleep(Duration::from_millis(50));
        log2.lock().unwrap().push(0);
    });

    // Request the suspension, then schedule something that returns a value via a future
    let suspended   = scheduler.suspend(&queue);
    let log2        = Arc::clone(&log);
    let later_value = scheduler.future_desync(&queue, move || { async move { log2.lock().unwrap().push(1); 1 } });

    // 'Is the value there yet?': polls once (which drains the queue on this thread as far as the suspension), then gives up on the future
    assert!(later_value.now_or_never().is_none(), "Value was generated while the queue should have been suspended");

    // The queue is suspended now: the suspend future resolves without needing to run anything else
    let resumer = suspended.now_or_never().expect("Queue should have reached the suspension point").expect("Suspend cancelled");
    assert!(*log.lock().unwrap() == vec![0], "Operation before the suspension should have run, and nothing else: {:?}", log.lock().unwrap());

    // Operations scheduled during the suspension
    for op in 2..5 {
        let log2 = Arc::clone(&log);
        scheduler.desync(&queue, move || { log2.lock().unwrap().push(op); });
    }

    // A sync() made during the suspension
    let (sync_done_tx, sync_done_rx)    = mpsc::channel();
    let sync_scheduler                  = Arc::clone(&scheduler);
    let sync_queue                      = Arc::clone(&queue);
    let sync_log                        = Arc::clone(&log);
    thread::spawn(move || {
        let seen = sync_scheduler.sync(&sync_queue, move || { let mut log = sync_log.lock().unwrap(); log.push(5); log.clone() });
        sync_done_tx.send(seen).ok();
    });

    // Nothing overtakes while suspended
    thread::sleep(Duration::from_millis(200));
    assert!(*log.lock().unwrap() == vec![0], "Held operations ran while the queue was suspended: {:?}", log.lock().unwrap());
    assert!(sync_done_rx.try_recv().is_err(), "sync() overtook the suspension");
    println!("Suspended: {:?} / {:?}", queue, scheduler);

    // Resume the queue
    resumer.resume();

    // The held operations run in order and the sync completes
    let seen = sync_done_rx.recv_timeout(Duration::from_secs(5));
    let seen = seen.unwrap_or_else(|_| panic!("Queue never continued after it was resumed (queue: {:?}, scheduler: {:?}, log: {:?})", queue, scheduler, log.lock().unwrap()));

    assert!(seen == vec![0, 1, 2, 3, 4, 5], "Held operations ran out of order: {:?}", seen);
}
