//! Replay of finding D3: a queue scheduled while the only pool thread is inside its "fetch next queue"
//! section (busy lock held, schedule already found empty) is stranded: schedule_dormant treats the held
//! lock as "busy", the pool is at its maximum, and the thread then goes dormant.
use desync::scheduler::*;
use std::sync::*;
use std::sync::atomic::{AtomicBool, AtomicUsize, Ordering};
use std::thread;
use std::time::Duration;

#[test]
fn work_scheduled_while_pool_thread_goes_dormant_still_runs() {
    let sched = Arc::new(Scheduler::new());
    sched.set_max_threads(1);
    sched.despawn_threads_if_overloaded();
    let q1 = sched.create_job_queue();
    let q2 = sched.create_job_queue();
    let ran = Arc::new(AtomicUsize::new(0));

    let at_point = Arc::new((Mutex::new(0usize), Condvar::new()));
    let release  = Arc::new((Mutex::new(false), Condvar::new()));
    let armed    = Arc::new(AtomicBool::new(false));
    {
        let at_point = at_point.clone(); let release = release.clone(); let armed = armed.clone();
        verif_hooks::set_callback(Some(Arc::new(move |name: &str| {
            // hold the pool thread inside its fetch section the second time it fetches (the schedule is empty then)
            if name == "dormant:after_next_job" && armed.load(Ordering::SeqCst) {
                let n = { let mut p = at_point.0.lock().unwrap(); *p += 1; at_point.1.notify_all(); *p };
                if n == 2 {
                    let mut r = release.0.lock().unwrap();
                    while !*r { r = release.1.wait(r).unwrap(); }
                }
            }
        })));
    }

    // first job: spawns the single pool thread; it runs the job, fetches again (empty) and is held there
    armed.store(true, Ordering::SeqCst);
    { let ran = ran.clone(); sched.desync(&q1, move || { ran.fetch_add(1, Ordering::SeqCst); }); }
    { let mut p = at_point.0.lock().unwrap(); while *p < 2 { p = at_point.1.wait(p).unwrap(); } }
    armed.store(false, Ordering::SeqCst);

    // the pool thread is let go 300ms from now by a helper (a scheduler that waits for the thread's busy lock
    // must not be blocked for ever by this harness)
    let helper = { let release = release.clone(); thread::spawn(move || {
        thread::sleep(Duration::from_millis(300));
        *release.0.lock().unwrap() = true; release.1.notify_all();
    }) };

    // second job on another queue, scheduled while the pool thread is in the window
    { let ran = ran.clone(); sched.desync(&q2, move || { ran.fetch_add(10, Ordering::SeqCst); }); }
    let during = format!("{:?}", q2);

    // the pool thread finishes going dormant
    helper.join().unwrap();
    verif_hooks::set_callback(None);

    // no further API call: the second job must still run (pool maximum is 1, i.e. at least one thread is allowed)
    for _ in 0..300 { if ran.load(Ordering::SeqCst) == 11 { break; } thread::sleep(Duration::from_millis(10)); }
    let end = format!("{:?} / {:?}", q2, sched);
    println!("REPLAY during=[{}] end=[{}] ran={}", during, end, ran.load(Ordering::SeqCst));
    assert_eq!(ran.load(Ordering::SeqCst), 11, "job scheduled during the dormant window was stranded: {}", end);
}
