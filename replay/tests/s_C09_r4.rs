//
// Demonstration for property C09: try_sync never blocks, never half-runs and never disturbs the queue.
//
// One thread (the 'prober') does nothing but call try_sync() in a tight loop. Another thread repeatedly
// queues a single desync() job and waits for it to complete. try_sync() is only ever allowed to run its own
// closure, so no queued job can ever execute on the prober thread: if one does, try_sync() has stopped being
// a non-blocking 'run now or report Busy' call and has instead drained (waited for) other operations that
// were queued on the object.
//
// The evidence is not timing based: each job records the thread it ran on.
//

use desync::Desync;
use desync::scheduler::*;

use std::sync::*;
use std::sync::atomic::{AtomicBool, AtomicUsize, Ordering};
use std::thread;
use std::time::{Duration, Instant};

const MAX_ROUNDS: usize     = 40_000;
const TIME_LIMIT: Duration  = Duration::from_secs(5);

///
/// Runs the probe: `try_it` performs one try_sync (returning true if it ran), `queue_job` schedules one job on the same object
///
fn probe<TryFn, QueueFn>(try_it: TryFn, queue_job: QueueFn) -> (usize, usize, usize, usize)
where
    TryFn:      'static + Send + Fn() -> bool,
    QueueFn:    Fn(Box<dyn FnOnce() + Send>),
{
    let stop            = Arc::new(AtomicBool::new(false));
    let jobs_done       = Arc::new(AtomicUsize::new(0));
    let on_prober       = Arc::new(AtomicUsize::new(0));
    let (id_tx, id_rx)  = mpsc::channel();

    // The prober: only ever calls try_sync
    let prober_stop = Arc::clone(&stop);
    let prober      = thread::spawn(move || {
        id_tx.send(thread::current().id()).unwrap();

        let mut ran     = 0usize;
        let mut busy    = 0usize;

        while !prober_stop.load(Ordering::Relaxed) {
            if try_it() { ran += 1; } else { busy += 1; }
        }

        (ran, busy)
    });

    let prober_id = id_rx.recv().unwrap();

    // The producer: one job at a time, each recording whether it ran on the prober's thread
    let start       = Instant::now();
    let mut rounds  = 0;
    let mut seed    = 0x2545f491u32;

    while rounds < MAX_ROUNDS && start.elapsed() < TIME_LIMIT && on_prober.load(Ordering::SeqCst) == 0 {
        // Vary where the job lands relative to the prober's loop
        seed ^= seed << 13; seed ^= seed >> 17; seed ^= seed << 5;
        for _ in 0..(seed % 64) { std::hint::spin_loop(); }

        let jobs_done_in_job    = Arc::clone(&jobs_done);
        let on_prober_in_job    = Arc::clone(&on_prober);

        queue_job(Box::new(move || {
            if thread::current().id() == prober_id {
                on_prober_in_job.fetch_add(1, Ordering::SeqCst);
            }
            jobs_done_in_job.fetch_add(1, Ordering::SeqCst);
        }));
        rounds += 1;

        // Wait for the job to finish before queueing the next one
        let wait_start = Instant::now();
        while jobs_done.load(Ordering::SeqCst) < rounds {
            if wait_start.elapsed() > Duration::from_secs(5) {
                stop.store(true, Ordering::SeqCst);
                panic!("A queued job never completed (round {})", rounds);
            }
            thread::yield_now();
        }
    }

    stop.store(true, Ordering::SeqCst);
    let (ran, busy) = prober.join().unwrap();

    (rounds, ran, busy, on_prober.load(Ordering::SeqCst))
}

#[test]
fn try_sync_never_runs_queued_jobs_scheduler() {
    for pool_size in 1..=3 {
        let scheduler   = Arc::new(Scheduler::new());
        scheduler.set_max_threads(pool_size);

        let queue       = scheduler.create_job_queue();

        let try_scheduler   = Arc::clone(&scheduler);
        let try_queue       = Arc::clone(&queue);

        let (rounds, ran, busy, on_prober) = probe(
            move || try_scheduler.try_sync(&try_queue, || { }).is_ok(),
            |job| scheduler.desync(&queue, job));

        println!("pool {}: {} jobs queued, try_sync ran {} times and was busy {} times, {} jobs ran on the try_sync thread", pool_size, rounds, ran, busy, on_prober);

        // Everything that was queued must be finished by now
        scheduler.sync(&queue, || { });
        println!("{:?} / {:?}", queue, scheduler);

        assert!(on_prober == 0, "pool size {}: try_sync() ran {} job(s) that were queued by desync() on its own thread (after {} jobs): it waited for the queue instead of returning Busy", pool_size, on_prober, rounds);
    }
}

#[test]
fn try_sync_never_runs_queued_jobs_desync() {
    let data        = Arc::new(Desync::new(0u64));
    let try_data    = Arc::clone(&data);

    let (rounds, ran, busy, on_prober) = probe(
        move || try_data.try_sync(|val| { *val += 1; }).is_ok(),
        |job| data.desync(move |_val| job()));

    println!("desync: {} jobs queued, try_sync ran {} times and was busy {} times, {} jobs ran on the try_sync thread", rounds, ran, busy, on_prober);

    // Every successful try_sync ran its closure exactly once
    assert!(data.sync(|val| *val) == ran as u64);
    assert!(on_prober == 0, "Desync::try_sync() ran {} job(s) that were queued by desync() on its own thread (after {} jobs): it waited for the queue instead of returning Busy", on_prober, rounds);
}
