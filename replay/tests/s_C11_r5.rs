//
// Demonstration for C11: pipe_in must stop and release the stream and the processing closure once the
// input stream ends, whatever the arrival pattern of the items and of the end-of-stream.
//
// The streams used here keep hold of the most recent waker they were polled with (as `FuturesUnordered`,
// `select_all`, `buffer_unordered`, ... do: they register the waker at the top of every `poll_next`,
// including the call that returns `Ready(None)`). If the pipe fails to notice that the stream has ended
// it keeps its poll function, and stream -> waker -> pipe context -> poll function -> stream is then a
// cycle that nothing will ever break.
//

extern crate desync;
extern crate futures;

use desync::*;

use futures::prelude::*;
use futures::future;
use futures::channel::oneshot;
use futures::stream::{FuturesUnordered};
use futures::task::{Context, Poll, Waker};

use std::collections::VecDeque;
use std::pin::Pin;
use std::sync::*;
use std::sync::atomic::{AtomicBool, Ordering};
use std::thread;
use std::time::{Duration, Instant};

/// Sets a flag when it is dropped
struct DropFlag(Arc<AtomicBool>);

impl Drop for DropFlag {
    fn drop(&mut self) { self.0.store(true, Ordering::SeqCst); }
}

fn drop_flag() -> (DropFlag, Arc<AtomicBool>) {
    let flag = Arc::new(AtomicBool::new(false));
    (DropFlag(Arc::clone(&flag)), flag)
}

/// Waits (up to 2s) for a flag to become set
fn wait_for(flag: &Arc<AtomicBool>) -> bool {
    let start = Instant::now();
    while start.elapsed() < Duration::from_secs(2) {
        if flag.load(Ordering::SeqCst) { return true; }
        thread::sleep(Duration::from_millis(5));
    }
    flag.load(Ordering::SeqCst)
}

struct Shared {
    items:  VecDeque<u32>,
    closed: bool,
    waker:  Option<Waker>
}

/// The producer side of a hand-rolled stream
#[derive(Clone)]
struct Feeder(Arc<Mutex<Shared>>);

/// The consumer side: remembers the latest waker on every poll
struct FedStream(Arc<Mutex<Shared>>, #[allow(dead_code)] DropFlag);

impl Feeder {
    /// Makes some items (and possibly the end of the stream) available in one step, then notifies the stream
    fn feed(&self, items: &[u32], close: bool) {
        let waker = {
            let mut shared = self.0.lock().unwrap();
            shared.items.extend(items.iter().cloned());
            shared.closed = shared.closed || close;
            shared.waker.take()
        };

        waker.map(|waker| waker.wake());
    }
}

impl Stream for FedStream {
    type Item = u32;

    fn poll_next(self: Pin<&mut Self>, context: &mut Context) -> Poll<Option<u32>> {
        let mut shared = self.0.lock().unwrap();

        // Always remember who is interested in us
        shared.waker = Some(context.waker().clone());

        if let Some(item) = shared.items.pop_front() {
            Poll::Ready(Some(item))
        } else if shared.closed {
            Poll::Ready(None)
        } else {
            Poll::Pending
        }
    }
}

fn fed_stream() -> (Feeder, FedStream, Arc<AtomicBool>) {
    let shared              = Arc::new(Mutex::new(Shared { items: VecDeque::new(), closed: false, waker: None }));
    let (flag, dropped)     = drop_flag();

    (Feeder(Arc::clone(&shared)), FedStream(shared, flag), dropped)
}

/// Pipes a FedStream into a Vec, returning the object, the feeder and the 'stream dropped'/'closure dropped' flags
fn start_pipe() -> (Arc<Desync<Vec<u32>>>, Feeder, Arc<AtomicBool>, Arc<AtomicBool>) {
    let obj                                 = Arc::new(Desync::new(vec![]));
    let (feeder, stream, stream_dropped)    = fed_stream();
    let (closure_flag, closure_dropped)     = drop_flag();

    pipe_in(Arc::clone(&obj), stream, move |core: &mut Vec<u32>, item| {
        let _keep = &closure_flag;
        core.push(item);
        future::ready(()).boxed()
    });

    (obj, feeder, stream_dropped, closure_dropped)
}

#[test]
fn control_end_of_stream_arrives_on_its_own() {
    for _ in 0..20 {
        let (obj, feeder, stream_dropped, closure_dropped) = start_pipe();

        // Items arrive, are processed, and the stream goes back to pending...
        feeder.feed(&[1, 2, 3], false);
        thread::sleep(Duration::from_millis(10));
        obj.sync(|_| { });

        // ... then the stream ends as a separate event
        feeder.feed(&[], true);

        assert!(wait_for(&closure_dropped), "Processing closure was not released after the stream ended");
        assert!(wait_for(&stream_dropped), "Stream was not released after the stream ended");
        assert!(obj.sync(|core| core.clone()) == vec![1, 2, 3]);
    }
}

#[test]
fn end_of_stream_arrives_with_the_last_items() {
    for _ in 0..20 {
        let (obj, feeder, stream_dropped, closure_dropped) = start_pipe();

        // A first burst
        feeder.feed(&[1, 2], false);
        thread::sleep(Duration::from_millis(10));
        obj.sync(|_| { });

        // The last items and the end of the stream become visible together
        feeder.feed(&[3, 4, 5], true);

        // Every item is processed exactly once, in order
        thread::sleep(Duration::from_millis(10));
        assert!(obj.sync(|core| core.clone()) == vec![1, 2, 3, 4, 5]);

        // ... and the pipe has let go of the stream and the closure
        assert!(wait_for(&closure_dropped), "Processing closure was not released after the stream ended");
        assert!(wait_for(&stream_dropped), "Stream was not released after the stream ended");
    }
}

#[test]
fn futures_unordered_is_released_when_it_runs_dry() {
    for _ in 0..20 {
        let obj                             = Arc::new(Desync::new(vec![]));
        let (closure_flag, closure_dropped) = drop_flag();

        // Three results that will arrive later on
        let (senders, receivers): (Vec<_>, Vec<_>) = (0..3).map(|_| oneshot::channel::<u32>()).unzip();
        let results = receivers.into_iter().map(|receiver| receiver.map(|result| result.unwrap())).collect::<FuturesUnordered<_>>();

        pipe_in(Arc::clone(&obj), results, move |core: &mut Vec<u32>, item| {
            let _keep = &closure_flag;
            core.push(item);
            future::ready(()).boxed()
        });

        // Deliver the results from another thread
        let producer = thread::spawn(move || {
            for (idx, sender) in senders.into_iter().enumerate() {
                thread::sleep(Duration::from_millis(2));
                sender.send(idx as u32).unwrap();
            }
        });
        producer.join().unwrap();

        thread::sleep(Duration::from_millis(10));
        assert!(obj.sync(|core| core.clone()) == vec![0, 1, 2]);
        assert!(wait_for(&closure_dropped), "Processing closure was not released after the FuturesUnordered completed");
    }
}
