//! BOUNDED stand-in (not a proof) for `SchedulerCore::remove_finished_threads` when its text is outside Verus's reach: reaping
//! must remove exactly the finished pool threads and must never join a live one.
//! Bound: pool of 4 threads, every non-empty proper subset of them killed by a panicking job (14 cases).
use desync::scheduler::*;
use std::sync::*;
use std::sync::atomic::{AtomicUsize, Ordering};
use std::thread;
use std::time::{Duration, Instant};

fn run_case(mask: usize) -> Result<(), String> {
    let n = 4;
    let sched = Arc::new(Scheduler::new());
    sched.set_max_threads(n);
    sched.despawn_threads_if_overloaded();
    let gate = Arc::new((Mutex::new(false), Condvar::new()));     // keeps the live threads busy
    let boom = Arc::new((Mutex::new(false), Condvar::new()));     // releases the doomed jobs
    let running = Arc::new(AtomicUsize::new(0));
    let mut queues = vec![];
    for i in 0..n {
        let q = sched.create_job_queue();
        let (gate, boom, running2) = (gate.clone(), boom.clone(), running.clone());
        let doomed = mask & (1 << i) != 0;
        sched.desync(&q, move || {
            running2.fetch_add(1, Ordering::SeqCst);
            if doomed { let mut g = boom.0.lock().unwrap(); while !*g { g = boom.1.wait(g).unwrap(); } drop(g); panic!("doomed pool thread (expected by the bounded check)"); }
            else { let mut g = gate.0.lock().unwrap(); while !*g { g = gate.1.wait(g).unwrap(); } }
        });
        queues.push(q);
        // one thread per job, in order, so that thread i runs job i
        let t0 = Instant::now();
        while running.load(Ordering::SeqCst) <= i && t0.elapsed() < desync_replay::secs(2) { thread::sleep(desync_replay::ms(2)); }
    }
    { *boom.0.lock().unwrap() = true; boom.1.notify_all(); }
    thread::sleep(desync_replay::ms(300));           // let the doomed threads finish unwinding

    // scheduling on a fresh object must not wait for the live (blocked) threads and must get a thread (pool is below its maximum)
    let ran = Arc::new(AtomicUsize::new(0));
    let (s2, r2) = (sched.clone(), ran.clone());
    let caller = thread::spawn(move || { let q = s2.create_job_queue(); s2.desync(&q, move || { r2.fetch_add(1, Ordering::SeqCst); }); });
    let t0 = Instant::now();
    while ran.load(Ordering::SeqCst) == 0 && t0.elapsed() < desync_replay::secs(3) { thread::sleep(desync_replay::ms(10)); }
    let ok = ran.load(Ordering::SeqCst) == 1;
    let dbg = { let s3 = sched.clone(); std::panic::catch_unwind(std::panic::AssertUnwindSafe(move || format!("{:?}", s3))).unwrap_or_else(|_| "scheduler locks poisoned".to_string()) };
    { *gate.0.lock().unwrap() = true; gate.1.notify_all(); }
    let caller_panicked = caller.join().is_err();
    if caller_panicked { return Err(format!("killed={:04b}: the scheduling call itself panicked ({})", mask, dbg)); }
    if !ok { return Err(format!("killed={:04b}: a job on a fresh object did not run within 3s while live threads were blocked ({})", mask, dbg)); }
    Ok(())
}

#[test]
fn reaping_removes_exactly_the_finished_threads() {
    let mut failures = vec![];
    for mask in 1..15usize { if let Err(e) = run_case(mask) { println!("REPLAY failing case: {}", e); failures.push(e); } }
    println!("REPLAY bounded cases=14 failures={:?}", failures);
    assert!(failures.is_empty(), "{:?}", failures);
}
