//
// Demonstration for C12: a pipe that has stopped reading its input because its output buffer is full must always
// resume once the consumer reads something from the output stream.
//
// The pipe here has a back-pressure depth of 1 and a hand-rolled input stream, so the test decides exactly when the
// pipe is woken up and what it finds. Every round:
//
//   1. one value is made available on the input and the pipe is woken: it processes the value, buffers it (the
//      buffer is now full) and polls the input again
//   2. the input wakes the pipe again (a spurious wake-up: there's no new value). The pipe finds its buffer full and
//      goes back to sleep until the consumer makes some room
//   3. at about the same time, the consumer reads the buffered value - exactly once - and then leaves the stream alone
//   4. the pipe must now poll its input again to fetch the next value. Depending on who got there first, that's either
//      because (2) found room in the buffer, or because (3) released the back-pressure
//
// The consumer's read in (3) is moved around relative to (2) from round to round, so as to cover the different ways
// the two can interleave. If the input isn't polled again within a generous timeout in (4), the pipe is stuck even
// though there's room in its buffer, and the test fails.
//
// Only the public API is used: `desync::{Desync, pipe, PipeStream}`, `futures` and std.
//

extern crate desync;
extern crate futures;

use desync::*;
use futures::prelude::*;
use futures::task::{Context, Poll, Waker};

use std::pin::Pin;
use std::sync::*;
use std::sync::atomic::{AtomicBool, AtomicUsize, Ordering};
use std::thread;
use std::time::{Duration, Instant};

///
/// State shared between the test and its hand-rolled input stream
///
struct InputState {
    /// Number of values that the stream may return before going back to 'pending'
    available: Mutex<usize>,

    /// The waker from the last time the stream returned 'pending'
    waker: Mutex<Option<Waker>>,

    /// Number of times the stream has been polled
    poll_count: AtomicUsize
}

///
/// An input stream that returns consecutive integers, when told to
///
struct ManualInput {
    state:      Arc<InputState>,
    next_value: usize
}

impl Stream for ManualInput {
    type Item = usize;

    fn poll_next(mut self: Pin<&mut Self>, context: &mut Context) -> Poll<Option<usize>> {
        let result = {
            let mut available = self.state.available.lock().unwrap();

            if *available > 0 {
                *available -= 1;
                Poll::Ready(())
            } else {
                *self.state.waker.lock().unwrap() = Some(context.waker().clone());
                Poll::Pending
            }
        };

        let result = match result {
            Poll::Ready(()) => { let value = self.next_value; self.next_value += 1; Poll::Ready(Some(value)) },
            Poll::Pending   => Poll::Pending
        };

        self.state.poll_count.fetch_add(1, Ordering::SeqCst);
        result
    }
}

impl InputState {
    /// Wakes up whatever last polled the input stream
    fn wake(&self) {
        let waker = self.waker.lock().unwrap().take();
        waker.expect("Input stream has a waker").wake();
    }

    /// Waits for the input stream to have been polled a certain number of times (returns false on timeout)
    fn wait_for_polls(&self, count: usize, timeout: Duration) -> bool {
        let start = Instant::now();

        while self.poll_count.load(Ordering::SeqCst) < count {
            let waiting = start.elapsed();

            if waiting > timeout                        { return false; }
            if waiting > Duration::from_millis(5)       { thread::sleep(Duration::from_micros(200)); }
            else                                        { std::hint::spin_loop(); }
        }

        true
    }
}

/// How long to wait for the pipe to do something before deciding it's not going to
const STUCK_TIMEOUT: Duration = Duration::from_secs(2);

/// Maximum number of rounds to run
const MAX_ROUNDS: usize = 40_000;

/// Maximum time to spend on the rounds
const MAX_TIME: Duration = Duration::from_secs(12);

///
/// Runs rounds against a single pipe, returning the number of rounds completed or an error if the pipe got stuck (rounds end early once `stop` is set)
///
fn run_rounds(stop: Arc<AtomicBool>) -> Result<usize, String> {
    let input_state = Arc::new(InputState { available: Mutex::new(0), waker: Mutex::new(None), poll_count: AtomicUsize::new(0) });
    let input       = ManualInput { state: Arc::clone(&input_state), next_value: 0 };

    // The desync counts the values it has processed, which are passed straight through
    let desync      = Arc::new(Desync::new(0usize));
    let mut output  = pipe(Arc::clone(&desync), input, |num_processed, value: usize| { *num_processed += 1; future::ready(value).boxed() });
    output.set_backpressure_depth(1);

    // pipe() polls the input once before it returns
    let mut expected_polls = 1;
    assert!(input_state.wait_for_polls(expected_polls, STUCK_TIMEOUT));

    let noop_waker      = futures::task::noop_waker();
    let mut context     = Context::from_waker(&noop_waker);
    let start           = Instant::now();

    // Rough time between waking the pipe and it getting around to looking at its buffer, used to aim the consumer's read
    let mut wake_latency = Duration::from_micros(20);

    for round in 0..MAX_ROUNDS {
        if start.elapsed() > MAX_TIME || stop.load(Ordering::SeqCst) { return Ok(round); }

        // 1. Supply a value and wake the pipe: it polls the input twice (once for the value, once for 'pending'), leaving its buffer full
        *input_state.available.lock().unwrap() = 1;
        let woken_at    = Instant::now();
        input_state.wake();
        expected_polls  += 2;
        if !input_state.wait_for_polls(expected_polls, STUCK_TIMEOUT) {
            return Err(format!("round {}: pipe did not read a value from its input", round));
        }

        // Track how long the pipe takes to respond to a wake-up
        let this_latency    = woken_at.elapsed().min(Duration::from_micros(500));
        wake_latency        = (wake_latency*7 + this_latency)/8;

        // 2. Spurious wake-up of the pipe: it'll see that its buffer is full
        let read_delay  = wake_latency.mul_f64(((round % 64) as f64)/48.0);
        let woken_at    = Instant::now();
        input_state.wake();

        // 3. Read the buffered value, once, at around the time the pipe is dealing with the wake-up
        while woken_at.elapsed() < read_delay { std::hint::spin_loop(); }

        match output.poll_next_unpin(&mut context) {
            Poll::Ready(Some(value))    => { if value != round { return Err(format!("round {}: read {} from the pipe", round, value)); } }
            other                       => { return Err(format!("round {}: read {:?} from the pipe", round, other)); }
        }

        // 4. There's room in the buffer, so the pipe must poll its input for the next value
        expected_polls += 1;
        if !input_state.wait_for_polls(expected_polls, STUCK_TIMEOUT) {
            stop.store(true, Ordering::SeqCst);
            return Err(format!("round {}: pipe did not resume reading its input after the consumer read a value from its full buffer (input polled {} times, expected {}; {} values processed)",
                round, input_state.poll_count.load(Ordering::SeqCst), expected_polls, desync.sync(|num_processed| *num_processed)));
        }
    }

    Ok(MAX_ROUNDS)
}

#[test]
fn pipe_resumes_after_consumer_reads_from_full_buffer() {
    // Several independent pipes are exercised at the same time (this also adds some scheduling noise)
    let stop    = Arc::new(AtomicBool::new(false));
    let workers = (0..4).map(|_| { let stop = Arc::clone(&stop); thread::spawn(move || run_rounds(stop)) }).collect::<Vec<_>>();
    let results = workers.into_iter().map(|worker| worker.join().unwrap()).collect::<Vec<_>>();

    println!("{:?}", results);

    for result in results {
        assert!(result.is_ok(), "{}", result.unwrap_err());
    }
}
