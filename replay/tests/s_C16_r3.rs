//
// C16 demonstration: dropping a pipe's output stream shuts the pipe down (the Desync reference is released and the input
// stream and processing closure are dropped), wherever the producing job was when the drop happened, with an input that
// stays silent (but alive) afterwards.
//
extern crate desync;
extern crate futures;

use desync::*;
use futures::channel::mpsc;
use futures::channel::oneshot;
use futures::prelude::*;
use futures::task::{Context, Poll};

use std::pin::Pin;
use std::sync::atomic::{AtomicBool, AtomicUsize, Ordering};
use std::sync::*;
use std::thread;
use std::time::{Duration, Instant};

/// Sets a flag when dropped
struct DropFlag(Arc<AtomicBool>);

impl Drop for DropFlag {
    fn drop(&mut self) {
        self.0.store(true, Ordering::SeqCst);
    }
}

/// An input stream (an ordinary mpsc receiver) that reports when it is dropped and counts how often it was polled
struct TrackedInput {
    receiver:   mpsc::Receiver<i32>,
    polls:      Arc<AtomicUsize>,
    _dropped:   DropFlag,
}

impl Stream for TrackedInput {
    type Item = i32;

    fn poll_next(mut self: Pin<&mut Self>, context: &mut Context) -> Poll<Option<i32>> {
        let result = self.receiver.poll_next_unpin(context);
        self.polls.fetch_add(1, Ordering::SeqCst);
        result
    }
}

/// Waits (up to 5s) for a condition to become true
fn eventually<F: FnMut() -> bool>(mut condition: F) -> bool {
    let start = Instant::now();

    while start.elapsed() < Duration::from_secs(5) {
        if condition() { return true; }
        thread::sleep(Duration::from_millis(5));
    }

    condition()
}

struct Harness {
    desync:             Arc<Desync<i32>>,
    sender:             mpsc::Sender<i32>,
    input_polls:        Arc<AtomicUsize>,
    input_dropped:      Arc<AtomicBool>,
    closure_dropped:    Arc<AtomicBool>,
    entered:            Arc<AtomicUsize>,
    gate:               Arc<Mutex<Option<oneshot::Receiver<()>>>>,
    output:             Option<PipeStream<i32>>,
}

impl Harness {
    fn new() -> Harness {
        let desync          = Arc::new(Desync::new(0));
        let (sender, recv)  = mpsc::channel(32);
        let input_polls     = Arc::new(AtomicUsize::new(0));
        let input_dropped   = Arc::new(AtomicBool::new(false));
        let closure_dropped = Arc::new(AtomicBool::new(false));
        let entered         = Arc::new(AtomicUsize::new(0));
        let gate            = Arc::new(Mutex::new(None::<oneshot::Receiver<()>>));

        let input = TrackedInput {
            receiver:   recv,
            polls:      Arc::clone(&input_polls),
            _dropped:   DropFlag(Arc::clone(&input_dropped)),
        };

        let closure_flag    = DropFlag(Arc::clone(&closure_dropped));
        let closure_entered = Arc::clone(&entered);
        let closure_gate    = Arc::clone(&gate);

        let output = pipe(Arc::clone(&desync), input, move |core: &mut i32, item: i32| {
            let _keep   = &closure_flag;
            let gate    = closure_gate.lock().unwrap().take();
            let entered = Arc::clone(&closure_entered);

            async move {
                *core += item;
                entered.fetch_add(1, Ordering::SeqCst);

                // If the test installed a gate, this item is held 'mid-loop' until the gate opens
                if let Some(gate) = gate {
                    gate.await.ok();
                }

                item
            }.boxed()
        });

        Harness { desync, sender, input_polls, input_dropped, closure_dropped, entered, gate, output: Some(output) }
    }

    /// Checks that the pipe has shut down: the only strong reference to the desync is ours, and the input and closure are gone
    fn assert_shut_down(&self, position: &str) {
        let released = eventually(|| Arc::strong_count(&self.desync) == 1);
        assert!(released, "{}: the pipe still holds a strong reference on the Desync after its output stream was dropped", position);

        let input_gone = eventually(|| self.input_dropped.load(Ordering::SeqCst));
        assert!(input_gone, "{}: the input stream was not dropped after the output stream was dropped", position);

        let closure_gone = eventually(|| self.closure_dropped.load(Ordering::SeqCst));
        assert!(closure_gone, "{}: the processing closure was not dropped after the output stream was dropped", position);
    }
}

#[test]
fn drop_output_while_producer_is_idle() {
    let mut harness = Harness::new();

    // The initial poll has completed: the producer is registered with the (silent) input
    assert!(eventually(|| harness.input_polls.load(Ordering::SeqCst) >= 1));

    harness.output.take();
    harness.assert_shut_down("idle");

    // The sender stayed alive and silent throughout
    assert!(harness.sender.is_closed());
}

#[test]
fn drop_output_while_producer_is_throttled() {
    let mut harness = Harness::new();

    harness.output.as_mut().unwrap().set_backpressure_depth(2);

    // Fill the pipe, then send one more so that the producer wakes up and finds the pipe full
    for item in 0..4 {
        harness.sender.try_send(item).unwrap();
        thread::sleep(Duration::from_millis(50));
    }
    assert!(eventually(|| harness.entered.load(Ordering::SeqCst) >= 2));
    thread::sleep(Duration::from_millis(100));

    harness.output.take();
    harness.assert_shut_down("throttled");
}

#[test]
fn drop_output_while_producer_is_mid_loop() {
    let mut harness = Harness::new();

    // The initial poll has completed: the producer is registered with the (silent) input
    assert!(eventually(|| harness.input_polls.load(Ordering::SeqCst) >= 1));

    // The next item will be held in the processing function until we open the gate
    let (open_gate, gate) = oneshot::channel();
    *harness.gate.lock().unwrap() = Some(gate);

    harness.sender.try_send(1).unwrap();
    assert!(eventually(|| harness.entered.load(Ordering::SeqCst) == 1), "Producer never picked up the item");

    // The producing job is now in the middle of its loop. Drop the output stream, then let the job carry on: it goes
    // back to the input (which is silent from now on, but keeps the waker it was given), then notices the pipe is closed
    let polls_before = harness.input_polls.load(Ordering::SeqCst);
    harness.output.take();
    thread::sleep(Duration::from_millis(20));
    open_gate.send(()).unwrap();

    assert!(eventually(|| harness.input_polls.load(Ordering::SeqCst) > polls_before), "Producer never went back to the input");

    harness.assert_shut_down("mid-loop");

    // The input stayed silent and alive until the end (the sender was never dropped or used again)
    assert!(harness.sender.is_closed());
}
