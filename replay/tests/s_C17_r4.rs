//
// Demonstration for C17: "the pool never exceeds its configured maximum"
//
// Both tests kill a pool thread (a job scheduled with `desync` panics on it) and then look at how the scheduler
// deals with the dead thread the next time something is scheduled.
//

use desync::scheduler::*;

use std::panic;
use std::sync::*;
use std::thread;
use std::time::{Duration, Instant};

const DELIBERATE: &str = "seed demo: deliberate panic";

/// Hides the messages of the panics this file causes on purpose (everything else is reported as usual)
fn quiet_deliberate_panics() {
    static ONCE: Once = Once::new();

    ONCE.call_once(|| {
        let default_hook = panic::take_hook();
        panic::set_hook(Box::new(move |info| {
            let deliberate = info.payload().downcast_ref::<&str>().map(|msg| msg.contains(DELIBERATE))
                .or_else(|| info.payload().downcast_ref::<String>().map(|msg| msg.contains(DELIBERATE)))
                .unwrap_or(false);
            if !deliberate {
                default_hook(info);
            }
        }));
    });
}

/// The per-thread part of the scheduler's debug output: one 'B' or 'I' for every thread the scheduler owns
fn pool_threads(scheduler: &Scheduler) -> String {
    let debug = format!("{:?}", scheduler);
    let end   = debug.find(" Pending queue count").expect("Scheduler debug format");

    debug[..end].to_string()
}

/// Schedules a job that panics and waits until the queue has been marked as panicked (the pool thread that ran it is
/// dying or dead at that point)
fn kill_a_pool_thread(scheduler: &Scheduler) {
    let doomed = scheduler.create_job_queue();
    scheduler.desync(&doomed, || { panic!("{}", DELIBERATE); });

    let start = Instant::now();
    while !format!("{:?}", doomed).contains("Panicked") {
        assert!(start.elapsed() < Duration::from_secs(10), "The panicking job never ran: {:?} / {:?}", doomed, scheduler);
        thread::sleep(Duration::from_millis(1));
    }
}

///
/// Several callers schedule work at the moment a dead pool thread is due to be reaped: the scheduler must still
/// never own more threads than its maximum
///
#[test]
fn racing_schedulers_after_a_pool_thread_died_stay_within_the_maximum() {
    quiet_deliberate_panics();

    const RACERS: usize = 4;
    let start = Instant::now();

    for max_threads in [1usize, 2, 3].iter().cycle().take(240) {
        let max_threads = *max_threads;
        if start.elapsed() > Duration::from_secs(20) { break; }

        let scheduler = Arc::new(Scheduler::new());
        scheduler.set_max_threads(max_threads);

        // One pool thread is created and dies
        kill_a_pool_thread(&scheduler);
        thread::sleep(Duration::from_millis(5));

        // Everything that was scheduled so far ran on the one thread
        assert!(pool_threads(&scheduler).len() <= max_threads, "Over the maximum before the race: {:?}", scheduler);

        // Racing callers all schedule something on a queue of their own
        let barrier = Arc::new(Barrier::new(RACERS));
        let racers  = (0..RACERS).map(|_| {
            let scheduler   = Arc::clone(&scheduler);
            let barrier     = Arc::clone(&barrier);

            thread::spawn(move || {
                let queue = scheduler.create_job_queue();
                barrier.wait();
                scheduler.desync(&queue, || { thread::sleep(Duration::from_millis(1)); });
                queue
            })
        }).collect::<Vec<_>>();

        let queues = racers.into_iter().map(|racer| racer.join().expect("Racer")).collect::<Vec<_>>();

        // The pool is never bigger than the maximum
        let threads = pool_threads(&scheduler);
        assert!(threads.len() <= max_threads, "The scheduler owns {} threads ({:?}) but its maximum is {}", threads.len(), threads, max_threads);

        // Finish the work and get rid of the threads before the next round
        for queue in queues.iter() {
            scheduler.sync(queue, || { });
        }

        let threads = pool_threads(&scheduler);
        assert!(threads.len() <= max_threads, "The scheduler owns {} threads ({:?}) but its maximum is {}", threads.len(), threads, max_threads);

        scheduler.set_max_threads(0);
        scheduler.despawn_threads_if_overloaded();
        assert!(pool_threads(&scheduler).len() == 0, "Threads left after despawning to 0: {:?}", scheduler);
    }
}

///
/// A pool thread dies, then the maximum is lowered to zero: from then on the scheduler may not create any thread
/// (the only thread it might still list is the dead one, which is stuck at 'B')
///
#[test]
fn no_thread_is_created_once_the_maximum_is_zero() {
    quiet_deliberate_panics();

    for _ in 0..10 {
        let scheduler = Scheduler::new();
        scheduler.set_max_threads(1);

        kill_a_pool_thread(&scheduler);
        assert!(pool_threads(&scheduler) == "B", "Expected just the dying thread: {:?}", scheduler);

        // Lower the maximum to 0. The dead thread is dropped from the pool as soon as it has finished unwinding.
        let start = Instant::now();
        loop {
            scheduler.set_max_threads(0);

            let threads = pool_threads(&scheduler);
            assert!(!threads.contains('I'), "A fresh pool thread was created while the maximum was 0: {:?}", scheduler);

            if threads.len() == 0 { break; }

            assert!(start.elapsed() < Duration::from_secs(10), "The dead thread was never removed: {:?}", scheduler);
            thread::sleep(Duration::from_millis(2));
        }

        // Work scheduled now is carried by the callers
        let queue   = scheduler.create_job_queue();
        let ran     = Arc::new(Mutex::new(false));
        let also_ran = Arc::clone(&ran);
        scheduler.desync(&queue, move || { *also_ran.lock().unwrap() = true; });

        assert!(pool_threads(&scheduler).len() == 0, "Scheduling created a thread with a maximum of 0: {:?}", scheduler);
        scheduler.sync(&queue, || { });
        assert!(*ran.lock().unwrap());

        scheduler.despawn_threads_if_overloaded();
        assert!(pool_threads(&scheduler).len() == 0);
    }
}
