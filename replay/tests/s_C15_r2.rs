//
// C15 demonstration: a panicking operation must stay contained to its own object.
//
// Sequence (pool limited to a single thread):
//
//  1. The only pool thread is kept busy by a long-running operation on `blocker`.
//  2. A panicking operation is scheduled on `a`. No thread is free, so `a`'s queue just sits in the
//     scheduler's list of pending queues.
//  3. `a.sync()` is called: the caller drains `a`'s queue itself, so the operation panics in the sync
//     caller (caught here). `a` is now panicked - and its queue is still in the pending list, as a sync
//     drain never removes it from there (a pool thread is expected to skip it later on).
//  4. Further scheduling attempts on `a` must fail loudly: they do.
//  5. The pool thread is released. It goes looking for its next queue, and comes across the stale entry
//     for `a`.
//  6. After everything has settled, a completely unrelated object `b` must be fully usable.
//
extern crate desync;

use desync::Desync;
use desync::scheduler::scheduler;

use std::mem::ManuallyDrop;
use std::panic::{catch_unwind, AssertUnwindSafe};
use std::sync::mpsc::channel;
use std::thread;
use std::time::Duration;

#[test]
fn panic_in_sync_drained_operation_stays_contained() {
    // This test binary has the global scheduler to itself: give it a pool of exactly one thread
    scheduler().set_max_threads(1);

    // 1. Occupy the only pool thread
    let blocker                     = Desync::new(());
    let (started_tx, started_rx)    = channel();
    let (release_tx, release_rx)    = channel::<()>();

    blocker.desync(move |_| {
        started_tx.send(()).ok();
        release_rx.recv_timeout(Duration::from_secs(20)).ok();
    });
    started_rx.recv_timeout(Duration::from_secs(5)).expect("Blocker operation never started");

    // 2. Schedule a panicking operation on `a` (never dropped: dropping a panicked Desync panics by design)
    let a = ManuallyDrop::new(Desync::new(0u32));
    a.desync(|_| panic!("seed_demo: this operation on `a` panics (expected)"));

    // 3. The pool is busy, so this sync call drains `a` on this thread, and so the panic arrives here
    let first_sync = catch_unwind(AssertUnwindSafe(|| a.sync(|val| *val)));
    assert!(first_sync.is_err(), "The panicking operation was expected to run (and panic) in the sync caller");

    // 4. `a` is panicked now: scheduling attempts must fail loudly
    let desync_again    = catch_unwind(AssertUnwindSafe(|| a.desync(|val| { *val += 1; })));
    let sync_again      = catch_unwind(AssertUnwindSafe(|| a.sync(|val| *val)));
    assert!(desync_again.is_err(), "desync() on a panicked object did not panic");
    assert!(sync_again.is_err(), "sync() on a panicked object did not panic");

    // 5. Release the pool thread and give it plenty of time to finish whatever it is going to do
    release_tx.send(()).ok();
    thread::sleep(Duration::from_millis(1500));

    // 6. A healthy object must be entirely unaffected by what happened to `a`
    let b               = Desync::new(0u32);
    let (done_tx, done_rx) = channel();

    let schedule_on_b = catch_unwind(AssertUnwindSafe(|| {
        b.desync(move |val| {
            *val = 42;
            done_tx.send(()).ok();
        });
    }));
    assert!(schedule_on_b.is_ok(), "Scheduling on a healthy object panicked after another object panicked");

    assert!(done_rx.recv_timeout(Duration::from_secs(5)).is_ok(), "Operation on a healthy object never ran in the background (pool thread not replaced?)");
    assert!(b.sync(|val| *val) == 42);

    // ... and a second healthy object, for good measure
    let c = Desync::new(1u32);
    c.desync(|val| { *val += 1; });
    assert!(c.sync(|val| *val) == 2);
}
