extern crate desync;
extern crate futures;

use desync::scheduler::*;

use futures::channel::oneshot;
use futures::executor;
use futures::future;
use futures::prelude::*;
use futures::task;
use futures::task::{ArcWake, Poll};

use std::sync::*;
use std::sync::atomic::{AtomicUsize, Ordering};
use std::sync::mpsc;
use std::thread;
use std::time::{Duration, Instant};

///
/// Runs a scenario on its own thread and panics if it does not finish in time (so a lost wake-up shows up as a failure and not as a hang)
///
fn watchdog<TFn: 'static+Send+FnOnce() -> ()>(name: &str, scenario: TFn) {
    let (done, wait_for_done) = mpsc::channel();

    thread::spawn(move || {
        scenario();
        done.send(()).ok();
    });

    match wait_for_done.recv_timeout(Duration::from_secs(5)) {
        Ok(())  => { }
        Err(_)  => panic!("{}: scenario did not finish (the awaiting task was never woken, or the scenario panicked)", name)
    }
}

///
/// Waker that counts how many times it has been woken
///
struct CountingWaker {
    count: AtomicUsize
}

impl CountingWaker {
    fn new() -> Arc<CountingWaker> {
        Arc::new(CountingWaker { count: AtomicUsize::new(0) })
    }

    fn count(&self) -> usize {
        self.count.load(Ordering::SeqCst)
    }
}

impl ArcWake for CountingWaker {
    fn wake_by_ref(arc_self: &Arc<Self>) {
        arc_self.count.fetch_add(1, Ordering::SeqCst);
    }
}

///
/// Waits for a condition to become true, for up to 3 seconds
///
fn wait_until<TFn: Fn() -> bool>(condition: TFn) -> bool {
    let start = Instant::now();

    while start.elapsed() < Duration::from_secs(3) {
        if condition() { return true; }
        thread::sleep(Duration::from_millis(1));
    }

    condition()
}

///
/// Creates a scheduler with a fixed number of threads
///
fn scheduler_with_threads(num_threads: usize) -> Scheduler {
    let scheduler = Scheduler::new();
    scheduler.set_max_threads(num_threads);
    scheduler.despawn_threads_if_overloaded();
    scheduler
}

///
/// Keeps every thread in a scheduler busy until the returned sender is dropped (or signalled)
///
fn block_all_threads(scheduler: &Scheduler, num_threads: usize) -> Vec<mpsc::Sender<()>> {
    let (blocked, wait_for_blocked) = mpsc::channel();
    let mut unblock                 = vec![];

    for _ in 0..num_threads {
        let blocker_queue       = scheduler.create_job_queue();
        let blocked             = blocked.clone();
        let (release, released) = mpsc::channel::<()>();

        scheduler.desync(&blocker_queue, move || {
            blocked.send(()).ok();
            released.recv_timeout(Duration::from_secs(10)).ok();
        });

        unblock.push(release);
    }

    // All of the threads need to have picked up their blocking job
    for _ in 0..num_threads {
        wait_for_blocked.recv_timeout(Duration::from_secs(3)).expect("Blocking job never started");
    }

    unblock
}

///
/// The operation used by these tests: it runs in two stages, each of which waits to be told to continue. `stage_2_polls` counts
/// how often the second stage has been polled (which tells us which contexts have run the operation so far)
///
struct TwoStageOperation {
    start_stage_2:  oneshot::Sender<()>,
    finish:         oneshot::Sender<i32>,
    started:        mpsc::Receiver<()>,
    stage_2_polls:  Arc<AtomicUsize>
}

fn two_stage_operation(scheduler: &Scheduler, queue: &Arc<JobQueue>) -> (SchedulerFuture<i32>, TwoStageOperation) {
    let (started, wait_for_start)           = mpsc::channel();
    let (start_stage_2, wait_for_stage_2)   = oneshot::channel::<()>();
    let (finish, wait_for_finish)           = oneshot::channel::<i32>();
    let stage_2_polls                       = Arc::new(AtomicUsize::new(0));
    let count_polls                         = Arc::clone(&stage_2_polls);

    let future = scheduler.future_desync(queue, move || {
        async move {
            // Stage 1
            started.send(()).ok();
            wait_for_stage_2.await.ok();

            // Stage 2
            let mut wait_for_finish = wait_for_finish;
            let value = future::poll_fn(move |context| {
                count_polls.fetch_add(1, Ordering::SeqCst);
                wait_for_finish.poll_unpin(context)
            }).await;

            value.unwrap() + 1
        }
    });

    (future, TwoStageOperation { start_stage_2, finish, started: wait_for_start, stage_2_polls })
}

///
/// A future is polled by one task while its queue is blocked on the thread pool. The pool then gets busy with other things,
/// and the future is polled by a second task, which continues the operation itself until it blocks again. A pool thread
/// then becomes available and finishes the operation: the second task is awaiting the result and must be woken.
///
#[test]
fn pool_finishes_operation_started_by_second_task() {
    for num_threads in 1..=3 {
        watchdog("pool finishes operation", move || {
            let scheduler           = scheduler_with_threads(num_threads);
            let queue               = scheduler.create_job_queue();
            let (mut future, op)    = two_stage_operation(&scheduler, &queue);

            // A pool thread runs stage 1, which blocks the queue
            op.started.recv_timeout(Duration::from_secs(3)).expect("Operation never started on the pool");
            thread::sleep(Duration::from_millis(50));

            // First task polls the future (nothing to do but wait for the pool)
            let first_task          = CountingWaker::new();
            {
                let waker_ref       = task::waker_ref(&first_task);
                let mut context     = task::Context::from_waker(&waker_ref);
                assert!(future.poll_unpin(&mut context) == Poll::Pending);
            }

            // The pool becomes busy, then stage 1 is allowed to complete (so the queue is waiting for a thread again)
            let unblock             = block_all_threads(&scheduler, num_threads);
            op.start_stage_2.send(()).unwrap();
            thread::sleep(Duration::from_millis(50));
            assert!(op.stage_2_polls.load(Ordering::SeqCst) == 0);

            // The future is handed to a second task, which polls it: with no threads available this will run the operation up until stage 2 blocks
            let second_task         = CountingWaker::new();
            {
                let waker_ref       = task::waker_ref(&second_task);
                let mut context     = task::Context::from_waker(&waker_ref);
                assert!(future.poll_unpin(&mut context) == Poll::Pending);
            }
            assert!(op.stage_2_polls.load(Ordering::SeqCst) == 1);

            // The pool becomes available again, and picks up the queue
            unblock.into_iter().for_each(|release| { release.send(()).ok(); });
            let stage_2_polls       = Arc::clone(&op.stage_2_polls);
            assert!(wait_until(|| stage_2_polls.load(Ordering::SeqCst) >= 2), "Pool never picked up the queue");
            thread::sleep(Duration::from_millis(50));

            assert!(second_task.count() == 0);

            // Let the operation finish
            op.finish.send(41).unwrap();

            // The task that polled the future most recently is the one awaiting it, so it must be woken up
            assert!(wait_until(|| second_task.count() > 0), "The task awaiting the future was never woken ({} threads)", num_threads);

            // ... and the future resolves to the value that the operation produced
            let waker_ref           = task::waker_ref(&second_task);
            let mut context         = task::Context::from_waker(&waker_ref);
            assert!(future.poll_unpin(&mut context) == Poll::Ready(Ok(42)));
        });
    }
}

///
/// Same sequence of events, except the first 'task' is just a check to see if the future is ready yet (as `now_or_never()`
/// or a `select` with a timeout might do), and the second is an executor awaiting the future for real
///
#[test]
fn check_if_ready_then_block_on() {
    for num_threads in 1..=3 {
        watchdog("check then block_on", move || {
            let scheduler           = scheduler_with_threads(num_threads);
            let queue               = scheduler.create_job_queue();
            let (mut future, op)    = two_stage_operation(&scheduler, &queue);

            op.started.recv_timeout(Duration::from_secs(3)).expect("Operation never started on the pool");
            thread::sleep(Duration::from_millis(50));

            // Check on the future using a waker that does nothing
            {
                let waker           = task::noop_waker();
                let mut context     = task::Context::from_waker(&waker);
                assert!(future.poll_unpin(&mut context) == Poll::Pending);
            }

            // Make the pool busy and let stage 1 finish
            let unblock             = block_all_threads(&scheduler, num_threads);
            op.start_stage_2.send(()).unwrap();
            thread::sleep(Duration::from_millis(50));

            // Steer the rest of the scenario from another thread while this one awaits the future
            let stage_2_polls       = Arc::clone(&op.stage_2_polls);
            let finish              = op.finish;
            thread::spawn(move || {
                // block_on runs the operation until stage 2 blocks
                assert!(wait_until(|| stage_2_polls.load(Ordering::SeqCst) >= 1));
                thread::sleep(Duration::from_millis(50));

                // The pool picks up the queue
                unblock.into_iter().for_each(|release| { release.send(()).ok(); });
                assert!(wait_until(|| stage_2_polls.load(Ordering::SeqCst) >= 2));
                thread::sleep(Duration::from_millis(50));

                // The operation finishes
                finish.send(41).unwrap();
            });

            assert!(executor::block_on(future) == Ok(42));
        });
    }
}

///
/// The same value is available via sync() after the same sequence of polls
///
#[test]
fn polled_twice_then_sync() {
    watchdog("polled twice then sync", move || {
        let scheduler           = scheduler_with_threads(1);
        let queue               = scheduler.create_job_queue();
        let (mut future, op)    = two_stage_operation(&scheduler, &queue);

        op.started.recv_timeout(Duration::from_secs(3)).expect("Operation never started on the pool");
        thread::sleep(Duration::from_millis(50));

        let first_task          = CountingWaker::new();
        let second_task         = CountingWaker::new();

        {
            let waker_ref       = task::waker_ref(&first_task);
            let mut context     = task::Context::from_waker(&waker_ref);
            assert!(future.poll_unpin(&mut context) == Poll::Pending);
        }

        let unblock             = block_all_threads(&scheduler, 1);
        op.start_stage_2.send(()).unwrap();
        thread::sleep(Duration::from_millis(50));

        {
            let waker_ref       = task::waker_ref(&second_task);
            let mut context     = task::Context::from_waker(&waker_ref);
            assert!(future.poll_unpin(&mut context) == Poll::Pending);
        }

        unblock.into_iter().for_each(|release| { release.send(()).ok(); });
        let stage_2_polls       = Arc::clone(&op.stage_2_polls);
        assert!(wait_until(|| stage_2_polls.load(Ordering::SeqCst) >= 2), "Pool never picked up the queue");
        thread::sleep(Duration::from_millis(50));

        op.finish.send(41).unwrap();

        assert!(future.sync() == Ok(42));
        assert!(wait_until(|| second_task.count() > 0), "The task awaiting the future was never woken");
    });
}
