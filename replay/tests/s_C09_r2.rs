//
// Demonstration for C09: an operation scheduled while a (successful) try_sync closure is running must still complete
// once the closure has returned, whatever the state of the thread pool.
//
// A `sync` call that arrives while the try_sync closure is running has to wait for the closure to finish. If the pool has
// no thread free to run the queue afterwards, the waiting thread has to be told that the queue is available again so it can
// run the queue itself.
//
extern crate desync;
extern crate futures;

use desync::scheduler::*;

use std::sync::*;
use std::sync::mpsc;
use std::thread;
use std::time::{Duration, Instant};

/// How long we're prepared to wait for the blocked `sync` to finish after try_sync has returned
const SYNC_TIMEOUT: Duration = Duration::from_secs(4);

///
/// Runs a try_sync on `queue` and, while its closure is running, starts a `sync` on another thread. Returns
/// the order in which the two closures ran, or an error if the sync never finished.
///
fn sync_during_try_sync(scheduler: &Arc<Scheduler>, queue: &Arc<JobQueue>) -> Result<Vec<&'static str>, String> {
    let order                       = Arc::new(Mutex::new(vec![]));
    let (sync_calling, closure_rx)  = mpsc::channel::<()>();
    let (closure_started, sync_rx)  = mpsc::channel::<()>();
    let (sync_done, sync_done_rx)   = mpsc::channel::<()>();

    // The thread that calls sync() while the try_sync closure is running
    let sync_scheduler  = Arc::clone(scheduler);
    let sync_queue      = Arc::clone(queue);
    let sync_order      = Arc::clone(&order);
    thread::spawn(move || {
        // Wait for the try_sync closure to start
        sync_rx.recv().unwrap();

        // Tell the closure we're about to call sync
        sync_calling.send(()).unwrap();
        sync_scheduler.sync(&sync_queue, move || { sync_order.lock().unwrap().push("sync"); });

        sync_done.send(()).ok();
    });

    // try_sync on an idle queue must run the closure
    let try_order   = Arc::clone(&order);
    let try_result  = scheduler.try_sync(queue, move || {
        closure_started.send(()).unwrap();

        // Wait for the other thread to be on the point of calling sync(), then give it plenty of time to queue up behind us
        closure_rx.recv().unwrap();
        thread::sleep(Duration::from_millis(300));

        try_order.lock().unwrap().push("try_sync");
        42
    });

    if try_result != Ok(42) {
        return Err(format!("try_sync on an idle queue returned {:?}", try_result));
    }

    // The sync must now complete
    let returned_at = Instant::now();
    match sync_done_rx.recv_timeout(SYNC_TIMEOUT) {
        Ok(())  => { }
        Err(_)  => {
            return Err(format!("sync() queued while the try_sync closure was running had not completed {:?} after try_sync returned (queue: {:?}, scheduler: {:?})",
                returned_at.elapsed(), queue, scheduler));
        }
    }

    let order = order.lock().unwrap().clone();
    Ok(order)
}

#[test]
fn sync_queued_during_try_sync_completes_with_no_pool_threads() {
    // Scheduler with no threads: everything runs on the threads that call sync
    let scheduler   = Arc::new(Scheduler::new());
    scheduler.set_max_threads(0);
    scheduler.despawn_threads_if_overloaded();

    let queue       = scheduler.create_job_queue();

    let order       = sync_during_try_sync(&scheduler, &queue).unwrap_or_else(|err| panic!("{}", err));
    assert!(order == vec!["try_sync", "sync"], "Ran in order {:?}", order);

    // Queue is idle again: try_sync and sync both work
    assert!(scheduler.try_sync(&queue, || 1) == Ok(1));
    assert!(scheduler.sync(&queue, || 2) == 2);
}

#[test]
fn sync_queued_during_try_sync_completes_with_all_pool_threads_busy() {
    // Scheduler with two threads, both of which are occupied by long-running jobs on other queues
    let scheduler   = Arc::new(Scheduler::new());
    scheduler.set_max_threads(2);

    let (release, wait_release)     = mpsc::channel::<()>();
    let wait_release                = Arc::new(Mutex::new(wait_release));
    let (occupied, wait_occupied)   = mpsc::channel::<()>();
    let blockers                    = (0..2).map(|_| scheduler.create_job_queue()).collect::<Vec<_>>();

    for blocker in blockers.iter() {
        let wait_release    = Arc::clone(&wait_release);
        let occupied        = occupied.clone();

        scheduler.desync(blocker, move || {
            occupied.send(()).unwrap();

            // Block this pool thread until the test is done (or has definitely failed)
            let wait_release = wait_release.lock().unwrap();
            wait_release.recv_timeout(Duration::from_secs(20)).ok();
        });
    }

    // Wait for both pool threads to be occupied
    wait_occupied.recv_timeout(Duration::from_secs(5)).expect("First pool thread busy");
    wait_occupied.recv_timeout(Duration::from_secs(5)).expect("Second pool thread busy");

    let queue   = scheduler.create_job_queue();
    let result  = sync_during_try_sync(&scheduler, &queue);

    // Free up the pool threads again
    release.send(()).ok();
    release.send(()).ok();

    let order   = result.unwrap_or_else(|err| panic!("{}", err));
    assert!(order == vec!["try_sync", "sync"], "Ran in order {:?}", order);

    assert!(scheduler.sync(&queue, || 2) == 2);
}
