//!
//! C06 demonstration: a wake-up for a future job that is suspended on a *pool thread* must not be lost just
//! because a stale waker (one handed out by an earlier poll, in a different runner context) fired first.
//!
//! Sequence (no tight races: every step is observed via the queue's `Debug` output before the next one starts):
//!
//!  1. With no pool threads, a future job `A` is run by a thread inside `sync()`. It is polled twice there (it is
//!     suspended once and woken normally), so the event source ends up holding a waker from that earlier runner
//!     context. Wakers may legitimately be woken at any later time ("spurious"/stale wake-ups).
//!  2. A pool thread is added. A second future job `B` is scheduled, with an ordinary job queued behind it. `B` is
//!     polled by the pool thread, returns `Pending`, and the pool thread parks the queue.
//!  3. The stale waker from step 1 fires (a spurious wake-up as far as `B` is concerned).
//!  4. The real event for `B` happens: the waker registered by `B`'s most recent poll is woken.
//!
//! `B` must now be polled again and complete, and the job queued behind it must run. The test never touches the
//! queue after step 2 other than via the wakers and `Debug`, so only the wake-up itself can resume the queue.
//!
extern crate desync;
extern crate futures;

use desync::scheduler::*;

use futures::task::{Context, Poll, Waker};

use std::future::Future;
use std::pin::Pin;
use std::sync::atomic::{AtomicBool, AtomicUsize, Ordering};
use std::sync::mpsc;
use std::sync::{Arc, Mutex};
use std::thread;
use std::time::{Duration, Instant};

///
/// An external event. Futures waiting for it register their waker every time they are polled; every waker that
/// was ever registered is retained (so the test can fire one from an earlier poll later on)
///
struct Event {
    fired:      AtomicBool,
    poll_count: AtomicUsize,
    wakers:     Mutex<Vec<Waker>>,
}

impl Event {
    fn new() -> Arc<Event> {
        Arc::new(Event { fired: AtomicBool::new(false), poll_count: AtomicUsize::new(0), wakers: Mutex::new(vec![]) })
    }

    fn polls(&self) -> usize {
        self.poll_count.load(Ordering::SeqCst)
    }

    /// The event happens: the most recently registered waker is woken
    fn fire(&self) {
        self.fired.store(true, Ordering::SeqCst);
        let latest = self.wakers.lock().unwrap().last().cloned();
        latest.expect("A waker was registered").wake();
    }

    /// Wakes the waker registered by the n'th poll (without the event happening)
    fn wake_registered_by_poll(&self, n: usize) {
        let waker = self.wakers.lock().unwrap()[n].clone();
        waker.wake();
    }
}

///
/// Future that completes once an event has fired
///
struct WaitFor(Arc<Event>);

impl Future for WaitFor {
    type Output = ();

    fn poll(self: Pin<&mut Self>, context: &mut Context) -> Poll<()> {
        let event = &self.0;

        // Register first, then check (so this future can't miss the event itself)
        event.wakers.lock().unwrap().push(context.waker().clone());
        event.poll_count.fetch_add(1, Ordering::SeqCst);

        if event.fired.load(Ordering::SeqCst) {
            Poll::Ready(())
        } else {
            Poll::Pending
        }
    }
}

///
/// Waits for a condition to become true (up to a timeout)
///
fn wait_until<F: Fn() -> bool>(what: &str, condition: F) {
    let start = Instant::now();
    while !condition() {
        if start.elapsed() > Duration::from_secs(5) {
            panic!("Timed out waiting until {}", what);
        }
        thread::sleep(Duration::from_millis(1));
    }
}

///
/// Runs the scenario. If `fire_stale_waker` is false, step 3 is left out (control run)
///
fn run_scenario(fire_stale_waker: bool) -> Result<(), String> {
    let scheduler   = Arc::new(Scheduler::new());
    let queue       = scheduler.create_job_queue();
    let (log, done) = mpsc::channel::<&'static str>();

    // ---- Step 1: job A is run (and suspended, and woken) by a thread inside sync()
    scheduler.set_max_threads(0);

    let event_a     = Event::new();
    let job_event   = Arc::clone(&event_a);
    let job_log     = log.clone();
    scheduler.future_desync(&queue, move || async move {
        WaitFor(job_event).await;
        job_log.send("A").ok();
    }).detach();

    let firing_event = Arc::clone(&event_a);
    let fire_a = thread::spawn(move || {
        // Once A has been polled by the sync thread, give that thread time to park, then fire the event
        wait_until("job A is polled inside sync", || firing_event.polls() >= 1);
        thread::sleep(Duration::from_millis(50));
        firing_event.fire();
    });

    // There are no pool threads, so sync() drains the queue on this thread: A is polled here
    scheduler.sync(&queue, || { });
    fire_a.join().unwrap();

    if done.recv_timeout(Duration::from_secs(2)) != Ok("A") { return Err(format!("Job A did not complete. Queue: {:?}", queue)); }
    if event_a.polls() < 2 { return Err(format!("Expected job A to be polled at least twice inside sync (was {})", event_a.polls())); }

    // ---- Step 2: job B is suspended on a pool thread, with an ordinary job queued behind it
    let event_b     = Event::new();
    let job_event   = Arc::clone(&event_b);
    let job_log     = log.clone();
    scheduler.future_desync(&queue, move || async move {
        WaitFor(job_event).await;
        job_log.send("B").ok();
    }).detach();

    let job_log     = log.clone();
    scheduler.desync(&queue, move || { job_log.send("behind B").ok(); });

    // Adding a pool thread starts the queue running there
    scheduler.set_max_threads(1);

    wait_until("job B is polled by the pool thread", || event_b.polls() >= 1);
    wait_until("the pool thread has parked the queue", || format!("{:?}", queue).contains("WaitingForWake"));

    let parked_state = format!("{:?}", queue);

    // ---- Step 3: a stale waker (registered by A's first poll, in the sync context) fires
    if fire_stale_waker {
        event_a.wake_registered_by_poll(0);
        thread::sleep(Duration::from_millis(50));
    }

    let before_event_state = format!("{:?}", queue);
    if event_b.polls() != 1 { return Err(format!("Job B polled {} times before its event", event_b.polls())); }

    // ---- Step 4: the real event for B
    event_b.fire();

    // B must be polled again and complete, then the job behind it must run
    let first   = done.recv_timeout(Duration::from_secs(2));
    let second  = done.recv_timeout(Duration::from_secs(2));

    if first != Ok("B") || second != Ok("behind B") {
        return Err(format!("wake-up was lost (stale waker fired first: {}): after B's waker was woken, B completed: {:?}, job behind B ran: {:?}. B was polled {} time(s). \
            Queue when parked: [{}], just before the event: [{}], now: [{:?}]. Scheduler: {:?}",
            fire_stale_waker, first.is_ok(), second.is_ok(), event_b.polls(), parked_state, before_event_state, queue, scheduler));
    }

    Ok(())
}

#[test]
fn control_wake_of_future_suspended_on_pool_thread() {
    for _ in 0..3 {
        run_scenario(false).unwrap();
    }
}

#[test]
fn wake_of_future_suspended_on_pool_thread_after_stale_sync_waker_fires() {
    for _ in 0..3 {
        if let Err(problem) = run_scenario(true) {
            panic!("{}", problem);
        }
    }
}
