//! C12 demonstration: a pipe with a back-pressure depth of 1 read by a consumer whose waker is 'slow to return'
//! (the woken consumer thread gets to run before `wake()` returns to the caller).
//!
//! The consumer is an ordinary hand-rolled executor: poll the stream until it is Pending, park until the waker
//! fires, repeat. The only unusual thing is that `wake()` hands over to the consumer thread and waits (bounded) for
//! it to go idle again before returning, which pins down one legal interleaving of producer and consumer: the consumer
//! reads everything that is buffered and goes back to waiting while the producing job is still inside `wake()`.
//!
//! Every value sent must come out of the pipe exactly once, in order, followed by the end of the stream, and the
//! consumer must never be left parked while there is input outstanding.

use desync::{pipe, Desync};

use futures::channel::mpsc;
use futures::future;
use futures::prelude::*;
use futures::task::{self, ArcWake, Context, Poll};

use std::sync::{Arc, Condvar, Mutex};
use std::thread;
use std::time::{Duration, Instant};

/// How long the consumer will stay parked before deciding that nothing is ever going to wake it
const STALL_TIMEOUT: Duration = Duration::from_secs(3);

/// Upper bound on how long `wake()` waits for the consumer to go idle (only a safety net: never reached in practice)
const HANDOVER_TIMEOUT: Duration = Duration::from_millis(500);

#[derive(Default)]
struct ConsumerState {
    /// Set by the waker, cleared by the consumer when it resumes polling
    woken:      bool,
    /// Incremented every time the consumer has polled the stream to `Pending` and is about to park
    idle_count: usize,
    /// Set once the consumer has seen the end of the stream (or given up)
    finished:   bool,
}

#[derive(Default)]
struct Consumer {
    state:      Mutex<ConsumerState>,
    changed:    Condvar,
}

struct HandoverWaker(Arc<Consumer>);

impl ArcWake for HandoverWaker {
    fn wake_by_ref(arc_self: &Arc<Self>) {
        let consumer    = &arc_self.0;
        let mut state   = consumer.state.lock().unwrap();

        // Wake the consumer thread...
        state.woken     = true;
        consumer.changed.notify_all();

        // ... and let it run until it next goes idle before returning to whoever woke us
        let idle_at_wake    = state.idle_count;
        let give_up         = Instant::now() + HANDOVER_TIMEOUT;
        while !state.finished && state.idle_count == idle_at_wake {
            let now = Instant::now();
            if now >= give_up { break; }
            state = consumer.changed.wait_timeout(state, give_up - now).unwrap().0;
        }
    }
}

/// Reads `stream` to the end on the current thread, returning what was read and whether the consumer stalled
fn consume<S: Stream<Item=usize> + Unpin>(mut stream: S) -> (Vec<usize>, bool) {
    let consumer    = Arc::new(Consumer::default());
    let waker       = task::waker(Arc::new(HandoverWaker(Arc::clone(&consumer))));
    let mut context = Context::from_waker(&waker);
    let mut output  = vec![];
    let mut stalled = false;

    loop {
        match stream.poll_next_unpin(&mut context) {
            Poll::Ready(Some(item)) => { output.push(item); }
            Poll::Ready(None)       => { break; }

            Poll::Pending           => {
                // Idle: park until the waker fires
                let mut state       = consumer.state.lock().unwrap();
                state.idle_count    += 1;
                consumer.changed.notify_all();

                let give_up = Instant::now() + STALL_TIMEOUT;
                while !state.woken {
                    let now = Instant::now();
                    if now >= give_up { stalled = true; break; }
                    state = consumer.changed.wait_timeout(state, give_up - now).unwrap().0;
                }
                state.woken = false;

                if stalled { break; }
            }
        }
    }

    // Release anything that's still inside wake()
    consumer.state.lock().unwrap().finished = true;
    consumer.changed.notify_all();

    (output, stalled)
}

fn run_pipe(depth: usize, num_items: usize, send_gap: Option<Duration>) {
    let (sender, receiver)  = mpsc::unbounded::<usize>();
    let obj                 = Arc::new(Desync::new(1000usize));
    let mut pipe_out        = pipe(Arc::clone(&obj), receiver, |core, item: usize| future::ready(item + *core).boxed());
    pipe_out.set_backpressure_depth(depth);

    // The input arrives from another thread, then the input stream ends
    let send_thread = thread::spawn(move || {
        for item in 0..num_items {
            sender.unbounded_send(item).unwrap();
            if let Some(send_gap) = send_gap { thread::sleep(send_gap); }
        }
    });

    let (output, stalled)   = consume(pipe_out);
    let expected            = (0..num_items).map(|item| item + 1000).collect::<Vec<_>>();

    send_thread.join().unwrap();

    assert!(!stalled, "depth {}: consumer was left waiting after reading {} of {} items (nothing woke it for {:?})", depth, output.len(), num_items, STALL_TIMEOUT);
    assert!(output == expected, "depth {}: pipe output was not one-per-input in order: read {} items, expected {}", depth, output.len(), num_items);
}

#[test]
fn pipe_delivers_everything_at_every_depth() {
    for depth in 1..=5 {
        // Input arriving as fast as it can be sent, and input trickling in
        run_pipe(depth, 200, None);
        run_pipe(depth, 20, Some(Duration::from_millis(1)));
    }
}

#[test]
fn pipe_depth_1_trickling_input() {
    for _ in 0..5 {
        run_pipe(1, 10, Some(Duration::from_millis(2)));
    }
}
