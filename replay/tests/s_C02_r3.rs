//
// Demonstration for property C02 (operations on one queue run in the order their scheduling calls were made).
//
// Scenario (one pool thread, private scheduler):
//
//  * The only pool thread is kept busy by a long job on an unrelated queue, so the queue under test stays in the
//    scheduler's list of pending queues without being picked up.
//  * On the queue under test we call `future_desync` (J1: waits for an external oneshot) and then `desync` (J2).
//    Both calls have returned, so J1 must finish before J2 starts.
//  * The test thread polls J1's future by hand. The future claims the queue and runs J1 on the polling thread; J1 is
//    not ready, so the queue is parked in the 'waiting for the next poll' state and the poll returns Pending.
//  * While parking the queue, the future clones the waker it was polled with. The hand-rolled waker used here uses
//    that moment (and only once it can see that the queue has been parked) to let the pool thread go: the pool thread
//    finishes its long job, finds the queue under test still in the schedule and takes it over.
//
// Whoever takes the queue over at that point must continue with J1 (it is still unfinished). J2 must not start until
// the external oneshot has been signalled and J1 has completed.
//

use desync::scheduler::*;

use futures::prelude::*;
use futures::channel::oneshot;
use futures::task::{Context, Poll};

use std::sync::*;
use std::sync::atomic::{AtomicBool, Ordering};
use std::task::{RawWaker, RawWakerVTable, Waker};
use std::thread;
use std::time::{Duration, Instant};

///
/// State shared by all the clones of the hand-rolled waker
///
struct HookState {
    /// The scheduler that owns the pool thread
    scheduler:  Arc<Scheduler>,

    /// The queue under test
    queue:      Arc<JobQueue>,

    /// Set to true to let the job that keeps the pool thread busy finish
    release:    Arc<AtomicBool>,

    /// True once the hook has let the pool thread go
    triggered:  AtomicBool,

    /// Set if the waker is woken
    woken:      AtomicBool
}

impl HookState {
    ///
    /// Called whenever the waker is cloned. Once the queue under test can be seen to be parked waiting for the next poll, lets the
    /// pool thread finish what it was doing and waits for it to run out of work
    ///
    fn on_clone(&self) {
        if self.triggered.load(Ordering::SeqCst) { return; }
        if !format!("{:?}", self.queue).contains("WaitingForPoll") { return; }

        self.triggered.store(true, Ordering::SeqCst);

        // Let the pool thread go
        self.release.store(true, Ordering::SeqCst);

        // Wait for the pool thread to become idle again (it has then done everything it is going to do with the queues that were in the schedule)
        let start = Instant::now();
        while start.elapsed() < Duration::from_secs(5) {
            if format!("{:?}", self.scheduler).starts_with("I") { break; }
            thread::sleep(Duration::from_millis(1));
        }
        thread::sleep(Duration::from_millis(20));
    }
}

unsafe fn hook_clone(data: *const ()) -> RawWaker {
    let state = &*(data as *const HookState);
    state.on_clone();

    Arc::increment_strong_count(data as *const HookState);
    RawWaker::new(data, &HOOK_VTABLE)
}

unsafe fn hook_wake(data: *const ()) {
    hook_wake_by_ref(data);
    hook_drop(data);
}

unsafe fn hook_wake_by_ref(data: *const ()) {
    let state = &*(data as *const HookState);
    state.woken.store(true, Ordering::SeqCst);
}

unsafe fn hook_drop(data: *const ()) {
    Arc::decrement_strong_count(data as *const HookState);
}

static HOOK_VTABLE: RawWakerVTable = RawWakerVTable::new(hook_clone, hook_wake, hook_wake_by_ref, hook_drop);

fn hook_waker(state: Arc<HookState>) -> Waker {
    unsafe { Waker::from_raw(RawWaker::new(Arc::into_raw(state) as *const (), &HOOK_VTABLE)) }
}

///
/// Waits for a condition to become true (returns false if it doesn't within the timeout)
///
fn wait_for<F: Fn() -> bool>(condition: F, timeout: Duration) -> bool {
    let start = Instant::now();
    while start.elapsed() < timeout {
        if condition() { return true; }
        thread::sleep(Duration::from_millis(1));
    }
    condition()
}

fn one_round(round: usize) {
    // Private scheduler with a single pool thread
    let scheduler = Arc::new(Scheduler::new());
    scheduler.set_max_threads(1);

    // Keep the pool thread busy on an unrelated queue until 'release' is set
    let blocker_queue   = scheduler.create_job_queue();
    let started         = Arc::new(AtomicBool::new(false));
    let release         = Arc::new(AtomicBool::new(false));

    {
        let started = Arc::clone(&started);
        let release = Arc::clone(&release);
        scheduler.desync(&blocker_queue, move || {
            started.store(true, Ordering::SeqCst);
            while !release.load(Ordering::SeqCst) { thread::sleep(Duration::from_millis(1)); }
        });
    }
    assert!(wait_for(|| started.load(Ordering::SeqCst), Duration::from_secs(5)), "round {}: pool thread never started", round);

    // The queue under test: J1 (future_desync, waits for 'ext') then J2 (desync)
    let queue               = scheduler.create_job_queue();
    let log                 = Arc::new(Mutex::new(Vec::<&'static str>::new()));
    let (ext_send, ext_recv) = oneshot::channel::<()>();

    let log1    = Arc::clone(&log);
    let mut j1  = scheduler.future_desync(&queue, move || async move {
        log1.lock().unwrap().push("J1 start");
        ext_recv.await.ok();
        log1.lock().unwrap().push("J1 finish");
    });

    let log2    = Arc::clone(&log);
    scheduler.desync(&queue, move || {
        log2.lock().unwrap().push("J2 start");
    });

    // Poll J1's future once by hand, using the waker that lets the pool thread go while the queue is being parked
    let hook_state = Arc::new(HookState {
        scheduler:  Arc::clone(&scheduler),
        queue:      Arc::clone(&queue),
        release:    Arc::clone(&release),
        triggered:  AtomicBool::new(false),
        woken:      AtomicBool::new(false)
    });
    let waker       = hook_waker(Arc::clone(&hook_state));
    let mut context = Context::from_waker(&waker);

    let poll_result = j1.poll_unpin(&mut context);
    assert!(poll_result.is_pending(), "round {}: J1 cannot be finished yet", round);
    assert!(hook_state.triggered.load(Ordering::SeqCst), "round {}: queue was never seen parked for the next poll", round);

    // The pool thread is idle again. J1 has started but cannot have finished, so J2 must not have started
    thread::sleep(Duration::from_millis(50));
    {
        let log = log.lock().unwrap();
        assert!(*log == vec!["J1 start"], "round {}: J2 started before J1 finished (ext not yet signalled): {:?}", round, *log);
    }

    // Let J1 finish: both jobs now complete, in order
    ext_send.send(()).unwrap();

    assert!(wait_for(|| log.lock().unwrap().len() == 3, Duration::from_secs(5)), "round {}: jobs never completed: {:?}", round, log.lock().unwrap());
    {
        let log = log.lock().unwrap();
        assert!(*log == vec!["J1 start", "J1 finish", "J2 start"], "round {}: operations ran out of order: {:?}", round, *log);
    }

    // The result of J1 is delivered through the future
    let start = Instant::now();
    loop {
        match j1.poll_unpin(&mut context) {
            Poll::Ready(result) => { assert!(result == Ok(())); break; }
            Poll::Pending       => { assert!(start.elapsed() < Duration::from_secs(5), "round {}: J1 future never completed", round); thread::sleep(Duration::from_millis(1)); }
        }
    }

    // Everything on the queue has been run
    scheduler.sync(&queue, || { });
}

#[test]
fn polled_future_keeps_call_order_when_pool_thread_takes_over() {
    for round in 0..5 {
        one_round(round);
    }
}
