//
// Demonstration for C03: "no operation is lost, duplicated or left stranded".
//
// The sequence of events here is:
//
//  1. Every thread in the pool is busy with other queues (the pool is exactly at its maximum).
//  2. future_desync() schedules a future job on a queue. There's no thread to run it on, so the queue is left pending.
//  3. The future returned by future_desync() is polled, once. As the queue is pending, the poll claims the queue and runs
//     the job on the polling thread. The job isn't ready yet, so the poll returns 'pending' with the queue waiting to be
//     polled again (while this is going on, the pool threads finish what they were doing and go dormant).
//  4. The thing doing the polling gives up on the future: it's detached and never polled again.
//  5. The job is woken up.
//
// Nothing is blocking the job now, and there are idle threads in the pool, so the job must get run to completion without
// anything else having to kick the queue (and in particular without anything having to poll the future again). Once it's
// done, the queue must be idle with nothing on it, and jobs scheduled after it must run.
//
extern crate desync;
extern crate futures;

use desync::scheduler::*;

use futures::task::{ArcWake, waker};

use std::future::Future;
use std::pin::Pin;
use std::sync::{Arc, Mutex};
use std::sync::atomic::{AtomicBool, AtomicUsize, Ordering};
use std::sync::mpsc;
use std::task::{Context, Poll, Waker};
use std::thread;
use std::time::{Duration, Instant};

const TIMEOUT: Duration = Duration::from_secs(5);

///
/// Waker that just counts the number of times that it has been woken
///
struct CountWakes(AtomicUsize);

impl ArcWake for CountWakes {
    fn wake_by_ref(arc_self: &Arc<Self>) {
        arc_self.0.fetch_add(1, Ordering::SeqCst);
    }
}

///
/// Future that stays pending until it's told to finish. Every time it's polled it calls a function and sends out the waker that it was polled with.
///
struct WaitUntilFinished<OnPoll: FnMut() -> ()> {
    finish:     Arc<AtomicBool>,
    on_poll:    OnPoll,
    waker_out:  mpsc::Sender<Waker>
}

impl<OnPoll: Unpin+FnMut() -> ()> Future for WaitUntilFinished<OnPoll> {
    type Output = ();

    fn poll(mut self: Pin<&mut Self>, context: &mut Context) -> Poll<()> {
        if self.finish.load(Ordering::SeqCst) {
            Poll::Ready(())
        } else {
            (self.on_poll)();
            self.waker_out.send(context.waker().clone()).ok();
            Poll::Pending
        }
    }
}

///
/// Waits for something to become true (returns false if it doesn't before the timeout expires)
///
fn wait_for<TFn: Fn() -> bool>(condition: TFn, timeout: Duration) -> bool {
    let start = Instant::now();

    while Instant::now().duration_since(start) < timeout {
        if condition() { return true; }
        thread::sleep(Duration::from_millis(1));
    }

    condition()
}

///
/// Makes every thread in the pool busy, by scheduling `num_threads` queues with a job that blocks until the corresponding sender is used or dropped
///
fn occupy_pool_threads(scheduler: &Scheduler, num_threads: usize) -> Vec<mpsc::Sender<()>> {
    let (started_send, started_recv)    = mpsc::channel();
    let mut release                     = vec![];

    for _ in 0..num_threads {
        let blocker_queue                   = scheduler.create_job_queue();
        let started_send                    = started_send.clone();
        let (release_send, release_recv)    = mpsc::channel::<()>();

        scheduler.desync(&blocker_queue, move || {
            started_send.send(()).ok();
            release_recv.recv_timeout(Duration::from_secs(20)).ok();
        });

        release.push(release_send);
    }

    for _ in 0..num_threads {
        started_recv.recv_timeout(TIMEOUT).expect("Pool threads should all start running the blocking jobs");
    }

    release
}

fn job_woken_after_its_future_was_polled_once_and_abandoned(max_threads: usize) {
    let scheduler   = Arc::new(Scheduler::new());
    scheduler.set_max_threads(max_threads);

    let queue       = scheduler.create_job_queue();
    let describe    = || format!("max_threads={}: queue=({:?}) scheduler=({:?})", max_threads, queue, scheduler);
    let all_dormant = format!("{} Pending queue count: 0", "I".repeat(max_threads));

    // 1. Every pool thread gets busy
    let release_pool = Mutex::new(Some(occupy_pool_threads(&scheduler, max_threads)));

    // 2. Schedule a future job on the queue: there's no thread to run it on at the moment, so the queue is left pending.
    let finish                  = Arc::new(AtomicBool::new(false));
    let job_complete            = Arc::new(AtomicBool::new(false));
    let (waker_out, waker_in)   = mpsc::channel();

    // When the job is polled (which will be from this thread, in step 3), the pool threads finish what they're doing and go dormant
    let poll_scheduler      = Arc::clone(&scheduler);
    let poll_all_dormant    = all_dormant.clone();
    let on_poll             = move || {
        if let Some(release_pool) = release_pool.lock().unwrap().take() {
            release_pool.into_iter().for_each(|release| { release.send(()).ok(); });
            assert!(wait_for(|| format!("{:?}", poll_scheduler) == poll_all_dormant, TIMEOUT), "Pool threads should all go dormant: {:?}", poll_scheduler);
        }
    };

    let wait_until_finished = WaitUntilFinished { finish: Arc::clone(&finish), on_poll: on_poll, waker_out: waker_out };
    let future_complete     = Arc::clone(&job_complete);
    let mut future          = scheduler.future_desync(&queue, move || async move {
        wait_until_finished.await;
        future_complete.store(true, Ordering::SeqCst);
    });

    thread::sleep(Duration::from_millis(20));
    assert!(format!("{:?}", queue).contains("State: Pending, Pending: 1"), "Queue should be pending: {}", describe());

    // 3. Poll the future once. It's not ready yet, so this should return pending
    let poll_wakes      = Arc::new(CountWakes(AtomicUsize::new(0)));
    let poll_waker      = waker(Arc::clone(&poll_wakes));
    let mut context     = Context::from_waker(&poll_waker);

    let poll_result     = Pin::new(&mut future).poll(&mut context);
    assert!(poll_result.is_pending());
    assert!(format!("{:?}", scheduler) == all_dormant, "Pool threads should be dormant: {}", describe());

    // 4. Give up on the future. It runs to completion even if the return value is discarded, so this doesn't cancel the job
    future.detach();

    // 5. Wake the job up. It's ready to finish when it's next polled
    let job_waker = waker_in.recv_timeout(TIMEOUT).expect("Job should have been polled");
    finish.store(true, Ordering::SeqCst);
    job_waker.wake();

    // The job should finish by itself, leaving the queue idle
    let completed = wait_for(|| job_complete.load(Ordering::SeqCst), Duration::from_secs(2));
    assert!(completed, "Job was woken while there were idle pool threads, but it was never run again (context woken {} times): {}", poll_wakes.0.load(Ordering::SeqCst), describe());

    let went_idle = wait_for(|| format!("{:?}", queue).contains("State: Idle, Pending: 0"), Duration::from_secs(2));
    assert!(went_idle, "Queue never went idle: {}", describe());

    // ... and jobs scheduled behind it should run too
    let (done_send, done_recv) = mpsc::channel();
    scheduler.desync(&queue, move || { done_send.send(()).ok(); });

    let next_job_ran = done_recv.recv_timeout(Duration::from_secs(2)).is_ok();
    assert!(next_job_ran, "Next job was never run: {}", describe());
}

#[test]
fn job_woken_after_its_future_was_polled_once_and_abandoned_1_thread() {
    job_woken_after_its_future_was_polled_once_and_abandoned(1);
}

#[test]
fn job_woken_after_its_future_was_polled_once_and_abandoned_2_threads() {
    job_woken_after_its_future_was_polled_once_and_abandoned(2);
}

#[test]
fn job_woken_after_its_future_was_polled_once_and_abandoned_3_threads() {
    job_woken_after_its_future_was_polled_once_and_abandoned(3);
}
