//
// Demonstration for C17 ("the pool never exceeds its configured maximum"):
//
// Lowering the maximum and then calling `despawn_threads_if_overloaded()` must bring the pool down to the
// new maximum and return - including when the pool threads are in the middle of running jobs at that moment
// (the call waits for the threads it stops to finish what they are doing).
//
extern crate desync;

use desync::scheduler::*;

use std::collections::HashSet;
use std::sync::*;
use std::sync::mpsc::*;
use std::thread;
use std::time::*;

/// Number of pool threads the scheduler owns (one letter per thread in the Debug output)
fn pool_size(scheduler: &Scheduler) -> usize {
    let debug = format!("{:?}", scheduler);
    debug.split(' ').next().unwrap_or("").chars().filter(|c| *c == 'B' || *c == 'I').count()
}

/// Waits for a condition to become true
fn wait_for<F: Fn() -> bool>(what: &str, cond: F) {
    let start = Instant::now();
    while !cond() {
        assert!(start.elapsed() < Duration::from_secs(10), "Timed out waiting for: {}", what);
        thread::sleep(Duration::from_millis(2));
    }
}

fn lower_maximum_while_busy(old_max: usize, new_max: usize) {
    let scheduler = Arc::new(Scheduler::new());
    scheduler.set_max_threads(0);
    scheduler.despawn_threads_if_overloaded();
    assert!(pool_size(&scheduler) == 0, "Expected an empty pool to start with: {:?}", scheduler);

    // Phase 1: fill the pool with `old_max` threads, each in the middle of a job
    scheduler.set_max_threads(old_max);

    let started     = Arc::new(Mutex::new(HashSet::new()));
    let release     = Arc::new((Mutex::new(false), Condvar::new()));
    let queues      = (0..old_max).map(|_| scheduler.create_job_queue()).collect::<Vec<_>>();

    for queue in queues.iter() {
        let started = Arc::clone(&started);
        let release = Arc::clone(&release);

        scheduler.desync(queue, move || {
            started.lock().unwrap().insert(thread::current().id());

            let mut released = release.0.lock().unwrap();
            while !*released {
                released = release.1.wait(released).unwrap();
            }
        });
    }

    wait_for("all phase 1 jobs to be running", || started.lock().unwrap().len() == old_max);
    assert!(pool_size(&scheduler) == old_max, "Pool should have {} threads: {:?}", old_max, scheduler);

    // Phase 2: lower the maximum while every thread is busy, and despawn. The busy jobs are released a little later.
    scheduler.set_max_threads(new_max);
    assert!(pool_size(&scheduler) == old_max, "set_max_threads does not despawn: {:?}", scheduler);

    let releaser = {
        let release = Arc::clone(&release);
        thread::spawn(move || {
            thread::sleep(Duration::from_millis(150));
            *release.0.lock().unwrap() = true;
            release.1.notify_all();
        })
    };

    let (done_send, done_recv) = channel();
    {
        let scheduler = Arc::clone(&scheduler);
        thread::spawn(move || {
            scheduler.despawn_threads_if_overloaded();
            done_send.send(()).ok();
        });
    }

    done_recv.recv_timeout(Duration::from_secs(10)).expect("despawn_threads_if_overloaded should return");
    releaser.join().unwrap();

    let size_after_despawn = pool_size(&scheduler);
    assert!(size_after_despawn <= new_max,
        "Pool has {} threads after lowering the maximum from {} to {} and despawning: {:?}", size_after_despawn, old_max, new_max, scheduler);

    // Phase 3: more work than there are threads; it must be carried by at most `new_max` pool threads (or, with none, by the caller)
    for queue in queues.iter() {
        scheduler.sync(queue, || { });
    }

    let ran_on      = Arc::new(Mutex::new(HashSet::new()));
    let num_done    = Arc::new(Mutex::new(0));
    let num_jobs    = old_max * 2;
    let more_queues = (0..num_jobs).map(|_| scheduler.create_job_queue()).collect::<Vec<_>>();

    for queue in more_queues.iter() {
        let ran_on      = Arc::clone(&ran_on);
        let num_done    = Arc::clone(&num_done);

        scheduler.desync(queue, move || {
            ran_on.lock().unwrap().insert(thread::current().id());
            thread::sleep(Duration::from_millis(20));
            *num_done.lock().unwrap() += 1;
        });

        assert!(pool_size(&scheduler) <= new_max, "Scheduling made the pool exceed the maximum of {}: {:?}", new_max, scheduler);
    }

    // The caller carries whatever the pool does not
    for queue in more_queues.iter() {
        scheduler.sync(queue, || { });
    }

    wait_for("phase 3 jobs to finish", || *num_done.lock().unwrap() == num_jobs);

    let caller      = thread::current().id();
    let pool_ids    = ran_on.lock().unwrap().iter().filter(|id| **id != caller).count();

    assert!(pool_ids <= new_max, "Jobs ran on {} distinct pool threads with a maximum of {}: {:?}", pool_ids, new_max, scheduler);
    assert!(pool_size(&scheduler) <= new_max, "Pool exceeds the maximum of {}: {:?}", new_max, scheduler);
}

#[test]
fn lowering_maximum_from_3_to_1_while_busy() {
    lower_maximum_while_busy(3, 1);
}

#[test]
fn lowering_maximum_from_2_to_0_while_busy() {
    lower_maximum_while_busy(2, 0);
}

#[test]
fn lowering_maximum_from_3_to_2_while_busy() {
    lower_maximum_while_busy(3, 2);
}
