//
// Demonstration for C11: once the input stream of a pipe_in has ended, the pipe must stop: the stream and the processing closure
// are released, and the stream is never polled again.
//
// The stream used here is the receiving end of a small hand-rolled channel. Like many hand-written streams, it stores the most
// recent waker every time it is polled, including during the poll that discovers that the channel was closed. The sending end
// outlives the stream, so that last waker stays around after the stream has finished (and a sender may well call it again:
// waking a stale waker is always allowed).
//

extern crate desync;
extern crate futures;

use desync::*;

use futures::future;
use futures::prelude::*;
use futures::task::{Context, Poll, Waker};

use std::collections::VecDeque;
use std::pin::Pin;
use std::sync::atomic::{AtomicBool, AtomicUsize, Ordering};
use std::sync::*;
use std::thread;
use std::time::{Duration, Instant};

///
/// State shared between the two ends of the channel
///
struct Shared {
    items:  VecDeque<usize>,
    closed: bool,
    waker:  Option<Waker>
}

///
/// The sending end of the channel
///
struct TestSender {
    shared: Arc<Mutex<Shared>>
}

///
/// The receiving end of the channel
///
struct TestReceiver {
    shared:             Arc<Mutex<Shared>>,

    /// Set to true once this stream has returned None
    ended:              bool,

    /// Number of times this was polled after it returned None
    polled_after_end:   Arc<AtomicUsize>,

    /// Set to true when this is dropped
    dropped:            Arc<AtomicBool>
}

impl TestSender {
    /// Wakes whatever is waiting for the receiver
    fn wake(&self) {
        let waker = self.shared.lock().unwrap().waker.take();
        waker.map(|waker| waker.wake());
    }

    /// Sends an item to the receiver
    fn send(&self, item: usize) {
        self.shared.lock().unwrap().items.push_back(item);
        self.wake();
    }

    /// Closes the channel: the receiver ends once the items sent so far have been read
    fn close(&self) {
        self.shared.lock().unwrap().closed = true;
        self.wake();
    }
}

impl Stream for TestReceiver {
    type Item = usize;

    fn poll_next(mut self: Pin<&mut Self>, context: &mut Context) -> Poll<Option<usize>> {
        if self.ended {
            self.polled_after_end.fetch_add(1, Ordering::SeqCst);
        }

        let shared      = Arc::clone(&self.shared);
        let mut shared  = shared.lock().unwrap();

        // Always wake the most recent poller
        shared.waker = Some(context.waker().clone());

        if let Some(item) = shared.items.pop_front() {
            Poll::Ready(Some(item))
        } else if shared.closed {
            self.ended = true;
            Poll::Ready(None)
        } else {
            Poll::Pending
        }
    }
}

impl Drop for TestReceiver {
    fn drop(&mut self) {
        self.dropped.store(true, Ordering::SeqCst);
    }
}

///
/// Creates a channel
///
fn channel() -> (TestSender, TestReceiver, Arc<AtomicUsize>, Arc<AtomicBool>) {
    let shared              = Arc::new(Mutex::new(Shared { items: VecDeque::new(), closed: false, waker: None }));
    let polled_after_end    = Arc::new(AtomicUsize::new(0));
    let dropped             = Arc::new(AtomicBool::new(false));

    let sender              = TestSender { shared: Arc::clone(&shared) };
    let receiver            = TestReceiver { shared: shared, ended: false, polled_after_end: Arc::clone(&polled_after_end), dropped: Arc::clone(&dropped) };

    (sender, receiver, polled_after_end, dropped)
}

///
/// Waits for a condition to become true (returns false if it doesn't within the timeout)
///
fn wait_for<F: FnMut() -> bool>(timeout: Duration, mut condition: F) -> bool {
    let deadline = Instant::now() + timeout;

    loop {
        if condition() { return true; }
        if Instant::now() >= deadline { return false; }

        thread::sleep(Duration::from_millis(5));
    }
}

#[test]
fn pipe_in_releases_stream_and_closure_when_the_stream_ends() {
    let (sender, receiver, _polled_after_end, stream_dropped) = channel();

    let obj             = Arc::new(Desync::new(vec![]));
    let token           = Arc::new(());
    let closure_token   = Arc::clone(&token);

    pipe_in(Arc::clone(&obj), receiver, move |items: &mut Vec<usize>, item| {
        let _in_use = &closure_token;
        items.push(item);
        future::ready(()).boxed()
    });

    // Send some items, then finish the stream
    sender.send(1);
    sender.send(2);
    thread::sleep(Duration::from_millis(20));
    sender.send(3);
    assert!(wait_for(Duration::from_secs(3), || obj.sync(|items| items.clone()) == vec![1, 2, 3]), "Items were not processed: {:?}", obj.sync(|items| items.clone()));

    sender.close();

    // The pipe stops, releasing the stream and the closure (the desync and the sender are both still around)
    let stream_released     = wait_for(Duration::from_secs(2), || stream_dropped.load(Ordering::SeqCst));
    let closure_released    = wait_for(Duration::from_secs(2), || Arc::strong_count(&token) == 1);

    assert!(stream_released, "The stream has ended, but pipe_in has not released it");
    assert!(closure_released, "The stream has ended, but pipe_in has not released the processing closure");

    assert!(obj.sync(|items| items.clone()) == vec![1, 2, 3]);
    drop(sender);
}

#[test]
fn pipe_in_does_not_poll_the_stream_again_after_it_has_ended() {
    let (sender, receiver, polled_after_end, _stream_dropped) = channel();

    let obj = Arc::new(Desync::new(vec![]));

    pipe_in(Arc::clone(&obj), receiver, move |items: &mut Vec<usize>, item| {
        items.push(item);
        future::ready(()).boxed()
    });

    // Send some items, then finish the stream
    sender.send(1);
    sender.send(2);
    sender.send(3);
    assert!(wait_for(Duration::from_secs(3), || obj.sync(|items| items.clone()) == vec![1, 2, 3]), "Items were not processed: {:?}", obj.sync(|items| items.clone()));

    sender.close();
    thread::sleep(Duration::from_millis(50));
    obj.sync(|_| { });

    // A sender that doesn't know that the other end is finished carries on, calling the last waker it was given
    sender.send(4);
    thread::sleep(Duration::from_millis(100));
    obj.sync(|_| { });

    // The stream yielded exactly 1, 2, 3 and then ended: that's all that should ever be processed, and nothing should touch the stream after that
    let polled_after_end    = polled_after_end.load(Ordering::SeqCst);
    let items               = obj.sync(|items| items.clone());

    assert!(polled_after_end == 0, "The stream was polled {} time(s) after it ended (items processed: {:?})", polled_after_end, items);
    assert!(items == vec![1, 2, 3], "Items processed after the stream ended: {:?}", items);
}
