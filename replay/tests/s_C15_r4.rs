//
// Demonstration for C15: "a panicking operation is contained to its own object"
//
// Once an operation has panicked and the unwinding has finished, every further scheduling attempt on that
// object must fail loudly (panic): it must not be silently accepted and then never run, and it must not block.
//
// What is special about the operations that panic here is that the queue received a wake-up (from the job's own
// waker, or from a stale clone of a waker handed out to an earlier job) while the panicking job was running.
//

extern crate desync;
extern crate futures;

use desync::Desync;
use desync::scheduler::*;

use futures::prelude::*;
use futures::task::{Context, Poll, Waker};

use std::mem;
use std::panic::{catch_unwind, AssertUnwindSafe};
use std::pin::Pin;
use std::sync::*;
use std::sync::mpsc::*;
use std::thread;
use std::time::{Duration, Instant};

/// Sends a message when it is dropped (used to find out that a job has been unwound)
struct OnDrop(Sender<()>);

impl Drop for OnDrop {
    fn drop(&mut self) { self.0.send(()).ok(); }
}

/// Future that wakes its own context and then panics in the same poll
struct WakeThenPanic(Option<OnDrop>);

impl Future for WakeThenPanic {
    type Output = ();

    fn poll(self: Pin<&mut Self>, context: &mut Context) -> Poll<()> {
        context.waker().wake_by_ref();
        panic!("seed_demo: deliberate panic after waking");
    }
}

/// Future that parks its waker in a shared slot, and finishes when polled for the second time
struct StashWaker(Arc<Mutex<Option<Waker>>>, bool);

impl Future for StashWaker {
    type Output = ();

    fn poll(mut self: Pin<&mut Self>, context: &mut Context) -> Poll<()> {
        if self.1 {
            Poll::Ready(())
        } else {
            self.1 = true;
            *self.0.lock().unwrap() = Some(context.waker().clone());
            Poll::Pending
        }
    }
}

/// Waits until the debug description of a queue contains a string (or the timeout expires), returns the final description
fn wait_for_state(queue: &Arc<JobQueue>, expected: &str, millis: u64) -> String {
    let start = Instant::now();

    loop {
        let description = format!("{:?}", queue);
        if description.contains(expected) || start.elapsed() > Duration::from_millis(millis) {
            return description;
        }

        thread::sleep(Duration::from_millis(5));
    }
}

/// Runs an action on another thread; Some(true) if it panicked, Some(false) if it returned, None if it was still blocked after the timeout
fn panics_within<TFn: 'static+Send+FnOnce() -> ()>(action: TFn, millis: u64) -> Option<bool> {
    let (tx, rx) = channel();

    thread::spawn(move || {
        let result = catch_unwind(AssertUnwindSafe(action));
        tx.send(result.is_err()).ok();
    });

    rx.recv_timeout(Duration::from_millis(millis)).ok()
}

/// Checks that a queue whose job has panicked refuses everything that is scheduled on it afterwards
fn assert_queue_fails_loudly(scheduler: &Arc<Scheduler>, queue: &Arc<JobQueue>) {
    // Give the unwinding thread time to finish
    let description = wait_for_state(queue, "Panicked", 2000);
    thread::sleep(Duration::from_millis(50));

    // desync() must panic instead of silently accepting a job that will never run
    let ran             = Arc::new(Mutex::new(false));
    let also_ran        = Arc::clone(&ran);
    let desync_result   = catch_unwind(AssertUnwindSafe(|| scheduler.desync(queue, move || { *also_ran.lock().unwrap() = true; })));

    thread::sleep(Duration::from_millis(100));
    assert!(desync_result.is_err(), "desync() on a queue whose job panicked was silently accepted (job ran: {}, queue: {} / {:?})", *ran.lock().unwrap(), description, queue);

    // sync() must panic instead of blocking
    let sync_scheduler  = Arc::clone(scheduler);
    let sync_queue      = Arc::clone(queue);
    let sync_result     = panics_within(move || { sync_scheduler.sync(&sync_queue, || { }); }, 2000);

    assert!(sync_result == Some(true), "sync() on a queue whose job panicked did not panic: {:?} (None = blocked) (queue: {:?})", sync_result, queue);
}

/// Checks that the other queues of a scheduler still work
fn assert_scheduler_still_works(scheduler: &Arc<Scheduler>) {
    for _ in 0..3 {
        let healthy     = scheduler.create_job_queue();
        let (tx, rx)    = channel();

        scheduler.desync(&healthy, move || { tx.send(42).ok(); });
        assert!(rx.recv_timeout(Duration::from_millis(2000)) == Ok(42), "Healthy queue did not run ({:?})", scheduler);

        let scheduler   = Arc::clone(scheduler);
        assert!(panics_within(move || { assert!(scheduler.sync(&healthy, || 43) == 43); }, 2000) == Some(false));
    }
}

#[test]
fn future_wakes_itself_then_panics_on_pool_thread() {
    for max_threads in 1..=3 {
        let scheduler   = Arc::new(Scheduler::new());
        scheduler.set_max_threads(max_threads);

        let queue       = scheduler.create_job_queue();
        let (tx, rx)    = channel();

        scheduler.future_desync(&queue, move || WakeThenPanic(Some(OnDrop(tx)))).detach();
        rx.recv_timeout(Duration::from_millis(2000)).expect("Job was never run");

        assert_queue_fails_loudly(&scheduler, &queue);
        assert_scheduler_still_works(&scheduler);
    }
}

#[test]
fn future_wakes_itself_then_panics_in_sync_caller() {
    // No pool threads: the job is run by the thread that calls sync()
    let scheduler   = Arc::new(Scheduler::new());
    scheduler.set_max_threads(0);

    let queue       = scheduler.create_job_queue();
    let (tx, rx)    = channel();

    scheduler.future_desync(&queue, move || WakeThenPanic(Some(OnDrop(tx)))).detach();

    let first_sync  = catch_unwind(AssertUnwindSafe(|| scheduler.sync(&queue, || { })));
    assert!(first_sync.is_err(), "The panic was not relayed to the sync caller");
    rx.recv_timeout(Duration::from_millis(2000)).expect("Job was never run");

    let description     = wait_for_state(&queue, "Panicked", 500);
    let desync_result   = catch_unwind(AssertUnwindSafe(|| scheduler.desync(&queue, move || { })));
    assert!(desync_result.is_err(), "desync() on a queue whose job panicked was silently accepted (queue: {})", description);

    let try_result      = catch_unwind(AssertUnwindSafe(|| scheduler.try_sync(&queue, move || { }).is_ok()));
    assert!(try_result.is_err(), "try_sync() on a queue whose job panicked returned (ran: {:?}) (queue: {})", try_result, description);
}

#[test]
fn stale_waker_fires_while_a_plain_job_is_about_to_panic() {
    let scheduler   = Arc::new(Scheduler::new());
    scheduler.set_max_threads(2);

    let queue       = scheduler.create_job_queue();

    // First job: a future that leaves a clone of its waker behind
    let stash       = Arc::new(Mutex::new(None));
    let first_job   = scheduler.future_desync(&queue, { let stash = Arc::clone(&stash); move || StashWaker(stash, false) });

    let start = Instant::now();
    while stash.lock().unwrap().is_none() {
        assert!(start.elapsed() < Duration::from_millis(2000), "First job never polled");
        thread::sleep(Duration::from_millis(1));
    }
    wait_for_state(&queue, "WaitingForWake", 2000);

    let stale_waker: Waker = stash.lock().unwrap().clone().unwrap();
    stale_waker.wake_by_ref();
    assert!(first_job.sync() == Ok(()));
    wait_for_state(&queue, "Idle", 2000);

    // Second job: an ordinary closure that panics; the stale waker is called while it is running
    let (started_tx, started_rx)    = channel();
    let (go_tx, go_rx)              = channel::<()>();
    let (unwound_tx, unwound_rx)    = channel();

    scheduler.desync(&queue, move || {
        let _unwound = OnDrop(unwound_tx);
        started_tx.send(()).ok();
        go_rx.recv_timeout(Duration::from_millis(5000)).ok();
        panic!("seed_demo: deliberate panic in a plain job");
    });

    started_rx.recv_timeout(Duration::from_millis(2000)).expect("Second job never started");
    stale_waker.wake_by_ref();
    go_tx.send(()).ok();
    unwound_rx.recv_timeout(Duration::from_millis(2000)).expect("Second job never unwound");

    assert_queue_fails_loudly(&scheduler, &queue);
    assert_scheduler_still_works(&scheduler);
}

#[test]
fn desync_object_whose_future_wakes_itself_then_panics() {
    let panicky     = Desync::new(0u32);
    let healthy     = Desync::new(0u32);
    let (tx, rx)    = channel();

    panicky.future_desync(move |_val| async move { WakeThenPanic(Some(OnDrop(tx))).await; }.boxed()).detach();
    rx.recv_timeout(Duration::from_millis(5000)).expect("Job was never run");
    thread::sleep(Duration::from_millis(300));

    let desync_result = catch_unwind(AssertUnwindSafe(|| panicky.desync(|val| { *val += 1; })));

    // The healthy object is unaffected
    healthy.desync(|val| { *val += 1; });
    assert!(healthy.sync(|val| *val) == 1);

    // (Dropping a panicked Desync panics, so leak it)
    mem::forget(panicky);

    assert!(desync_result.is_err(), "desync() on a Desync whose operation panicked was silently accepted");
}
