//
// C16 demonstration: dropping the stream returned by `pipe` must shut the pipe down (release the pipe's strong
// reference on the Desync, drop the input stream and the processing closure) without the input producing anything
// further, whatever the producer was doing at the moment of the drop.
//
// Three positions of the drop are exercised: producer idle and registered with the input, producer in the middle
// of its loop (inside the processing future), and producer throttled by back-pressure.
//

extern crate desync;
extern crate futures;

use desync::{Desync, pipe};

use futures::prelude::*;
use futures::channel::mpsc;
use futures::task::{Context, Poll};

use std::pin::Pin;
use std::sync::*;
use std::sync::atomic::{AtomicBool, AtomicUsize, Ordering};
use std::thread;
use std::time::{Duration, Instant};

/// How long we're prepared to wait for the pipe to shut down after the drop
const SHUTDOWN_TIMEOUT: Duration = Duration::from_secs(3);

///
/// An input stream that records when it has been dropped
///
struct TrackedInput {
    receiver:   mpsc::Receiver<i32>,
    dropped:    Arc<AtomicBool>
}

impl Stream for TrackedInput {
    type Item = i32;

    fn poll_next(mut self: Pin<&mut Self>, context: &mut Context) -> Poll<Option<i32>> {
        self.receiver.poll_next_unpin(context)
    }
}

impl Drop for TrackedInput {
    fn drop(&mut self) {
        self.dropped.store(true, Ordering::SeqCst);
    }
}

///
/// Waits until a condition becomes true, or the timeout expires. Returns whether or not the condition became true.
///
fn wait_for<F: FnMut() -> bool>(mut condition: F, timeout: Duration) -> bool {
    let start = Instant::now();

    loop {
        if condition() { return true; }
        if Instant::now().duration_since(start) > timeout { return false; }

        thread::sleep(Duration::from_millis(5));
    }
}

///
/// Sends a value to the pipe and waits for the producer to have dealt with the wake-up
///
fn send_and_settle(sender: &mut mpsc::Sender<i32>, target: &Arc<Desync<usize>>, value: i32) {
    // There's plenty of room in the channel, so this always succeeds
    sender.try_send(value).expect("channel accepts the value");

    // The wake-up schedules the producer on the target: wait for it to run (a couple of rounds, in case the wake-up is slightly delayed)
    for _ in 0..3 {
        target.sync(|_| { });
        thread::sleep(Duration::from_millis(10));
    }
    target.sync(|_| { });
}

///
/// Checks that everything the pipe was holding on to has been released
///
fn assert_shut_down(what: &str, target: &Arc<Desync<usize>>, input_dropped: &Arc<AtomicBool>, closure_token: &Arc<()>) {
    let desync_released = wait_for(|| Arc::strong_count(target) == 1, SHUTDOWN_TIMEOUT);
    let input_released  = wait_for(|| input_dropped.load(Ordering::SeqCst), SHUTDOWN_TIMEOUT);
    let closure_dropped = wait_for(|| Arc::strong_count(closure_token) == 1, SHUTDOWN_TIMEOUT);

    assert!(desync_released, "{}: the pipe still holds a strong reference to the Desync after its output stream was dropped", what);
    assert!(input_released, "{}: the input stream was not dropped after the pipe's output stream was dropped", what);
    assert!(closure_dropped, "{}: the processing closure was not dropped after the pipe's output stream was dropped", what);
}

#[test]
fn drop_output_while_producer_is_idle() {
    let target              = Arc::new(Desync::new(0usize));
    let (mut sender, recv)  = mpsc::channel::<i32>(100);
    let input_dropped       = Arc::new(AtomicBool::new(false));
    let closure_token       = Arc::new(());

    let input               = TrackedInput { receiver: recv, dropped: Arc::clone(&input_dropped) };
    let token               = Arc::clone(&closure_token);
    let mut output          = pipe(Arc::clone(&target), input, move |core, value: i32| {
        let _token = &token;
        *core += 1;
        future::ready(value).boxed()
    });

    // Pass a couple of values through, so the producer ends up idle and registered with the input
    send_and_settle(&mut sender, &target, 1);
    send_and_settle(&mut sender, &target, 2);
    futures::executor::block_on(async {
        assert!(output.next().await == Some(1));
        assert!(output.next().await == Some(2));
    });
    target.sync(|_| { });

    // Drop the output. The input stays silent (the sender is kept alive until the end of the test)
    drop(output);

    assert_shut_down("idle", &target, &input_dropped, &closure_token);
    drop(sender);
}

#[test]
fn drop_output_while_producer_is_mid_loop() {
    let target              = Arc::new(Desync::new(0usize));
    let (mut sender, recv)  = mpsc::channel::<i32>(100);
    let input_dropped       = Arc::new(AtomicBool::new(false));
    let closure_token       = Arc::new(());

    // The processing future waits here until it's told to proceed
    let in_process          = Arc::new(AtomicUsize::new(0));
    let proceed             = Arc::new(AtomicBool::new(false));

    let input               = TrackedInput { receiver: recv, dropped: Arc::clone(&input_dropped) };
    let token               = Arc::clone(&closure_token);
    let closure_in_process  = Arc::clone(&in_process);
    let closure_proceed     = Arc::clone(&proceed);
    let output              = pipe(Arc::clone(&target), input, move |core, value: i32| {
        let _token      = &token;
        let in_process  = Arc::clone(&closure_in_process);
        let proceed     = Arc::clone(&closure_proceed);
        *core += 1;

        async move {
            in_process.fetch_add(1, Ordering::SeqCst);
            while !proceed.load(Ordering::SeqCst) { thread::sleep(Duration::from_millis(1)); }
            value
        }.boxed()
    });

    // Get the producer into the middle of its loop
    sender.try_send(1).unwrap();
    assert!(wait_for(|| in_process.load(Ordering::SeqCst) == 1, SHUTDOWN_TIMEOUT), "producer never started processing");

    // Drop the output while the producer is in there, then let the producer carry on
    drop(output);
    thread::sleep(Duration::from_millis(20));
    proceed.store(true, Ordering::SeqCst);

    assert_shut_down("mid-loop", &target, &input_dropped, &closure_token);
    drop(sender);
}

#[test]
fn drop_output_while_producer_is_throttled() {
    let target              = Arc::new(Desync::new(0usize));
    let (mut sender, recv)  = mpsc::channel::<i32>(100);
    let input_dropped       = Arc::new(AtomicBool::new(false));
    let closure_token       = Arc::new(());

    let input               = TrackedInput { receiver: recv, dropped: Arc::clone(&input_dropped) };
    let token               = Arc::clone(&closure_token);
    let mut output          = pipe(Arc::clone(&target), input, move |core, value: i32| {
        let _token = &token;
        *core += 1;
        future::ready(value).boxed()
    });
    output.set_backpressure_depth(3);

    // Fill the output up to the back-pressure depth: nothing is reading from it
    for value in 0..3 {
        send_and_settle(&mut sender, &target, value);
    }
    assert!(target.sync(|core| *core) == 3, "the first three values should have been processed");

    // One more value wakes the producer, which finds the output full and parks itself until the output is read from
    send_and_settle(&mut sender, &target, 3);
    assert!(target.sync(|core| *core) == 3, "the producer should be throttled by back-pressure");

    // Drop the output while the producer is throttled. The input stays silent (the sender is kept alive until the end of the test)
    drop(output);

    assert_shut_down("throttled", &target, &input_dropped, &closure_token);
    drop(sender);
}
