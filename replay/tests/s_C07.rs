//!
//! Demonstration for C07: the operation behind a `future_desync` future must run to completion even if
//! the returned future is dropped (or is only waited for with `.sync()`, or another future on the same
//! queue is the one being awaited), given at least one pool thread.
//!
//! All three tests set up the same queue state before doing anything else:
//!
//!  * the future is polled while the queue is claimable (no pool thread yet), so the polling task becomes
//!    the queue's runner;
//!  * while that poll is still running the operation, a pool thread is added and allowed to go dormant
//!    (this flushes the stale entry for the queue out of the scheduler's schedule);
//!  * the operation then suspends on a oneshot channel, so the poll returns `Pending` and the queue is left
//!    in the 'waiting for the owning future to poll again' state.
//!
//! After that the owning future is never polled again, and the oneshot is completed. The queue has to be handed
//! to the pool thread at that point or the operation never finishes.
//!

extern crate desync;
extern crate futures;

use desync::scheduler::*;

use futures::prelude::*;
use futures::channel::oneshot;
use futures::executor;
use futures::task;
use futures::task::Poll;

use std::sync::*;
use std::sync::mpsc;
use std::thread;
use std::time::{Duration, Instant};

/// How long we wait for something that should happen 'immediately'
const PATIENCE: Duration = Duration::from_secs(3);

///
/// Waits for every pool thread of the scheduler to be dormant with nothing left in the schedule
///
fn wait_for_dormant_pool(scheduler: &Scheduler) {
    let start = Instant::now();

    while start.elapsed() < Duration::from_secs(5) {
        // Debug output is '<B|I per thread> Pending queue count: <n>'
        let description = format!("{:?}", scheduler);
        let threads     = description.split(' ').next().unwrap_or("").to_string();

        if threads.len() > 0 && !threads.contains('B') && description.ends_with("count: 0") {
            // Leave a little extra time for the thread to actually get back to waiting for work
            thread::sleep(Duration::from_millis(20));
            return;
        }

        thread::sleep(Duration::from_millis(1));
    }

    panic!("Pool never went dormant: {:?}", scheduler);
}

///
/// Creates a scheduler with no threads and a queue with one `future_desync` operation on it.
///
/// When first run, the operation gives the scheduler a single pool thread, waits for that thread to go dormant and
/// then waits for the oneshot. Once the oneshot completes it reports the value on the mpsc channel and returns it.
///
fn suspended_operation() -> (Arc<Scheduler>, Arc<JobQueue>, SchedulerFuture<i32>, oneshot::Sender<i32>, mpsc::Receiver<i32>) {
    let scheduler = Arc::new(Scheduler::new());
    scheduler.set_max_threads(0);
    scheduler.despawn_threads_if_overloaded();

    let queue                   = scheduler.create_job_queue();
    let (send_val, recv_val)    = oneshot::channel::<i32>();
    let (send_done, recv_done)  = mpsc::channel::<i32>();

    let op_scheduler    = Arc::clone(&scheduler);
    let future          = scheduler.future_desync(&queue, move || async move {
        // We're running inside the first poll of the future here (there are no pool threads yet). Add a pool thread, and let it settle
        op_scheduler.set_max_threads(1);
        wait_for_dormant_pool(&*op_scheduler);

        // Suspend the operation until the test sends the value
        let val = recv_val.await.expect("value");

        // The operation has run to completion
        send_done.send(val).ok();
        val
    });

    (scheduler, queue, future, send_val, recv_done)
}

///
/// Polls a future exactly once with a waker that does nothing
///
fn poll_once<TFuture: Future+Unpin>(future: &mut TFuture) -> Poll<TFuture::Output> {
    let waker       = task::noop_waker();
    let mut context = task::Context::from_waker(&waker);

    future.poll_unpin(&mut context)
}

#[test]
fn operation_completes_after_polled_future_is_dropped() {
    let (_scheduler, _queue, mut future, send_val, recv_done) = suspended_operation();

    // The polling task claims the queue, and the operation suspends
    assert!(poll_once(&mut future) == Poll::Pending);

    // The future is dropped without being polled again
    drop(future);

    // Let the operation continue: there's a dormant pool thread to run it
    send_val.send(42).unwrap();

    assert!(recv_done.recv_timeout(PATIENCE) == Ok(42), "Operation did not run to completion after its future was dropped");
}

#[test]
fn sync_returns_value_after_future_was_polled() {
    let (_scheduler, _queue, mut future, send_val, recv_done) = suspended_operation();

    // The polling task claims the queue, and the operation suspends
    assert!(poll_once(&mut future) == Poll::Pending);

    // Wait for the result synchronously instead of polling again
    let (send_result, recv_result) = mpsc::channel();
    thread::spawn(move || {
        send_result.send(future.sync()).ok();
    });

    // Let the operation continue once the other thread is (most likely) waiting
    thread::sleep(Duration::from_millis(50));
    send_val.send(42).unwrap();

    assert!(recv_done.recv_timeout(PATIENCE) == Ok(42), "Operation did not run to completion while waiting with sync()");
    assert!(recv_result.recv_timeout(PATIENCE) == Ok(Ok(42)), "sync() did not return the operation's value");
}

#[test]
fn other_future_on_queue_resolves_after_owner_is_dropped() {
    let (scheduler, queue, future_1, send_val, recv_done) = suspended_operation();

    // A second operation on the same queue
    let mut future_2 = scheduler.future_desync(&queue, move || async move { 2 });

    // Poll the second future first: it claims the queue and runs the first operation, which suspends
    assert!(poll_once(&mut future_2) == Poll::Pending);

    // Another task awaits the first future (the queue is owned by future_2 at this point)
    let (send_result, recv_result) = mpsc::channel();
    thread::spawn(move || {
        send_result.send(executor::block_on(future_1)).ok();
    });
    thread::sleep(Duration::from_millis(50));

    // The future that owns the queue goes away, then the first operation is allowed to continue
    drop(future_2);
    send_val.send(42).unwrap();

    assert!(recv_done.recv_timeout(PATIENCE) == Ok(42), "First operation did not run to completion");
    assert!(recv_result.recv_timeout(PATIENCE) == Ok(Ok(42)), "Task awaiting the first future was never woken with its result");

    // The second operation also runs even though its future was dropped
    assert!(scheduler.sync(&queue, || 3) == 3);
}
