//
// Demonstration for C01: "operations on one queue never overlap, even across awaits"
//
// A future-based operation that is suspended at an await still 'owns' its queue: a `sync` issued in the meantime
// must not run its closure until that operation has completed.
//
// The scenario uses an `Event` with numbered rounds that keeps every waker that was ever registered with it, and
// invokes all the wakers for a round whenever that round is released - even if it is released a second time (plenty of
// real event sources behave like this: a waker may be invoked at any time, including long after the future that
// registered it has finished). The waker that gets invoked late here is a left-over from an earlier operation on the
// same queue, which happened to be polled from inside a blocking `sync` call.
//

use desync::scheduler::*;

use futures::future::Future;
use futures::task::{Context, Poll, Waker};

use std::pin::Pin;
use std::sync::*;
use std::sync::atomic::{AtomicBool, AtomicUsize, Ordering};
use std::thread;
use std::time::{Duration, Instant};

///
/// An event source that can be waited for several times ('rounds'), and which remembers every waker it has seen
///
struct Event {
    /// Number of the latest round that has been released
    released:   Mutex<usize>,

    /// Every waker that was ever registered, along with the round it is waiting for
    wakers:     Mutex<Vec<(usize, Waker)>>
}

impl Event {
    fn new() -> Arc<Event> {
        Arc::new(Event { released: Mutex::new(0), wakers: Mutex::new(vec![]) })
    }

    /// Future that completes once the specified round has been released
    fn wait_for(self: &Arc<Self>, round: usize) -> WaitForEvent {
        WaitForEvent { event: Arc::clone(self), round }
    }

    /// Number of wakers registered so far
    fn num_wakers(&self) -> usize {
        self.wakers.lock().unwrap().len()
    }

    /// Releases everything waiting for rounds up to and including 'round', and invokes every waker registered for that round
    fn release(&self, round: usize) {
        {
            let mut released = self.released.lock().unwrap();
            *released = round.max(*released);
        }

        let wakers = self.wakers.lock().unwrap().clone();
        wakers.iter()
            .filter(|(waker_round, _)| *waker_round == round)
            .for_each(|(_, waker)| waker.wake_by_ref());
    }
}

struct WaitForEvent {
    event: Arc<Event>,
    round: usize
}

impl Future for WaitForEvent {
    type Output = ();

    fn poll(self: Pin<&mut Self>, context: &mut Context) -> Poll<()> {
        if *self.event.released.lock().unwrap() >= self.round {
            Poll::Ready(())
        } else {
            self.event.wakers.lock().unwrap().push((self.round, context.waker().clone()));
            Poll::Pending
        }
    }
}

///
/// Spins until a condition becomes true (panics after 10 seconds)
///
fn wait_until<F: Fn() -> bool>(what: &str, condition: F) {
    let start = Instant::now();

    while !condition() {
        if start.elapsed() > Duration::from_secs(10) {
            panic!("Timed out waiting for: {}", what);
        }
        thread::sleep(Duration::from_millis(1));
    }
}

#[test]
fn sync_does_not_overlap_suspended_future() {
    let scheduler   = Arc::new(Scheduler::new());
    let queue       = scheduler.create_job_queue();
    let event       = Event::new();

    // ---- Round 1: an operation that is polled from inside a blocking sync() call

    // With no pool threads, the future stays on the queue until something drains it
    scheduler.set_max_threads(0);

    let round1_event = Arc::clone(&event);
    scheduler.future_desync(&queue, move || async move { round1_event.wait_for(1).await; }).detach();

    // A sync() from another thread drains the queue there, polling the round 1 operation on that thread
    let sync_scheduler  = Arc::clone(&scheduler);
    let sync_queue      = Arc::clone(&queue);
    let round1_sync     = thread::spawn(move || { sync_scheduler.sync(&sync_queue, || { 1 }) });

    wait_until("round 1 operation to start waiting", || event.num_wakers() == 1);
    event.release(1);
    assert!(round1_sync.join().unwrap() == 1);
    wait_until("queue to become idle after round 1", || format!("{:?}", queue).contains("State: Idle, Pending: 0"));

    // ---- Round 2: an operation that suspends on a pool thread

    scheduler.set_max_threads(1);

    let in_operation    = Arc::new(AtomicBool::new(false));
    let operations_done = Arc::new(AtomicUsize::new(0));

    let round2_event    = Arc::clone(&event);
    let round2_in_op    = Arc::clone(&in_operation);
    let round2_done     = Arc::clone(&operations_done);
    scheduler.future_desync(&queue, move || async move {
        round2_in_op.store(true, Ordering::SeqCst);
        round2_event.wait_for(2).await;
        round2_in_op.store(false, Ordering::SeqCst);
        round2_done.fetch_add(1, Ordering::SeqCst);
    }).detach();

    wait_until("round 2 operation to start waiting", || event.num_wakers() == 2);
    wait_until("round 2 operation to be suspended", || format!("{:?}", queue).contains("State: WaitingForWake, Pending: 1"));
    assert!(in_operation.load(Ordering::SeqCst));

    // Round 1 is released for a second time: nothing is waiting for it any more, but this invokes the waker that was left
    // over from the round 1 operation
    event.release(1);

    // Round 2 will be released a little later on
    let release_event   = Arc::clone(&event);
    let release_round2  = thread::spawn(move || {
        thread::sleep(Duration::from_millis(300));
        release_event.release(2);
    });

    // Meanwhile, a sync() must wait for the round 2 operation to finish: it must never see it half-way through
    let (overlapped, completed) = scheduler.sync(&queue, || (in_operation.load(Ordering::SeqCst), operations_done.load(Ordering::SeqCst)));

    release_round2.join().unwrap();
    wait_until("round 2 operation to finish", || operations_done.load(Ordering::SeqCst) == 1);

    assert!(!overlapped, "sync() ran its closure while a future_desync operation on the same queue was suspended at an await");
    assert!(completed == 1, "sync() ran before the operation queued ahead of it had completed");
}
