//
// C15 demonstration: once an operation has panicked, *every* later scheduling attempt on the panicked object
// must fail loudly (panic) -- not just the first one, and not only when the panicking operation happened to be
// the last thing in the queue.
//
// Uses only the public API. A private scheduler is used so the pool thread that is lost to the panic does not
// belong to the global scheduler.
//

use desync::Desync;
use desync::scheduler::*;

use std::mem;
use std::panic::{catch_unwind, AssertUnwindSafe};
use std::sync::*;
use std::sync::atomic::{AtomicBool, Ordering};
use std::thread;
use std::time::{Duration, Instant};

///
/// Waits until the queue reports that it is panicked (via its Debug output), then a little longer so that the
/// pool thread that was unwinding has finished
///
fn wait_until_panicked(queue: &Arc<JobQueue>) {
    let start = Instant::now();

    while !format!("{:?}", queue).contains("Panicked") {
        assert!(start.elapsed() < Duration::from_secs(10), "Queue never reached the panicked state: {:?}", queue);
        thread::sleep(Duration::from_millis(5));
    }

    thread::sleep(Duration::from_millis(100));
}

///
/// Tries to schedule a job with desync(), returns true if the attempt panicked (the required behaviour for a panicked queue)
///
fn desync_attempt_panics(scheduler: &Scheduler, queue: &Arc<JobQueue>, ran: &Arc<AtomicBool>) -> bool {
    let ran = Arc::clone(ran);
    catch_unwind(AssertUnwindSafe(|| {
        scheduler.desync(queue, move || { ran.store(true, Ordering::SeqCst); });
    })).is_err()
}

#[test]
fn every_desync_attempt_on_a_panicked_queue_panics() {
    for max_threads in 1..=3 {
        let scheduler   = Scheduler::new();
        scheduler.set_max_threads(max_threads);

        let queue       = scheduler.create_job_queue();
        let ran         = Arc::new(AtomicBool::new(false));

        // The only operation on the queue panics (on a pool thread)
        scheduler.desync(&queue, || { panic!("Deliberate panic (demo)"); });
        wait_until_panicked(&queue);

        // Every attempt after that must fail loudly
        for attempt in 0..4 {
            assert!(desync_attempt_panics(&scheduler, &queue, &ran),
                "max_threads={}: desync attempt #{} on a panicked queue returned normally (job silently accepted and never run): {:?}", max_threads, attempt, queue);
        }

        // try_sync/sync still fail loudly too
        assert!(catch_unwind(AssertUnwindSafe(|| { scheduler.try_sync(&queue, || { }).ok(); })).is_err());
        assert!(catch_unwind(AssertUnwindSafe(|| { scheduler.sync(&queue, || { }); })).is_err());

        thread::sleep(Duration::from_millis(50));
        assert!(!ran.load(Ordering::SeqCst), "A job ran on a panicked queue");

        // Other queues on the same scheduler are unaffected (and the pool replaces the lost thread)
        let healthy     = scheduler.create_job_queue();
        let (tx, rx)    = mpsc::channel();
        scheduler.desync(&healthy, move || { tx.send(42).ok(); });
        assert!(rx.recv_timeout(Duration::from_secs(5)) == Ok(42));
        assert!(scheduler.sync(&healthy, || 43) == 43);
    }
}

#[test]
fn desync_after_a_panic_with_operations_queued_behind_it_panics() {
    for max_threads in 1..=3 {
        let scheduler   = Scheduler::new();
        scheduler.set_max_threads(max_threads);

        let queue       = scheduler.create_job_queue();
        let ran         = Arc::new(AtomicBool::new(false));

        // The first operation panics while a second one is waiting behind it
        let ran_behind  = Arc::clone(&ran);
        scheduler.desync(&queue, || { thread::sleep(Duration::from_millis(50)); panic!("Deliberate panic (demo)"); });
        scheduler.desync(&queue, move || { ran_behind.store(true, Ordering::SeqCst); });
        wait_until_panicked(&queue);

        // Scheduling attempts made after the unwinding has finished must fail loudly
        for attempt in 0..2 {
            assert!(desync_attempt_panics(&scheduler, &queue, &ran),
                "max_threads={}: desync attempt #{} on a panicked queue returned normally (job silently accepted and never run): {:?}", max_threads, attempt, queue);
        }

        thread::sleep(Duration::from_millis(50));
        assert!(!ran.load(Ordering::SeqCst), "A job ran on a panicked queue");
    }
}

#[test]
fn every_operation_on_a_panicked_desync_panics() {
    // Same thing through the Desync API (global scheduler)
    let object  = Desync::new(0u32);
    let ran     = Arc::new(AtomicBool::new(false));

    object.desync(|_| { panic!("Deliberate panic (demo)"); });

    // try_sync() reports "busy" while the operation is still pending/running, and panics once the object is panicked
    let start = Instant::now();
    loop {
        assert!(start.elapsed() < Duration::from_secs(10), "Object never started panicking");
        if catch_unwind(AssertUnwindSafe(|| object.try_sync(|_| { }).ok())).is_err() { break; }
        thread::sleep(Duration::from_millis(5));
    }
    thread::sleep(Duration::from_millis(100));

    for attempt in 0..4 {
        let ran         = Arc::clone(&ran);
        let panicked    = catch_unwind(AssertUnwindSafe(|| object.desync(move |_| { ran.store(true, Ordering::SeqCst); }))).is_err();

        assert!(panicked, "desync attempt #{} on a panicked Desync returned normally", attempt);
    }

    assert!(!ran.load(Ordering::SeqCst));

    // Dropping a panicked Desync panics (it's a scheduling attempt too), so just leak it
    mem::forget(object);
}
