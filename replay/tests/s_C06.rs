//!
//! Demonstration for property C06: a wake-up for a suspended future operation is never lost.
//!
//! These tests run a queue on *the thread that is inside `sync`* (the scheduler has no free pool thread,
//! so `sync` drains the queue itself), and have the future job's wake-up fire *before the runner has parked
//! the queue*: either from inside `poll` itself, or from another thread while `poll` is still on the stack.
//!
//! Every test runs its scenario on a helper thread and fails if it has not finished after a timeout
//! (a lost wake-up shows up as the `sync` call parking forever).
//!

use desync::scheduler::*;

use futures::prelude::*;
use futures::task::{Context, Poll, Waker};

use std::pin::Pin;
use std::sync::atomic::{AtomicUsize, Ordering};
use std::sync::mpsc;
use std::sync::*;
use std::thread;
use std::time::Duration;

///
/// Runs `scenario` on its own thread, returns its result or None if it didn't finish in time
///
fn run_with_timeout<T: 'static + Send, F: 'static + Send + FnOnce() -> T>(scenario: F, millis: u64) -> Option<T> {
    let (tx, rx) = mpsc::channel();

    thread::spawn(move || {
        let result = scenario();
        tx.send(result).ok();
    });

    rx.recv_timeout(Duration::from_millis(millis)).ok()
}

///
/// Scheduler with no pool threads at all: whoever calls `sync` has to run the queue
///
fn scheduler_with_no_threads() -> Arc<Scheduler> {
    let scheduler = Arc::new(Scheduler::new());
    scheduler.set_max_threads(0);
    scheduler.despawn_threads_if_overloaded();
    scheduler
}

///
/// Future that is pending `remaining` times, waking its own waker from inside poll() before returning Pending each time
/// (the same thing `yield_now()`-style futures or a cooperative budget do)
///
struct WakeInsidePoll {
    remaining:  usize,
    polls:      Arc<AtomicUsize>,
}

impl Future for WakeInsidePoll {
    type Output = usize;

    fn poll(mut self: Pin<&mut Self>, context: &mut Context) -> Poll<usize> {
        let poll_count = self.polls.fetch_add(1, Ordering::SeqCst) + 1;

        if self.remaining == 0 {
            Poll::Ready(poll_count)
        } else {
            self.remaining -= 1;

            // The event has 'already happened': wake up before we've even returned
            context.waker().wake_by_ref();
            Poll::Pending
        }
    }
}

///
/// Future that hands its waker to another thread and does not return Pending until that thread has called wake()
/// (ie, the wake-up comes from another thread, and arrives while the runner is still polling)
///
struct WokenFromOtherThreadDuringPoll {
    send_waker: mpsc::Sender<Waker>,
    woken:      Arc<(Mutex<bool>, Condvar)>,
    done:       bool,
}

impl Future for WokenFromOtherThreadDuringPoll {
    type Output = ();

    fn poll(mut self: Pin<&mut Self>, context: &mut Context) -> Poll<()> {
        if self.done {
            return Poll::Ready(());
        }
        self.done = true;

        // Pass the waker to the other thread
        self.send_waker.send(context.waker().clone()).unwrap();

        // Wait until it has definitely been woken
        let (ref woken, ref cond) = *self.woken;
        let mut woken = woken.lock().unwrap();
        while !*woken {
            woken = cond.wait(woken).unwrap();
        }

        Poll::Pending
    }
}

#[test]
fn sync_runner_sees_wake_fired_inside_poll() {
    let result = run_with_timeout(|| {
        let scheduler   = scheduler_with_no_threads();
        let queue       = scheduler.create_job_queue();
        let polls       = Arc::new(AtomicUsize::new(0));
        let behind      = Arc::new(AtomicUsize::new(0));

        // A future operation that suspends once, with the wake-up firing during the poll
        let future_polls = Arc::clone(&polls);
        scheduler.future_desync(&queue, move || WakeInsidePoll { remaining: 1, polls: future_polls }).detach();

        // Something queued behind it
        let behind_job = Arc::clone(&behind);
        scheduler.desync(&queue, move || { behind_job.fetch_add(1, Ordering::SeqCst); });

        // No pool threads: sync() drains the queue on this thread, so this thread is the one that suspends/resumes the future
        let sync_result = scheduler.sync(&queue, || 42);

        (sync_result, polls.load(Ordering::SeqCst), behind.load(Ordering::SeqCst))
    }, 5000);

    assert!(result.is_some(), "sync() never returned: the wake-up fired inside poll() was lost, so the thread draining the queue parked forever");
    assert_eq!(result, Some((42, 2, 1)));
}

#[test]
fn sync_runner_sees_repeated_wakes_fired_inside_poll() {
    let result = run_with_timeout(|| {
        let scheduler   = scheduler_with_no_threads();
        let queue       = scheduler.create_job_queue();
        let polls       = Arc::new(AtomicUsize::new(0));

        // Suspends 5 times in a row, each time already woken by the time it returns
        let future_polls = Arc::clone(&polls);
        let future = scheduler.future_desync(&queue, move || WakeInsidePoll { remaining: 5, polls: future_polls });

        // SchedulerFuture::sync() goes via Scheduler::sync(), which drains on this thread
        (future.sync(), polls.load(Ordering::SeqCst))
    }, 5000);

    assert!(result.is_some(), "SchedulerFuture::sync() never returned: a wake-up fired inside poll() was lost");
    assert_eq!(result, Some((Ok(6), 6)));
}

#[test]
fn sync_runner_sees_wake_from_other_thread_during_poll() {
    let result = run_with_timeout(|| {
        let scheduler   = scheduler_with_no_threads();
        let queue       = scheduler.create_job_queue();
        let behind      = Arc::new(AtomicUsize::new(0));

        // The 'external event' thread: wakes whatever waker it is sent, then tells the future it has done so
        let (send_waker, recv_waker)    = mpsc::channel::<Waker>();
        let woken                       = Arc::new((Mutex::new(false), Condvar::new()));
        let event_woken                 = Arc::clone(&woken);
        let event_thread                = thread::spawn(move || {
            let waker = recv_waker.recv().unwrap();
            waker.wake();

            *event_woken.0.lock().unwrap() = true;
            event_woken.1.notify_all();
        });

        scheduler.future_desync(&queue, move || WokenFromOtherThreadDuringPoll { send_waker, woken, done: false }).detach();

        let behind_job = Arc::clone(&behind);
        scheduler.desync(&queue, move || { behind_job.fetch_add(1, Ordering::SeqCst); });

        let sync_result = scheduler.sync(&queue, || 42);
        event_thread.join().unwrap();

        (sync_result, behind.load(Ordering::SeqCst))
    }, 5000);

    assert!(result.is_some(), "sync() never returned: a wake-up from another thread that arrived before the queue was parked was lost");
    assert_eq!(result, Some((42, 1)));
}

#[test]
fn sync_runner_with_busy_pool_sees_wake_fired_inside_poll() {
    // Same thing but with a 'real' pool: one thread, which is busy with another queue, so sync() still has to run the queue itself
    let result = run_with_timeout(|| {
        let scheduler = Arc::new(Scheduler::new());
        scheduler.set_max_threads(1);

        // Occupy the only pool thread until we're done
        let blocker_queue           = scheduler.create_job_queue();
        let (release, wait_release) = mpsc::channel::<()>();
        let (started, wait_started) = mpsc::channel::<()>();
        scheduler.desync(&blocker_queue, move || { started.send(()).unwrap(); wait_release.recv().ok(); });
        wait_started.recv().unwrap();

        let queue   = scheduler.create_job_queue();
        let polls   = Arc::new(AtomicUsize::new(0));

        let future_polls = Arc::clone(&polls);
        scheduler.future_desync(&queue, move || WakeInsidePoll { remaining: 1, polls: future_polls }).detach();

        let sync_result = scheduler.sync(&queue, || 42);

        release.send(()).ok();
        (sync_result, polls.load(Ordering::SeqCst))
    }, 5000);

    assert!(result.is_some(), "sync() never returned: the wake-up fired inside poll() was lost");
    assert_eq!(result, Some((42, 2)));
}

#[test]
fn sync_runner_still_sees_wake_after_parking() {
    // Control: the wake-up arrives well after the sync thread has parked the queue. This works with or without the defect.
    let result = run_with_timeout(|| {
        let scheduler       = scheduler_with_no_threads();
        let queue           = scheduler.create_job_queue();
        let (send, recv)    = futures::channel::oneshot::channel::<i32>();

        scheduler.future_desync(&queue, move || async move { recv.await.ok(); }).detach();

        thread::spawn(move || {
            thread::sleep(Duration::from_millis(100));
            send.send(1).ok();
        });

        scheduler.sync(&queue, || 42)
    }, 5000);

    assert_eq!(result, Some(42));
}
