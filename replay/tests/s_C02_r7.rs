extern crate desync;
extern crate futures;

use desync::scheduler::*;

use futures::prelude::*;
use futures::channel::oneshot;
use futures::task;
use futures::task::Poll;

use std::thread;
use std::time::Duration;
use std::sync::*;
use std::sync::atomic::{AtomicBool, Ordering};
use std::sync::mpsc::channel;

///
/// Three operations are scheduled on one queue, each call returning before the next is made:
///
///  * A: `future_desync` of a future that waits for a oneshot
///  * B: `desync` of a slow job
///  * C: `desync` of a quick job
///
/// The future returned for A is polled once while the scheduler has no threads (so the queue is drained by the
/// polling task and is left assigned to that future), then threads are made available and A is woken so that a
/// pool thread takes the queue over. The future is then dropped without being polled again while B is running.
///
/// C must not start until B has finished.
///
fn scenario() -> Result<(), String> {
    // Private scheduler, no threads to begin with
    let scheduler = Arc::new(Scheduler::new());
    scheduler.set_max_threads(0);
    scheduler.despawn_threads_if_overloaded();

    let queue               = scheduler.create_job_queue();
    let (wake_a, a_woken)   = oneshot::channel::<()>();

    // A: waits for the oneshot
    let mut future_a        = scheduler.future_desync(&queue, move || async move { a_woken.await.ok(); });

    // Poll once: there are no threads, so this drains the queue in the polling task and A is left pending
    {
        let waker   = task::noop_waker();
        let mut ctx = task::Context::from_waker(&waker);

        if future_a.poll_unpin(&mut ctx) != Poll::Pending {
            return Err("A finished before it was woken".to_string());
        }
    }

    // B: slow job, C: quick job that notes whether or not B had finished when it started
    let b_finished              = Arc::new(AtomicBool::new(false));
    let (b_started, b_running)  = channel();
    let (c_ran, c_result)       = channel();

    let b_finished_in_b         = Arc::clone(&b_finished);
    scheduler.desync(&queue, move || {
        b_started.send(()).ok();
        thread::sleep(Duration::from_millis(400));
        b_finished_in_b.store(true, Ordering::SeqCst);
    });

    let b_finished_in_c         = Arc::clone(&b_finished);
    scheduler.desync(&queue, move || {
        c_ran.send(b_finished_in_c.load(Ordering::SeqCst)).ok();
    });

    // Provide some threads and wake A: a pool thread carries on with the queue from here
    scheduler.set_max_threads(2);
    wake_a.send(()).ok();

    // Once B is running, abandon the future for A without ever polling it again
    b_running.recv_timeout(Duration::from_secs(3)).map_err(|_| "B never started".to_string())?;
    thread::sleep(Duration::from_millis(50));
    drop(future_a);

    // C should run only after B has finished
    let b_was_finished = c_result.recv_timeout(Duration::from_secs(3)).map_err(|_| "C never ran".to_string())?;

    if !b_was_finished {
        return Err("C started before B had finished".to_string());
    }

    Ok(())
}

#[test]
fn dropped_future_does_not_reorder_queue() {
    for _ in 0..3 {
        // Run in a separate thread so a hang can be turned into a failure
        let (done, wait_done) = channel();

        thread::spawn(move || {
            done.send(scenario()).ok();
        });

        match wait_done.recv_timeout(Duration::from_secs(5)) {
            Ok(Ok(()))      => { }
            Ok(Err(msg))    => panic!("{}", msg),
            Err(_)          => panic!("Scenario timed out or panicked")
        }
    }
}
