//
// Demonstration for C04: "sync always returns, with its own result, after running its closure once"
//
// Both tests use a private scheduler with no pool threads, so a `sync()` call has to run the queue itself: the job ahead of
// it is a future that is not ready yet, so the caller has to wait on its own thread until the future is woken up, then
// finish the future and finally run its own closure.
//
// What makes these cases special is that the calling thread already has an 'unpark' pending at the point where it
// needs to wait for the future:
//
//  * in the first test the future yields once (wakes itself and returns Pending - the usual way to write a cooperative
//    yield) before it does its real waiting
//  * in the second test the calling thread was simply unparked by something else before calling sync() (a left-over
//    wake-up of this kind is normal for threads that have used park()-based code such as a block_on executor)
//
// In both cases sync() must still return the value of its closure after the future has completed.
//

extern crate desync;
extern crate futures;

use desync::scheduler::*;

use futures::channel::oneshot;
use futures::task::{Context, Poll, Waker};

use std::future::Future;
use std::pin::Pin;
use std::sync::*;
use std::sync::atomic::{AtomicBool, AtomicUsize, Ordering};
use std::sync::mpsc;
use std::thread;
use std::time::Duration;

///
/// Creates a scheduler that has no threads of its own
///
fn scheduler_without_threads() -> Arc<Scheduler> {
    let scheduler = Arc::new(Scheduler::new());
    scheduler.set_max_threads(0);
    scheduler.despawn_threads_if_overloaded();
    scheduler
}

///
/// Runs an action on its own thread and returns what it returned (fails if the action panics or takes more than 10 seconds)
///
fn run_with_timeout<TResult: 'static+Send, TFn: 'static+Send+FnOnce() -> TResult>(what: &str, action: TFn) -> TResult {
    let (send_result, recv_result) = mpsc::channel();

    thread::Builder::new()
        .name(what.to_string())
        .spawn(move || { send_result.send(action()).ok(); })
        .unwrap();

    match recv_result.recv_timeout(Duration::from_secs(10)) {
        Ok(result)                                  => result,
        Err(mpsc::RecvTimeoutError::Timeout)        => panic!("{}: sync() did not return within 10 seconds", what),
        Err(mpsc::RecvTimeoutError::Disconnected)   => panic!("{}: sync() panicked instead of returning its result", what)
    }
}

///
/// Where the `YieldThenWait` future leaves its waker for whatever is going to finish it
///
struct Completion {
    done:   AtomicBool,
    waker:  Mutex<Option<Waker>>
}

impl Completion {
    fn complete(&self) {
        self.done.store(true, Ordering::SeqCst);

        let waker = self.waker.lock().unwrap().take();
        if let Some(waker) = waker { waker.wake(); }
    }
}

///
/// Future that yields once (wakes itself up and returns pending), then waits until its `Completion` is completed
///
struct YieldThenWait {
    yielded:    bool,
    polls:      Arc<AtomicUsize>,
    completion: Arc<Completion>
}

impl Future for YieldThenWait {
    type Output = ();

    fn poll(mut self: Pin<&mut Self>, context: &mut Context) -> Poll<()> {
        self.polls.fetch_add(1, Ordering::SeqCst);

        if !self.yielded {
            // Cooperative yield: ask to be polled again straight away
            self.yielded = true;
            context.waker().wake_by_ref();
            return Poll::Pending;
        }

        // Wait for the completion
        *self.completion.waker.lock().unwrap() = Some(context.waker().clone());

        if self.completion.done.load(Ordering::SeqCst) {
            Poll::Ready(())
        } else {
            Poll::Pending
        }
    }
}

#[test]
fn sync_returns_after_a_future_that_yields_before_waiting() {
    for _ in 0..5 {
        let scheduler   = scheduler_without_threads();
        let queue       = scheduler.create_job_queue();
        let polls       = Arc::new(AtomicUsize::new(0));
        let completion  = Arc::new(Completion { done: AtomicBool::new(false), waker: Mutex::new(None) });
        let future_done = Arc::new(AtomicBool::new(false));
        let times_run   = Arc::new(AtomicUsize::new(0));

        // Queue the future. There are no pool threads, so it stays waiting on the queue
        let future          = YieldThenWait { yielded: false, polls: Arc::clone(&polls), completion: Arc::clone(&completion) };
        let set_future_done = Arc::clone(&future_done);
        scheduler.future_desync(&queue, move || async move {
            future.await;
            set_future_done.store(true, Ordering::SeqCst);
        }).detach();

        // Complete the future a little later on, from another thread
        let complete_later = Arc::clone(&completion);
        thread::spawn(move || {
            thread::sleep(Duration::from_millis(100));
            complete_later.complete();
        });

        // Sync has to run the future on its own thread, then its own closure
        let sync_scheduler  = Arc::clone(&scheduler);
        let sync_queue      = Arc::clone(&queue);
        let sync_times_run  = Arc::clone(&times_run);
        let sync_future_done = Arc::clone(&future_done);
        let (value, future_was_done) = run_with_timeout("sync after yielding future", move || {
            sync_scheduler.sync(&sync_queue, || {
                sync_times_run.fetch_add(1, Ordering::SeqCst);
                (42, sync_future_done.load(Ordering::SeqCst))
            })
        });

        assert!(value == 42, "sync returned {}", value);
        assert!(future_was_done, "sync ran its closure before the future ahead of it had completed");
        assert!(times_run.load(Ordering::SeqCst) == 1, "sync closure ran {} times", times_run.load(Ordering::SeqCst));
        assert!(polls.load(Ordering::SeqCst) >= 3);

        // The queue is still usable afterwards
        let sync_scheduler  = Arc::clone(&scheduler);
        let sync_queue      = Arc::clone(&queue);
        let next_value      = run_with_timeout("following sync", move || sync_scheduler.sync(&sync_queue, || 43));
        assert!(next_value == 43);
    }
}

#[test]
fn sync_returns_when_calling_thread_was_already_unparked() {
    for _ in 0..5 {
        let scheduler   = scheduler_without_threads();
        let queue       = scheduler.create_job_queue();
        let future_done = Arc::new(AtomicBool::new(false));

        // Queue a future that waits for a oneshot channel
        let (finish, wait_finish)   = oneshot::channel::<()>();
        let set_future_done         = Arc::clone(&future_done);
        scheduler.future_desync(&queue, move || async move {
            wait_finish.await.ok();
            set_future_done.store(true, Ordering::SeqCst);
        }).detach();

        // Signal the channel a little later on, from another thread
        thread::spawn(move || {
            thread::sleep(Duration::from_millis(100));
            finish.send(()).ok();
        });

        let sync_scheduler      = Arc::clone(&scheduler);
        let sync_queue          = Arc::clone(&queue);
        let sync_future_done    = Arc::clone(&future_done);
        let (value, future_was_done) = run_with_timeout("sync from unparked thread", move || {
            // This thread has a wake-up left over from something else
            thread::current().unpark();

            sync_scheduler.sync(&sync_queue, || (42, sync_future_done.load(Ordering::SeqCst)))
        });

        assert!(value == 42, "sync returned {}", value);
        assert!(future_was_done, "sync ran its closure before the future ahead of it had completed");
    }
}
