//
// Demonstration for C08: a `future_sync` future that is dropped part-way through must release its queue so that later
// operations still run (given at least one pool thread).
//
// What is needed to see the problem: the dropped future must have been *polled while no pool thread had claimed the
// queue yet* (all pool threads busy, or the poll simply winning the race against the pool thread's wake-up). In that
// case the poll 'steals' the queue and runs it on the awaiting thread; when it returns Pending the queue is left parked
// in the `WaitingForPoll(<id of that future>)` state. If the future is then dropped nothing will ever poll it again, so
// the only thing that can resume the queue is a pool thread picking it up from the schedule.
//

use desync::Desync;
use desync::scheduler::*;

use futures::prelude::*;
use futures::channel::oneshot;
use futures::task;
use futures::task::Poll;

use std::sync::*;
use std::sync::atomic::{AtomicBool, AtomicUsize, Ordering};
use std::sync::mpsc;
use std::thread;
use std::time::Duration;

/// Sets a flag when dropped (used to observe when the operation's future is destroyed)
struct SetOnDrop(Arc<AtomicBool>);

impl Drop for SetOnDrop {
    fn drop(&mut self) {
        self.0.store(true, Ordering::SeqCst);
    }
}

///
/// Creates a scheduler with a single pool thread, and occupies that thread with a blocking job on an unrelated queue.
/// Sending to (or dropping) the returned sender releases the thread again.
///
fn scheduler_with_one_busy_thread() -> (Scheduler, mpsc::Sender<()>) {
    let scheduler   = Scheduler::new();
    scheduler.set_max_threads(1);

    let blocker_queue               = scheduler.create_job_queue();
    let (release_tx, release_rx)    = mpsc::channel::<()>();
    let (started_tx, started_rx)    = mpsc::channel::<()>();

    scheduler.desync(&blocker_queue, move || {
        started_tx.send(()).ok();
        release_rx.recv_timeout(Duration::from_secs(20)).ok();
    });

    started_rx.recv_timeout(Duration::from_secs(5)).expect("Pool thread should start running the blocking job");

    (scheduler, release_tx)
}

#[test]
fn later_operations_run_after_dropping_mid_operation() {
    let (scheduler, release_pool_thread) = scheduler_with_one_busy_thread();
    let queue = scheduler.create_job_queue();

    // The operation waits on a oneshot, so it will be 'in the middle' after its first poll
    let (_never_sent, wait_forever) = oneshot::channel::<()>();
    let op_started                  = Arc::new(AtomicBool::new(false));
    let op_destroyed                = Arc::new(AtomicBool::new(false));

    let started     = Arc::clone(&op_started);
    let destroyed   = Arc::clone(&op_destroyed);
    let mut future  = scheduler.future_sync(&queue, move || async move {
        let _destroyed = SetOnDrop(destroyed);
        started.store(true, Ordering::SeqCst);
        wait_forever.await.ok();
        42
    });

    // A later operation on the same queue: reports whether or not the operation's future was gone by the time it ran
    let (later_tx, later_rx)    = mpsc::channel();
    let destroyed               = Arc::clone(&op_destroyed);
    scheduler.desync(&queue, move || { later_tx.send(destroyed.load(Ordering::SeqCst)).ok(); });

    // Poll the future once: the only pool thread is busy, so this runs the queue on this thread up to the future's slot
    let waker       = task::noop_waker();
    let mut context = task::Context::from_waker(&waker);

    assert!(future.poll_unpin(&mut context) == Poll::Pending);
    assert!(op_started.load(Ordering::SeqCst), "Operation should have started in its slot");

    // The later operation must wait while the operation is in progress
    assert!(later_rx.recv_timeout(Duration::from_millis(50)).is_err(), "Later operation ran while the future_sync operation was in progress");

    // Drop the future in the middle of the operation, then let the pool thread become available again
    drop(future);
    assert!(op_destroyed.load(Ordering::SeqCst));
    release_pool_thread.send(()).ok();

    // The queue should have been released
    let future_was_destroyed = later_rx.recv_timeout(Duration::from_secs(3))
        .expect("Later operation never ran after the future_sync future was dropped mid-operation (queue was not released)");
    assert!(future_was_destroyed, "Operation's future should be destroyed before any later operation begins");

    // ... and the queue should be usable as normal
    assert!(scheduler.sync(&queue, || 1) == 1);
}

#[test]
fn later_operations_run_after_dropping_while_waiting_for_slot() {
    let (scheduler, release_pool_thread) = scheduler_with_one_busy_thread();
    let queue = scheduler.create_job_queue();

    // An earlier operation that is waiting for a oneshot
    let (finish_earlier, earlier_recv)  = oneshot::channel::<()>();
    let earlier                         = scheduler.future_desync(&queue, move || async move { earlier_recv.await.ok(); });
    earlier.detach();

    // The future_sync operation queues up behind it
    let op_started  = Arc::new(AtomicBool::new(false));
    let started     = Arc::clone(&op_started);
    let mut future  = scheduler.future_sync(&queue, move || async move {
        started.store(true, Ordering::SeqCst);
    });

    // ... followed by a later operation
    let (later_tx, later_rx) = mpsc::channel();
    scheduler.desync(&queue, move || { later_tx.send(()).ok(); });

    // Polling runs the queue on this thread, but the slot can't be reached as the earlier operation is still waiting
    let waker       = task::noop_waker();
    let mut context = task::Context::from_waker(&waker);

    assert!(future.poll_unpin(&mut context) == Poll::Pending);
    assert!(!op_started.load(Ordering::SeqCst));

    // Drop while waiting for the slot, then finish the earlier operation and free up the pool thread
    drop(future);
    finish_earlier.send(()).ok();
    release_pool_thread.send(()).ok();

    later_rx.recv_timeout(Duration::from_secs(3))
        .expect("Later operation never ran after the future_sync future was dropped while waiting for its slot");
    assert!(!op_started.load(Ordering::SeqCst), "Cancelled operation should never have been started");
}

#[test]
fn desync_usable_after_dropping_future_sync_mid_operation() {
    // The same thing via the `Desync` API and the global scheduler: here nothing keeps the pool threads busy, so whether
    // or not the first poll gets to run the queue itself is down to a race with a pool thread waking up. Repeat a number
    // of times and require that the Desync is always usable afterwards.
    let (finished_tx, finished_rx)  = mpsc::channel();
    let iterations_done             = Arc::new(AtomicUsize::new(0));
    let iterations                  = Arc::clone(&iterations_done);

    thread::spawn(move || {
        let waker       = task::noop_waker();
        let mut context = task::Context::from_waker(&waker);

        for _ in 0..200 {
            let data = Desync::new(0);

            let (_never_sent, wait_forever) = oneshot::channel::<()>();
            let mut future = data.future_sync(move |val| async move {
                *val += 1;
                wait_forever.await.ok();
                *val += 100;
            }.boxed());

            // Start the operation, then give up on it
            let _ = future.poll_unpin(&mut context);
            drop(future);

            // Later operations should run (the cancelled operation may or may not have been started by the single poll)
            data.desync(|val| { *val += 1000; });
            let val = data.sync(|val| *val);
            assert!(val == 1000 || val == 1001, "Unexpected value {}", val);

            iterations.fetch_add(1, Ordering::SeqCst);
        }

        finished_tx.send(()).ok();
    });

    let result = finished_rx.recv_timeout(Duration::from_secs(10));
    assert!(result.is_ok(), "Desync stopped running operations after a future_sync future was dropped (completed {} iterations)", iterations_done.load(Ordering::SeqCst));
}
