extern crate desync;
extern crate futures;

use desync::scheduler::*;

use futures::prelude::*;
use futures::channel::oneshot;
use futures::task;
use futures::task::{ArcWake, Poll};

use std::sync::*;
use std::sync::mpsc;
use std::thread;
use std::time::Duration;

///
/// Waker that just remembers that it was woken (the thread that owns it is busy elsewhere and never polls again)
///
struct FlagWaker {
    awake: Mutex<bool>
}

impl ArcWake for FlagWaker {
    fn wake_by_ref(arc_self: &Arc<Self>) {
        (*arc_self.awake.lock().unwrap()) = true;
    }
}

const STEP_TIMEOUT: Duration = Duration::from_millis(3000);

///
/// Pool of 2 threads, one object (C) blocked on an external gate for the whole scenario (k = 1 < 2).
///
/// Object A has a future that was started by polling it from an ordinary thread while the pool was momentarily full.
/// That thread then goes on to call sync() on the blocked object C, so it is stuck for as long as C is. When A's future
/// is woken there is a free pool thread, so A must carry on in the pool: it must not wait for C's gate.
///
/// Returns Ok(()) if A finished while C was still blocked
///
fn scenario() -> Result<(), String> {
    let scheduler   = Arc::new(Scheduler::new());
    scheduler.set_max_threads(2);

    let queue_a     = scheduler.create_job_queue();
    let queue_c     = scheduler.create_job_queue();
    let queue_d     = scheduler.create_job_queue();

    // C and D each occupy a pool thread until their gate is opened
    let (started_send, started_recv)    = mpsc::channel::<&'static str>();
    let (gate_c_send, gate_c_recv)      = mpsc::channel::<()>();
    let (gate_d_send, gate_d_recv)      = mpsc::channel::<()>();
    let (d_done_send, d_done_recv)      = mpsc::channel::<()>();

    let started_c = started_send.clone();
    scheduler.desync(&queue_c, move || {
        started_c.send("c").unwrap();
        gate_c_recv.recv().ok();
    });

    let started_d = started_send.clone();
    scheduler.desync(&queue_d, move || {
        started_d.send("d").unwrap();
        gate_d_recv.recv().ok();
        d_done_send.send(()).unwrap();
    });

    started_recv.recv_timeout(STEP_TIMEOUT).map_err(|_| "first blocking job never started".to_string())?;
    started_recv.recv_timeout(STEP_TIMEOUT).map_err(|_| "second blocking job never started".to_string())?;

    // Thread X: starts a future on A by polling it (no pool thread is free, so the poll runs the queue itself and the future
    // suspends on a oneshot), queues another operation on A behind it, then blocks in sync() on C
    let (wake_a_send, wake_a_recv)      = oneshot::channel::<()>();
    let (polled_send, polled_recv)      = mpsc::channel::<bool>();
    let (a_done_send, a_done_recv)      = mpsc::channel::<()>();
    let (x_done_send, x_done_recv)      = mpsc::channel::<()>();

    let x_scheduler = Arc::clone(&scheduler);
    let x_queue_a   = Arc::clone(&queue_a);
    let x_queue_c   = Arc::clone(&queue_c);
    let x_waker     = Arc::new(FlagWaker { awake: Mutex::new(false) });
    let thread_x    = thread::spawn(move || {
        let mut future_a = x_scheduler.future_desync(&x_queue_a, move || {
            async move { wake_a_recv.await.ok(); }
        });

        let is_pending = {
            let waker_ref   = task::waker_ref(&x_waker);
            let mut ctxt    = task::Context::from_waker(&waker_ref);

            future_a.poll_unpin(&mut ctxt) == Poll::Pending
        };

        // The next operation on A: runs once the future has completed
        x_scheduler.desync(&x_queue_a, move || { a_done_send.send(()).ok(); });

        polled_send.send(is_pending).unwrap();

        // Blocked here for as long as C is blocked (future_a is not polled again in the meantime)
        x_scheduler.sync(&x_queue_c, || { });

        mem_drop(future_a);
        x_done_send.send(()).ok();
    });

    let is_pending = polled_recv.recv_timeout(STEP_TIMEOUT).map_err(|_| "thread X never polled".to_string())?;
    if !is_pending { return Err("future on A should be pending after the first poll".to_string()); }

    // D's gate opens: one pool thread becomes free again, only C stays blocked
    gate_d_send.send(()).unwrap();
    d_done_recv.recv_timeout(STEP_TIMEOUT).map_err(|_| "D never finished".to_string())?;
    thread::sleep(Duration::from_millis(100));

    // Wake A's future. X is stuck in sync() on C but a pool thread is free, so A should carry on there
    wake_a_send.send(()).unwrap();
    let a_result = a_done_recv.recv_timeout(STEP_TIMEOUT);

    // Open C's gate so everything can shut down whatever the result was
    gate_c_send.send(()).unwrap();
    x_done_recv.recv_timeout(STEP_TIMEOUT).map_err(|_| "thread X never returned from sync on C".to_string())?;
    thread_x.join().ok();

    a_result.map_err(|_| "object A made no progress while object C was blocked (a pool thread was free)".to_string())
}

fn mem_drop<T>(val: T) {
    std::mem::drop(val);
}

#[test]
fn queue_started_by_poll_continues_in_pool_while_poller_is_blocked_on_another_queue() {
    // Watchdog: the scenario runs in its own thread and is given a fixed time to report back
    let (result_send, result_recv) = mpsc::channel();

    thread::spawn(move || {
        for _ in 0..3 {
            let result = scenario();
            if result.is_err() {
                result_send.send(result).ok();
                return;
            }
        }

        result_send.send(Ok(())).ok();
    });

    match result_recv.recv_timeout(Duration::from_secs(20)) {
        Ok(Ok(()))      => { }
        Ok(Err(msg))    => panic!("{}", msg),
        Err(_)          => panic!("scenario timed out")
    }
}
