extern crate desync;
extern crate futures;

use desync::*;

use futures::prelude::*;
use futures::task::{Context, Poll, Waker};

use std::pin::Pin;
use std::sync::atomic::{AtomicBool, AtomicUsize, Ordering};
use std::sync::mpsc;
use std::sync::*;
use std::thread;
use std::time::{Duration, Instant};

/// Sets a flag when it is dropped
struct DropFlag(Arc<AtomicBool>);

impl Drop for DropFlag {
    fn drop(&mut self) {
        self.0.store(true, Ordering::SeqCst);
    }
}

///
/// An input stream that never produces anything. Its second poll announces that it is running and then does not
/// return until it is told to (so the test can act while the pipe's poll job is in the middle of polling its input)
///
struct GatedInput {
    /// Number of times this stream has been polled
    poll_count: Arc<AtomicUsize>,

    /// The last waker passed to this stream
    waker: Arc<Mutex<Option<Waker>>>,

    /// Signalled when the second poll has started
    in_poll: mpsc::Sender<()>,

    /// The second poll returns once something arrives here
    resume: mpsc::Receiver<()>,

    /// Set once this stream has been dropped
    _dropped: DropFlag,
}

impl Stream for GatedInput {
    type Item = i32;

    fn poll_next(self: Pin<&mut Self>, context: &mut Context) -> Poll<Option<i32>> {
        let count = self.poll_count.fetch_add(1, Ordering::SeqCst) + 1;

        // Register for a wake-up, like any stream with nothing to say
        *self.waker.lock().unwrap() = Some(context.waker().clone());

        if count == 2 {
            // Tell the test that the poll job is inside the input stream, and wait for it to do its thing
            self.in_poll.send(()).ok();
            self.resume.recv_timeout(Duration::from_secs(10)).ok();
        }

        Poll::Pending
    }
}

/// Waits for a condition to become true
fn wait_for<F: Fn() -> bool>(timeout: Duration, condition: F) -> bool {
    let start = Instant::now();
    while start.elapsed() < timeout {
        if condition() { return true; }
        thread::sleep(Duration::from_millis(5));
    }
    condition()
}

#[test]
fn dropping_output_while_input_is_being_polled_shuts_the_pipe_down() {
    let poll_count          = Arc::new(AtomicUsize::new(0));
    let waker               = Arc::new(Mutex::new(None));
    let input_dropped       = Arc::new(AtomicBool::new(false));
    let process_dropped     = Arc::new(AtomicBool::new(false));
    let (in_poll, polling)  = mpsc::channel();
    let (resume, resumed)   = mpsc::channel();

    let input = GatedInput {
        poll_count: Arc::clone(&poll_count),
        waker:      Arc::clone(&waker),
        in_poll:    in_poll,
        resume:     resumed,
        _dropped:   DropFlag(Arc::clone(&input_dropped)),
    };

    let target          = Arc::new(Desync::new(0));
    let process_flag    = DropFlag(Arc::clone(&process_dropped));

    // The first poll happens in here: the input goes pending and the pipe is idle, registered with the input
    let output = pipe(Arc::clone(&target), input, move |core: &mut i32, item: i32| {
        let _keep = &process_flag;
        *core += item;
        future::ready(*core).boxed()
    });

    assert!(poll_count.load(Ordering::SeqCst) == 1, "Input should have been polled once by the time pipe() returns");
    assert!(Arc::strong_count(&target) == 2, "Pipe should be holding a strong reference to its target");

    // Wake the pipe as the input: a new poll job starts and polls the input a second time
    let input_waker = waker.lock().unwrap().take().expect("Input stream was given a waker");
    input_waker.wake();

    polling.recv_timeout(Duration::from_secs(10)).expect("Input stream should be polled again after waking the pipe");

    // The poll job is now in the middle of polling the input: drop the output stream at this point
    drop(output);

    // The input has nothing to say (now or ever again)
    resume.send(()).unwrap();

    // The pipe should shut down anyway
    let released_target = wait_for(Duration::from_secs(3), || Arc::strong_count(&target) == 1);
    let dropped_input   = wait_for(Duration::from_secs(3), || input_dropped.load(Ordering::SeqCst));
    let dropped_process = wait_for(Duration::from_secs(1), || process_dropped.load(Ordering::SeqCst));

    assert!(released_target, "Pipe still holds a strong reference to the target desync");
    assert!(dropped_input, "Input stream was not dropped after the output stream was dropped (polled {} times)", poll_count.load(Ordering::SeqCst));
    assert!(dropped_process, "Processing closure was not dropped after the output stream was dropped");
}

#[test]
fn dropping_output_while_idle_shuts_the_pipe_down() {
    // Control: the same pipe, but dropped while the poll job is idle and registered with the input
    let poll_count          = Arc::new(AtomicUsize::new(0));
    let waker               = Arc::new(Mutex::new(None));
    let input_dropped       = Arc::new(AtomicBool::new(false));
    let (in_poll, _polling) = mpsc::channel();
    let (_resume, resumed)  = mpsc::channel();

    let input = GatedInput {
        poll_count: Arc::clone(&poll_count),
        waker:      Arc::clone(&waker),
        in_poll:    in_poll,
        resume:     resumed,
        _dropped:   DropFlag(Arc::clone(&input_dropped)),
    };

    let target = Arc::new(Desync::new(0));
    let output = pipe(Arc::clone(&target), input, move |core: &mut i32, item: i32| {
        *core += item;
        future::ready(*core).boxed()
    });

    drop(output);

    assert!(wait_for(Duration::from_secs(3), || Arc::strong_count(&target) == 1), "Pipe still holds a strong reference to the target desync");
    assert!(wait_for(Duration::from_secs(3), || input_dropped.load(Ordering::SeqCst)), "Input stream was not dropped");
}
