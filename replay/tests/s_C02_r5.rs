//
// Demonstration for C02 (operations run in the order their scheduling calls were made)
//
// A future scheduled with `future_desync` is followed on the same queue by a plain `desync` job. The future wakes its own
// task while it is still being polled (a 'yield': wake_by_ref() and then return Pending), and the queue is being run by a
// pool thread at that moment (the returned SchedulerFuture is detached and never polled, and nobody calls sync()).
//
// The future was scheduled first, so it must finish before the `desync` job starts.
//

extern crate desync;
extern crate futures;

use desync::Desync;
use desync::scheduler::*;

use futures::prelude::*;
use futures::task::{Context, Poll};

use std::pin::Pin;
use std::sync::*;
use std::sync::mpsc;
use std::thread;
use std::time::{Duration, Instant};

///
/// Future that returns 'pending' the first time it's polled, after waking its task from inside the poll
///
struct YieldOnce {
    yielded: bool
}

impl YieldOnce {
    fn new() -> YieldOnce { YieldOnce { yielded: false } }
}

impl Future for YieldOnce {
    type Output = ();

    fn poll(mut self: Pin<&mut Self>, context: &mut Context) -> Poll<()> {
        if self.yielded {
            Poll::Ready(())
        } else {
            // Wake-up arrives while the job is still being polled
            self.yielded = true;
            context.waker().wake_by_ref();
            Poll::Pending
        }
    }
}

///
/// Waits for a log to reach a certain length (false if it times out)
///
fn wait_for_len(log: &Arc<Mutex<Vec<&'static str>>>, len: usize) -> bool {
    let start = Instant::now();

    while log.lock().unwrap().len() < len {
        if start.elapsed() > Duration::from_secs(5) { return false; }
        thread::sleep(Duration::from_millis(1));
    }

    true
}

#[test]
fn yielding_future_finishes_before_later_desync_starts() {
    for _iteration in 0..20 {
        let scheduler   = Scheduler::new();
        scheduler.set_max_threads(2);

        let queue       = scheduler.create_job_queue();
        let log         = Arc::new(Mutex::new(vec![]));

        // First job blocks the queue on a pool thread so the next two are both queued up behind it
        let (release, wait_for_release) = mpsc::channel::<()>();
        let (started, wait_for_start)   = mpsc::channel::<()>();
        scheduler.desync(&queue, move || {
            started.send(()).ok();
            wait_for_release.recv().ok();
        });
        wait_for_start.recv_timeout(Duration::from_secs(5)).expect("Blocking job never started");

        // A: a future that yields once before finishing (never polled from here, so it runs wherever the queue runs)
        let log_a = Arc::clone(&log);
        scheduler.future_desync(&queue, move || async move {
            log_a.lock().unwrap().push("A starts");
            YieldOnce::new().await;
            log_a.lock().unwrap().push("A finishes");
        }).detach();

        // B: scheduled after the call that scheduled A returned
        let log_b = Arc::clone(&log);
        scheduler.desync(&queue, move || {
            log_b.lock().unwrap().push("B");
        });

        // Let the pool thread carry on with the queue
        release.send(()).ok();

        assert!(wait_for_len(&log, 3), "Jobs never completed: {:?} ({:?}, {:?})", log.lock().unwrap(), queue, scheduler);

        let log = log.lock().unwrap().clone();
        assert!(log == vec!["A starts", "A finishes", "B"], "Operations ran out of order: {:?}", log);
    }
}

#[test]
fn desync_yielding_future_finishes_before_later_desync_starts() {
    for _iteration in 0..20 {
        let log = Arc::new(Desync::new(vec![]));

        // Block the desync in the background so the next two operations are queued up behind the blocking one
        let (release, wait_for_release) = mpsc::channel::<()>();
        let (started, wait_for_start)   = mpsc::channel::<()>();
        log.desync(move |_| {
            started.send(()).ok();
            wait_for_release.recv().ok();
        });
        wait_for_start.recv_timeout(Duration::from_secs(5)).expect("Blocking job never started");

        // A yields once part-way through
        log.future_desync(|log: &mut Vec<&'static str>| async move {
            log.push("A starts");
            YieldOnce::new().await;
            log.push("A finishes");
        }.boxed()).detach();

        // B is scheduled afterwards
        log.desync(|log| log.push("B"));

        release.send(()).ok();

        // Wait (without using the desync itself) for everything to finish, then read the result
        thread::sleep(Duration::from_millis(50));
        let result = log.sync(|log| log.clone());

        assert!(result == vec!["A starts", "A finishes", "B"], "Operations ran out of order: {:?}", result);
    }
}
