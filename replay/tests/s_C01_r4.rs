//
// Demonstration for C01: operations on one Desync / job queue never overlap, even across awaits.
//
// A future-based operation is being polled on a pool thread. While it is inside `poll` it wakes its own waker
// (the usual 'yield' pattern: `cx.waker().wake_by_ref(); return Poll::Pending`), which is a wake-up that arrives while
// the queue is running. A second thread is blocked in `sync()` behind the future. The `sync()` closure must not run
// until the future-based operation has completed.
//

extern crate desync;
extern crate futures;

use desync::Desync;
use desync::scheduler;

use futures::prelude::*;
use futures::task::{Context, Poll};

use std::pin::Pin;
use std::sync::*;
use std::sync::atomic::{AtomicBool, AtomicUsize, Ordering};
use std::sync::mpsc;
use std::thread;
use std::time::{Duration, Instant};

///
/// Spins until a flag is set (or a timeout expires). Returns the final value of the flag.
///
fn wait_for(flag: &AtomicBool, timeout: Duration) -> bool {
    let start = Instant::now();
    while !flag.load(Ordering::SeqCst) && start.elapsed() < timeout {
        thread::sleep(Duration::from_millis(1));
    }
    flag.load(Ordering::SeqCst)
}

///
/// Future that yields once: on the first poll it announces that it's being polled, waits (still inside the poll) until
/// it's told to continue, wakes its own waker, lingers for a moment and returns Pending. The second poll returns Ready.
///
struct YieldOnce {
    polled:     bool,
    in_poll:    Arc<AtomicBool>,
    go:         Arc<AtomicBool>,
}

impl Future for YieldOnce {
    type Output = ();

    fn poll(mut self: Pin<&mut Self>, context: &mut Context) -> Poll<()> {
        if self.polled {
            return Poll::Ready(());
        }
        self.polled = true;

        // Tell the test that the operation is in progress, and wait until a sync() caller is blocked behind us
        self.in_poll.store(true, Ordering::SeqCst);
        wait_for(&self.go, Duration::from_secs(5));

        // 'Yield': the wake-up arrives while the queue is still running this poll
        context.waker().wake_by_ref();

        // Still busy for a little while before we return to the scheduler
        thread::sleep(Duration::from_millis(100));

        Poll::Pending
    }
}

///
/// Scheduler-level version: uses the Debug output of the queue to see when the sync() caller has queued its job
///
#[test]
fn sync_does_not_overlap_a_future_that_yields_while_it_is_polled() {
    let queue       = scheduler::queue();
    let in_poll     = Arc::new(AtomicBool::new(false));
    let go          = Arc::new(AtomicBool::new(false));

    // Number of operations that have started and not yet completed
    let active      = Arc::new(AtomicUsize::new(0));

    // The future-based operation
    let op_active   = Arc::clone(&active);
    let op_in_poll  = Arc::clone(&in_poll);
    let op_go       = Arc::clone(&go);
    scheduler::future_desync(&queue, move || async move {
        op_active.fetch_add(1, Ordering::SeqCst);
        YieldOnce { polled: false, in_poll: op_in_poll, go: op_go }.await;
        op_active.fetch_sub(1, Ordering::SeqCst);
    }).detach();

    // Wait for a pool thread to be polling it
    assert!(wait_for(&in_poll, Duration::from_secs(5)), "Future operation never started");

    // A second thread blocks in sync() behind the future
    let (result_send, result_recv)  = mpsc::channel();
    let sync_queue                  = Arc::clone(&queue);
    let sync_active                 = Arc::clone(&active);
    thread::spawn(move || {
        let others_active = scheduler::sync(&sync_queue, move || sync_active.load(Ordering::SeqCst));
        result_send.send(others_active).ok();
    });

    // Wait for the sync job to show up on the queue, then give the caller time to start waiting
    let start = Instant::now();
    while !format!("{:?}", queue).contains("Pending: 1") && start.elapsed() < Duration::from_secs(5) {
        thread::sleep(Duration::from_millis(1));
    }
    assert!(format!("{:?}", queue).contains("Pending: 1"), "sync() never queued its job: {:?}", queue);
    thread::sleep(Duration::from_millis(100));

    // Let the future yield
    go.store(true, Ordering::SeqCst);

    // The sync closure must have run with no other operation in progress
    let others_active = result_recv.recv_timeout(Duration::from_secs(10)).expect("sync() never returned");
    assert!(others_active == 0, "sync() closure ran while {} other operation(s) on the same queue were still in progress", others_active);
}

///
/// Desync-level version: the future-based operation leaves the value odd while it is in progress
///
#[test]
fn desync_sync_never_sees_a_half_finished_future_operation() {
    let desync      = Arc::new(Desync::new(0u32));
    let in_poll     = Arc::new(AtomicBool::new(false));
    let go          = Arc::new(AtomicBool::new(false));

    let op_in_poll  = Arc::clone(&in_poll);
    let op_go       = Arc::clone(&go);
    desync.future_desync(move |val: &mut u32| async move {
        *val += 1;
        YieldOnce { polled: false, in_poll: op_in_poll, go: op_go }.await;
        *val += 1;
    }.boxed()).detach();

    assert!(wait_for(&in_poll, Duration::from_secs(5)), "Future operation never started");

    // A second thread blocks in sync() behind the future
    let (result_send, result_recv)  = mpsc::channel();
    let sync_desync                 = Arc::clone(&desync);
    thread::spawn(move || {
        let seen = sync_desync.sync(|val| *val);
        result_send.send(seen).ok();

        // (Keep the Desync alive on this thread until the test is over so that a broken queue can't take the test thread with it)
        thread::sleep(Duration::from_secs(2));
    });

    // Give the caller time to queue its job and start waiting
    thread::sleep(Duration::from_millis(300));

    // Let the future yield
    go.store(true, Ordering::SeqCst);

    let seen = result_recv.recv_timeout(Duration::from_secs(10)).expect("sync() never returned");
    std::mem::forget(desync);
    assert!(seen == 2, "sync() saw the value {} (the future operation was still suspended at its await)", seen);
}
