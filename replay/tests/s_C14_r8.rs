//
// A `future_sync` future gets exclusive access to the contents of a `Desync` for as long as it exists. This must
// also hold while the future is being *cancelled* (dropped before it has completed): the values it is holding
// on to at that point - which can contain the `&mut T` borrow - are destroyed as part of dropping the future, and
// the next job on the queue must not start until that has finished.
//
// The scenario: start a future_sync future that parks itself while holding a guard over the borrowed data, queue a
// `desync` job behind it, then drop the future. The guard's destructor is slow; the queued job checks that it is
// not running at the same time as the guard still exists.
//

use ::desync::Desync;

use futures::prelude::*;
use futures::future;
use futures::task::{Context, Poll, noop_waker_ref};

use std::thread;
use std::time::{Duration, Instant};
use std::sync::*;
use std::sync::atomic::{AtomicBool, AtomicUsize, Ordering};
use std::sync::mpsc;

///
/// The data protected by the Desync. Only ever touched via atomic operations so that this test remains
/// well-defined even if the exclusion it's testing for is broken.
///
struct Protected {
    /// Number of accessors currently inside the data
    accessors: AtomicUsize,

    /// Total number of jobs that have run against the data
    jobs_run: AtomicUsize
}

///
/// Guard that holds on to the borrowed data while a future is running
///
struct BorrowGuard<'a> {
    data:       &'a mut Protected,
    overlapped: Arc<AtomicBool>
}

impl<'a> BorrowGuard<'a> {
    fn new(data: &'a mut Protected, overlapped: Arc<AtomicBool>) -> BorrowGuard<'a> {
        if data.accessors.fetch_add(1, Ordering::SeqCst) != 0 {
            overlapped.store(true, Ordering::SeqCst);
        }

        BorrowGuard { data, overlapped }
    }
}

impl<'a> Drop for BorrowGuard<'a> {
    fn drop(&mut self) {
        // Releasing the borrow takes a while (eg, flushing something back to the data)
        thread::sleep(Duration::from_millis(150));

        self.data.jobs_run.fetch_add(1, Ordering::SeqCst);
        if self.data.accessors.fetch_sub(1, Ordering::SeqCst) != 1 {
            self.overlapped.store(true, Ordering::SeqCst);
        }
    }
}

///
/// Runs the scenario once, returns true if the data was accessed by two things at once
///
fn cancel_future_sync_while_borrowing() -> bool {
    let overlapped  = Arc::new(AtomicBool::new(false));
    let started     = Arc::new(AtomicBool::new(false));
    let desynced    = Desync::new(Protected { accessors: AtomicUsize::new(0), jobs_run: AtomicUsize::new(0) });

    {
        // Future that borrows the data and then never completes
        let future_overlapped   = Arc::clone(&overlapped);
        let future_started      = Arc::clone(&started);
        let mut sync_future     = desynced.future_sync(move |data| {
            async move {
                let _guard = BorrowGuard::new(data, future_overlapped);
                future_started.store(true, Ordering::SeqCst);

                future::pending::<()>().await;
            }.boxed()
        }).boxed();

        // Job that runs after the future
        let job_overlapped      = Arc::clone(&overlapped);
        desynced.desync(move |data| {
            if data.accessors.fetch_add(1, Ordering::SeqCst) != 0 {
                job_overlapped.store(true, Ordering::SeqCst);
            }

            data.jobs_run.fetch_add(1, Ordering::SeqCst);

            if data.accessors.fetch_sub(1, Ordering::SeqCst) != 1 {
                job_overlapped.store(true, Ordering::SeqCst);
            }
        });

        // Poll the future until it has started running and holds the borrow
        let mut context = Context::from_waker(noop_waker_ref());
        let start_time  = Instant::now();

        while !started.load(Ordering::SeqCst) {
            assert!(start_time.elapsed() < Duration::from_secs(2), "Future never started");

            match sync_future.poll_unpin(&mut context) {
                Poll::Pending   => { thread::sleep(Duration::from_millis(1)); }
                Poll::Ready(_)  => { panic!("Future should never complete"); }
            }
        }

        // Cancel the future while it's holding the borrow
        drop(sync_future);
    }

    // Everything has finished once this returns
    let jobs_run = desynced.sync(|data| data.jobs_run.load(Ordering::SeqCst));
    assert!(jobs_run == 2, "Expected the guard and the job to both have run ({})", jobs_run);

    overlapped.load(Ordering::SeqCst)
}

#[test]
fn cancelled_future_sync_keeps_exclusive_access_until_destroyed() {
    let (done_send, done_recv) = mpsc::channel();

    thread::spawn(move || {
        let mut overlaps = 0;

        for _ in 0..5 {
            if cancel_future_sync_while_borrowing() {
                overlaps += 1;
            }
        }

        done_send.send(overlaps).ok();
    });

    match done_recv.recv_timeout(Duration::from_secs(5)) {
        Ok(overlaps)    => assert!(overlaps == 0, "The data was accessed while a cancelled future_sync future still held its borrow ({} of 5 runs)", overlaps),
        Err(_)          => panic!("Scenario timed out or panicked")
    }
}
