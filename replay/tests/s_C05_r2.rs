//
// Demonstration for C05: dropping a Desync must wait for every operation scheduled beforehand, and only then
// destroy the protected value (exactly once).
//
// Scenario (both tests): a `future_desync` operation is in the middle of a long `poll()` on a pool thread when
//   1. another thread drops the last owner of the Desync (so Drop blocks in the scheduler's background-wait path), and
//   2. while that poll is still in progress, the operation's waker is invoked from a separate 'waker' thread
//      (an ordinary 'the event completed while we were still polling' wake-up).
// The drop must keep waiting until the operation has finished; the value must not be destroyed before that.
//

extern crate desync;
extern crate futures;

use desync::Desync;

use futures::prelude::*;
use futures::task::{Context, Poll, Waker};

use std::pin::Pin;
use std::sync::atomic::{AtomicBool, AtomicUsize, Ordering};
use std::sync::mpsc;
use std::sync::{Arc, Mutex};
use std::thread;
use std::time::{Duration, Instant};

/// The protected value: counts how many times it's destroyed
struct Guarded {
    drop_count: Arc<AtomicUsize>,
}

impl Drop for Guarded {
    fn drop(&mut self) {
        self.drop_count.fetch_add(1, Ordering::SeqCst);
    }
}

/// State shared between the test, the operation and the dropping thread
#[derive(Default)]
struct Shared {
    /// Number of times the protected value has been destroyed
    drop_count: Arc<AtomicUsize>,

    /// The operation has started its first poll
    poll_started: AtomicBool,

    /// The thread performing the drop is about to call drop()
    drop_called: AtomicBool,

    /// The operation has completed
    op_finished: AtomicBool,

    /// The operation saw that the value had already been destroyed while it was still using it
    saw_destroyed_value: AtomicBool,
}

///
/// A future with a slow first poll. During the first poll it hands its waker to another thread, which wakes it
/// while the poll is still running. The first poll returns Pending, the second returns Ready.
///
struct SlowPoll {
    shared: Arc<Shared>,
    send_waker: Mutex<mpsc::Sender<Waker>>,
    polled: bool,
}

impl Future for SlowPoll {
    type Output = ();

    fn poll(mut self: Pin<&mut Self>, context: &mut Context) -> Poll<()> {
        if !self.polled {
            self.polled = true;
            self.shared.poll_started.store(true, Ordering::SeqCst);

            // Wait for the other thread to call drop(), and give it time to block
            let start = Instant::now();
            while !self.shared.drop_called.load(Ordering::SeqCst) && start.elapsed() < Duration::from_secs(5) {
                thread::sleep(Duration::from_millis(1));
            }
            thread::sleep(Duration::from_millis(100));

            // The event we're waiting for completes on another thread while we're still polling: that thread calls our waker
            self.send_waker.lock().unwrap().send(context.waker().clone()).unwrap();

            // ... and we're still busy with the value for a while
            thread::sleep(Duration::from_millis(150));
            if self.shared.drop_count.load(Ordering::SeqCst) != 0 {
                self.shared.saw_destroyed_value.store(true, Ordering::SeqCst);
            }

            Poll::Pending
        } else {
            // Second poll: finish up
            if self.shared.drop_count.load(Ordering::SeqCst) != 0 {
                self.shared.saw_destroyed_value.store(true, Ordering::SeqCst);
            }
            self.shared.op_finished.store(true, Ordering::SeqCst);

            Poll::Ready(())
        }
    }
}

///
/// Performs the drop of the last owner and reports what the world looked like at the moment drop() returned
///
fn drop_and_report(desync: Desync<Guarded>, shared: Arc<Shared>, drop_done: mpsc::Sender<(bool, usize)>) {
    shared.drop_called.store(true, Ordering::SeqCst);
    drop(desync);

    let op_finished = shared.op_finished.load(Ordering::SeqCst);
    let drop_count = shared.drop_count.load(Ordering::SeqCst);
    drop_done.send((op_finished, drop_count)).ok();
}

///
/// Runs the scenario. `drop_on` decides which thread drops the last owner (by calling drop_and_report there)
///
fn run_scenario<DropFn>(drop_on: DropFn)
where
    DropFn: FnOnce(Desync<Guarded>, Arc<Shared>, mpsc::Sender<(bool, usize)>),
{
    let shared = Arc::new(Shared::default());
    let (send_waker, recv_waker) = mpsc::channel::<Waker>();

    // The thread that completes the 'event': wakes the operation as soon as it receives the waker
    let waker_thread = thread::spawn(move || {
        if let Ok(waker) = recv_waker.recv_timeout(Duration::from_secs(10)) {
            waker.wake();
        }
    });

    let desync = Desync::new(Guarded { drop_count: Arc::clone(&shared.drop_count) });

    // Schedule the slow operation
    let op_shared = Arc::clone(&shared);
    desync
        .future_desync(move |_guarded: &mut Guarded| {
            SlowPoll {
                shared: op_shared,
                send_waker: Mutex::new(send_waker),
                polled: false,
            }
            .boxed()
        })
        .detach();

    // Wait for it to start polling on a pool thread
    let start = Instant::now();
    while !shared.poll_started.load(Ordering::SeqCst) {
        assert!(start.elapsed() < Duration::from_secs(5), "Operation never started");
        thread::sleep(Duration::from_millis(1));
    }

    // Drop the last owner (on whichever thread the scenario wants)
    let (drop_done, wait_for_drop) = mpsc::channel();
    drop_on(desync, Arc::clone(&shared), drop_done);

    let (op_finished_when_drop_returned, drops_when_drop_returned) = wait_for_drop
        .recv_timeout(Duration::from_secs(10))
        .expect("Dropping the Desync never returned");

    // Let everything settle so we can see what the operation observed
    waker_thread.join().unwrap();
    thread::sleep(Duration::from_millis(400));

    assert!(op_finished_when_drop_returned, "drop() returned before the operation scheduled before it had finished");
    assert!(drops_when_drop_returned == 1, "Value destroyed {} times when drop() returned", drops_when_drop_returned);
    assert!(!shared.saw_destroyed_value.load(Ordering::SeqCst), "The operation was still running when the value was destroyed");
    assert!(shared.drop_count.load(Ordering::SeqCst) == 1, "Value destroyed {} times", shared.drop_count.load(Ordering::SeqCst));
}

#[test]
fn drop_from_plain_thread_waits_for_operation_woken_while_polling() {
    run_scenario(|desync, shared, drop_done| {
        thread::spawn(move || drop_and_report(desync, shared, drop_done));
    });
}

#[test]
fn drop_from_another_objects_job_waits_for_operation_woken_while_polling() {
    run_scenario(|desync, shared, drop_done| {
        // The last owner is dropped by a job running on a different Desync (ie, on a pool thread)
        let other = Desync::new(());
        other.desync(move |_| drop_and_report(desync, shared, drop_done));

        // Dropping 'other' waits for its job: do that off the test thread so the test's own timeout still works
        thread::spawn(move || drop(other));
    });
}
