extern crate desync;

use desync::scheduler::*;

use std::panic;
use std::thread;
use std::time::Duration;
use std::sync::mpsc::*;

///
/// The failures on the pool threads are deliberate: keep them quiet (and quick: no backtrace is generated for them)
///
fn silence_pool_thread_panics() {
    let default_hook = panic::take_hook();

    panic::set_hook(Box::new(move |info| {
        if thread::current().name() != Some("desync jobs thread") {
            default_hook(info);
        }
    }));
}

///
/// Runs `action` on its own thread and panics if it has not produced a result within `millis` milliseconds
///
fn with_watchdog<TResult: 'static+Send, TFn: 'static+Send+FnOnce() -> TResult>(action: TFn, millis: u64) -> TResult {
    let (tx, rx) = channel();

    thread::Builder::new()
        .name("seed demo scenario".to_string())
        .spawn(move || { tx.send(action()).ok(); })
        .expect("Create scenario thread");

    match rx.recv_timeout(Duration::from_millis(millis)) {
        Ok(result)  => result,
        Err(_)      => panic!("Scenario did not finish in time")
    }
}

///
/// On a private scheduler with a pool of `max_threads` threads: one job fails on every pool thread (each on a queue of
/// its own), and afterwards a job is scheduled on an unrelated queue. That job must run without the queue being kicked
/// by any further call.
///
fn unrelated_queue_runs_after_failed_jobs(max_threads: usize) {
    silence_pool_thread_panics();

    let ran = with_watchdog(move || {
        let scheduler = Scheduler::new();
        scheduler.set_max_threads(max_threads);

        // One failing job for every thread the pool is allowed to have
        let mut failed_queues = vec![];
        for _ in 0..max_threads {
            let (started_tx, started_rx)    = channel();
            let failing_queue               = scheduler.create_job_queue();

            scheduler.desync(&failing_queue, move || {
                started_tx.send(()).ok();
                panic!("This job fails (expected by the test)");
            });

            started_rx.recv_timeout(Duration::from_millis(2000)).expect("Failing job should start");

            // Give the pool thread time to finish unwinding
            thread::sleep(Duration::from_millis(400));
            failed_queues.push(failing_queue);
        }

        // Every thread has gone quiet. Something scheduled on a queue that has nothing to do with the failures should still run
        let (tx, rx)    = channel();
        let queue       = scheduler.create_job_queue();

        scheduler.desync(&queue, move || {
            tx.send(42).ok();
        });

        rx.recv_timeout(Duration::from_millis(3000)).ok()
    }, 12000);

    assert!(ran == Some(42), "Job on an unrelated queue was never run (pool size {})", max_threads);
}

#[test]
fn unrelated_queue_runs_after_failed_job_pool_of_1() {
    unrelated_queue_runs_after_failed_jobs(1);
}

#[test]
fn unrelated_queue_runs_after_failed_jobs_pool_of_2() {
    unrelated_queue_runs_after_failed_jobs(2);
}

#[test]
fn unrelated_queue_runs_after_failed_jobs_pool_of_3() {
    unrelated_queue_runs_after_failed_jobs(3);
}
