extern crate desync;

use desync::scheduler::*;

use std::panic;
use std::sync::*;
use std::sync::atomic::{AtomicUsize, Ordering};
use std::sync::mpsc::*;
use std::thread;
use std::time::Duration;

///
/// Panic payload whose destructor reports that it is being dropped and then waits to be released
/// (the scheduler drops the payload of a panicked pool thread when it reaps that thread)
///
struct SlowDrop {
    entered: Sender<()>,
    release: Receiver<()>,
}

impl Drop for SlowDrop {
    fn drop(&mut self) {
        self.entered.send(()).ok();
        self.release.recv_timeout(Duration::from_secs(4)).ok();
    }
}

///
/// Number of pool threads owned by the scheduler, as reported by its Debug representation ("BBI Pending queue count: n")
///
fn pool_size(scheduler: &Scheduler) -> usize {
    let debug = format!("{:?}", scheduler);
    debug.split(" Pending").next().unwrap().len()
}

///
/// Schedules a job that reports when it starts and then blocks until `release` is dropped/signalled
///
fn blocking_job(scheduler: &Scheduler, queue: &Arc<JobQueue>, running: &Arc<AtomicUsize>, high_water: &Arc<AtomicUsize>, started: &Sender<()>, release: &Arc<(Mutex<bool>, Condvar)>) {
    let running     = Arc::clone(running);
    let high_water  = Arc::clone(high_water);
    let started     = started.clone();
    let release     = Arc::clone(release);

    scheduler.desync(queue, move || {
        let now_running = running.fetch_add(1, Ordering::SeqCst) + 1;
        high_water.fetch_max(now_running, Ordering::SeqCst);
        started.send(()).ok();

        let (lock, cond)    = &*release;
        let mut released    = lock.lock().unwrap();
        while !*released {
            let (guard, timeout) = cond.wait_timeout(released, Duration::from_secs(4)).unwrap();
            released = guard;
            if timeout.timed_out() { break; }
        }

        running.fetch_sub(1, Ordering::SeqCst);
    });
}

fn scenario(max_threads: usize) {
    let scheduler = Arc::new(Scheduler::new());
    scheduler.set_max_threads(max_threads);
    assert!(pool_size(&scheduler) <= max_threads, "pool of {} with a maximum of {} after set_max_threads", pool_size(&scheduler), max_threads);

    // A job on a pool thread panics: that thread finishes and is reaped by the next scheduling call
    let (entered_tx, entered_rx)    = channel();
    let (release_tx, release_rx)    = channel();
    let payload                     = SlowDrop { entered: entered_tx, release: release_rx };
    let panicking_queue             = scheduler.create_job_queue();
    scheduler.desync(&panicking_queue, move || {
        panic::panic_any(payload);
    });
    thread::sleep(Duration::from_millis(300));

    // A scheduling call on another thread reaps the dead thread (and is held while dropping the panic payload)
    let reaper_scheduler    = Arc::clone(&scheduler);
    let (reaped_tx, reaped_rx) = channel();
    let reaper              = thread::spawn(move || {
        let queue = reaper_scheduler.create_job_queue();
        reaper_scheduler.desync(&queue, || { });
        reaped_tx.send(()).ok();
    });
    entered_rx.recv_timeout(Duration::from_secs(3)).expect("The dead thread was never reaped");

    // Meanwhile, schedule enough blocking work to occupy the whole pool
    let running             = Arc::new(AtomicUsize::new(0));
    let high_water          = Arc::new(AtomicUsize::new(0));
    let release_jobs        = Arc::new((Mutex::new(false), Condvar::new()));
    let (started_tx, started_rx) = channel();
    let queues              = (0..max_threads+1).map(|_| scheduler.create_job_queue()).collect::<Vec<_>>();

    for queue in queues.iter().take(max_threads) {
        blocking_job(&scheduler, queue, &running, &high_water, &started_tx, &release_jobs);
    }
    for _ in 0..max_threads {
        started_rx.recv_timeout(Duration::from_secs(3)).expect("Blocking job did not start");
    }

    let size_during = pool_size(&scheduler);

    // Let the reaping call finish
    release_tx.send(()).ok();
    reaped_rx.recv_timeout(Duration::from_secs(3)).expect("Reaping call did not return");
    reaper.join().ok();

    let size_after = pool_size(&scheduler);

    // One more blocking job: the pool is fully occupied, so it can only start if there is a thread beyond the maximum
    blocking_job(&scheduler, &queues[max_threads], &running, &high_water, &started_tx, &release_jobs);
    let extra_started = started_rx.recv_timeout(Duration::from_millis(500)).is_ok();
    let most_running  = high_water.load(Ordering::SeqCst);

    // Release everything and wait for the queues to drain
    {
        let (lock, cond) = &*release_jobs;
        *lock.lock().unwrap() = true;
        cond.notify_all();
    }
    for queue in queues.iter() {
        scheduler.sync(queue, || { });
    }

    // Lowering the maximum and despawning brings the pool down
    scheduler.set_max_threads(1);
    scheduler.despawn_threads_if_overloaded();
    let size_lowered = pool_size(&scheduler);

    assert!(size_during <= max_threads, "pool of {} threads with a maximum of {} while scheduling", size_during, max_threads);
    assert!(size_after <= max_threads, "pool of {} threads with a maximum of {} after scheduling", size_after, max_threads);
    assert!(!extra_started && most_running <= max_threads, "{} jobs were running at once on a pool with a maximum of {} threads", most_running, max_threads);
    assert!(size_lowered <= 1, "pool of {} threads after lowering the maximum to 1", size_lowered);
}

#[test]
fn pool_stays_within_maximum_when_a_dead_thread_is_reaped_during_scheduling() {
    let (done_tx, done_rx) = channel();

    thread::spawn(move || {
        for max_threads in 2..=3 {
            scenario(max_threads);
        }
        done_tx.send(()).ok();
    });

    match done_rx.recv_timeout(Duration::from_secs(10)) {
        Ok(())  => { }
        Err(_)  => panic!("Scenario failed or did not finish in time")
    }
}
