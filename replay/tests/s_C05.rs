//!
//! Demonstration for property C05 ("dropping a Desync waits for its work and frees the value exactly once").
//!
//! The scenario needs a queue that is `Idle` while it still holds a (suspended) job. Two things can produce that:
//!
//!  * a waker for a future that is suspended on the pool is in the middle of being invoked (the queue is marked idle
//!    a moment before it gets put back in the schedule): a very narrow window
//!  * a *stale* waker that was handed out while the queue was being drained synchronously on a caller's thread is
//!    invoked while a later future is suspended on the pool: that kind of waker marks the queue idle and unparks the
//!    thread that used to be draining it, but doesn't put the queue back in the schedule, so the state sticks
//!
//! The test uses the second route as it's deterministic. Dropping the `Desync` at that point must still resume the
//! suspended future, wait for it to finish and only then destroy the value.
//!

use desync::Desync;
use desync::scheduler::scheduler;

use futures::prelude::*;
use futures::task::{Context, Poll, Waker};

use std::pin::Pin;
use std::sync::*;
use std::sync::atomic::{AtomicBool, AtomicUsize, Ordering};
use std::thread;
use std::time::{Duration, Instant};

/// The value protected by the Desync: notes when it is destroyed, and how often
struct Guarded {
    touched:    usize,
    drop_count: Arc<AtomicUsize>,
}

impl Drop for Guarded {
    fn drop(&mut self) {
        self.drop_count.fetch_add(1, Ordering::SeqCst);
    }
}

/// A future that wakes itself once (keeping a copy of the waker it was polled with), then completes on the second poll
struct CaptureWaker {
    polled_once:    bool,
    captured:       Arc<Mutex<Option<(thread::ThreadId, Waker)>>>,
}

impl Future for CaptureWaker {
    type Output = ();

    fn poll(mut self: Pin<&mut Self>, context: &mut Context) -> Poll<()> {
        if !self.polled_once {
            self.polled_once = true;
            *self.captured.lock().unwrap() = Some((thread::current().id(), context.waker().clone()));
            context.waker().wake_by_ref();
            Poll::Pending
        } else {
            Poll::Ready(())
        }
    }
}

/// Shared state for a future that stays pending until it is told to go (it always keeps the most recent waker)
struct GateState {
    open:       AtomicBool,
    poll_count: AtomicUsize,
    waker:      Mutex<Option<Waker>>,
}

struct Gate(Arc<GateState>);

impl Future for Gate {
    type Output = ();

    fn poll(self: Pin<&mut Self>, context: &mut Context) -> Poll<()> {
        let mut waker = self.0.waker.lock().unwrap();

        self.0.poll_count.fetch_add(1, Ordering::SeqCst);

        if self.0.open.load(Ordering::SeqCst) {
            Poll::Ready(())
        } else {
            *waker = Some(context.waker().clone());
            Poll::Pending
        }
    }
}

fn wait_for<F: Fn() -> bool>(what: &str, timeout: Duration, condition: F) -> bool {
    let start = Instant::now();
    while !condition() {
        if start.elapsed() > timeout {
            println!("Timed out waiting for {}", what);
            return false;
        }
        thread::sleep(Duration::from_millis(1));
    }
    true
}

#[test]
fn drop_waits_for_suspended_future_after_stale_wake() {
    let main_thread = thread::current().id();
    let drop_count  = Arc::new(AtomicUsize::new(0));
    let desync      = Desync::new(Guarded { touched: 0, drop_count: Arc::clone(&drop_count) });

    // === Step 1: obtain a waker that was handed out while the queue was being drained on this thread
    //
    // With no threads in the pool, the future is left for the `sync()` call to run on this thread
    scheduler().set_max_threads(0);
    scheduler().despawn_threads_if_overloaded();

    let captured = Arc::new(Mutex::new(None));
    let capture  = CaptureWaker { polled_once: false, captured: Arc::clone(&captured) };
    desync.future_desync(move |_val| capture.boxed()).detach();
    desync.sync(|val| { val.touched += 1; });

    let (captured_on, stale_waker) = captured.lock().unwrap().take().expect("First future was polled");
    assert!(captured_on == main_thread, "First future should have been run by the sync() call");

    // Pool is available again from here on
    scheduler().set_max_threads(4);

    // === Step 2: suspend a future on the pool. It borrows the value until it's done.
    let gate            = Arc::new(GateState { open: AtomicBool::new(false), poll_count: AtomicUsize::new(0), waker: Mutex::new(None) });
    let finished        = Arc::new(AtomicBool::new(false));
    let saw_destroyed   = Arc::new(AtomicBool::new(false));

    let job_gate        = Gate(Arc::clone(&gate));
    let job_finished    = Arc::clone(&finished);
    let job_saw         = Arc::clone(&saw_destroyed);
    let job_drop_count  = Arc::clone(&drop_count);

    desync.future_desync(move |val| {
        async move {
            val.touched += 1;

            job_gate.await;

            // Resumed: the value we have borrowed must still exist (we only touch it if it does)
            if job_drop_count.load(Ordering::SeqCst) != 0 {
                job_saw.store(true, Ordering::SeqCst);
            } else {
                val.touched += 1;
            }

            job_finished.store(true, Ordering::SeqCst);
        }.boxed()
    }).detach();

    assert!(wait_for("future to be polled on the pool", Duration::from_secs(10), || gate.poll_count.load(Ordering::SeqCst) >= 1));

    // Give the pool thread time to finish suspending the queue
    thread::sleep(Duration::from_millis(100));

    // === Step 3: the stale waker goes off (wakers may be invoked at any time, a spurious wake must be harmless)
    stale_waker.wake();

    // === Step 4: something opens the gate a bit later on, using whatever waker the future most recently supplied
    let opener_gate = Arc::clone(&gate);
    let opener      = thread::spawn(move || {
        thread::sleep(Duration::from_millis(300));

        let waker = {
            let mut waker = opener_gate.waker.lock().unwrap();
            opener_gate.open.store(true, Ordering::SeqCst);
            waker.take()
        };
        waker.map(|waker| waker.wake());
    });

    // === Step 5: drop the last owner. Must wait for the suspended future to finish, then destroy the value.
    drop(desync);

    let finished_before_drop_returned  = finished.load(Ordering::SeqCst);
    let drop_count_when_drop_returned  = drop_count.load(Ordering::SeqCst);

    // Let everything settle so we can also see what the future saw when it resumed
    opener.join().unwrap();
    let did_finish = wait_for("suspended future to finish", Duration::from_secs(5), || finished.load(Ordering::SeqCst));

    println!("finished before drop returned: {}", finished_before_drop_returned);
    println!("drop count when drop returned: {}", drop_count_when_drop_returned);
    println!("future finished eventually:    {}", did_finish);
    println!("future saw destroyed value:    {}", saw_destroyed.load(Ordering::SeqCst));

    assert!(finished_before_drop_returned, "drop() returned while an operation scheduled before it was still suspended");
    assert!(drop_count_when_drop_returned == 1, "value destroyed {} times by the time drop() returned", drop_count_when_drop_returned);
    assert!(did_finish, "suspended future never finished");
    assert!(!saw_destroyed.load(Ordering::SeqCst), "an operation resumed after the value it borrows was destroyed");
    assert!(drop_count.load(Ordering::SeqCst) == 1, "value destroyed {} times", drop_count.load(Ordering::SeqCst));
}
