//
// Demonstration for C12: a consumer waiting on the stream returned by `pipe` must always be woken, whichever task
// polled it most recently.
//
// A poll that returns Pending must leave the *current* task registered for wake-up. These tests poll the pipe stream
// while it is empty with one waker, then poll it again (still empty) with a different waker, and only then let the
// input produce an item / end. The task that polled last must be the one that's woken.
//

use ::desync::*;

use futures::prelude::*;
use futures::channel::mpsc;
use futures::executor;
use futures::task::{self, ArcWake, Context, Poll};

use std::sync::*;
use std::sync::atomic::{AtomicUsize, Ordering};
use std::sync::mpsc as std_mpsc;
use std::thread;
use std::time::{Duration, Instant};

/// Waker that counts how many times it has been woken
struct CountingWaker {
    count: AtomicUsize
}

impl ArcWake for CountingWaker {
    fn wake_by_ref(arc_self: &Arc<Self>) {
        arc_self.count.fetch_add(1, Ordering::SeqCst);
    }
}

fn counting_waker() -> (Arc<CountingWaker>, task::Waker) {
    let counter = Arc::new(CountingWaker { count: AtomicUsize::new(0) });
    let waker   = task::waker(Arc::clone(&counter));

    (counter, waker)
}

/// Waits (up to 2 seconds) for a counting waker to be woken
fn wait_for_wake(counter: &Arc<CountingWaker>) -> bool {
    let start = Instant::now();

    while start.elapsed() < Duration::from_secs(2) {
        if counter.count.load(Ordering::SeqCst) > 0 { return true; }
        thread::sleep(Duration::from_millis(2));
    }

    false
}

#[test]
fn try_read_then_wait_for_next_item() {
    for depth in 1..=5 {
        let (mut sender, receiver)  = mpsc::channel::<i32>(10);
        let obj                     = Arc::new(Desync::new(1));
        let mut pipe_out            = pipe(Arc::clone(&obj), receiver, |core, item: i32| future::ready(item + *core).boxed());
        pipe_out.set_backpressure_depth(depth);

        // Non-blocking check for an item: nothing is ready yet (this polls with a no-op waker)
        assert!(pipe_out.next().now_or_never().is_none());

        // Now wait properly for the next item on another thread
        let (send_polled, recv_polled)  = std_mpsc::channel();
        let (send_result, recv_result)  = std_mpsc::channel();

        thread::spawn(move || {
            let mut polled  = false;
            let result      = executor::block_on(future::poll_fn(|context| {
                let poll_result = pipe_out.poll_next_unpin(context);

                if !polled {
                    polled = true;
                    send_polled.send(()).ok();
                }

                poll_result
            }));

            send_result.send(result).ok();
        });

        // Once the consumer is waiting, send an item
        recv_polled.recv_timeout(Duration::from_secs(5)).expect("Consumer never polled");
        executor::block_on(async { sender.send(2).await.unwrap(); });

        // The waiting consumer should be woken and read the item
        let result = recv_result.recv_timeout(Duration::from_secs(2));
        assert!(result == Ok(Some(3)), "depth {}: waiting consumer was not woken for the item ({:?})", depth, result);
    }
}

#[test]
fn last_task_to_poll_is_woken_for_item() {
    let (mut sender, receiver)  = mpsc::channel::<i32>(10);
    let obj                     = Arc::new(Desync::new(1));
    let mut pipe_out            = pipe(Arc::clone(&obj), receiver, |core, item: i32| future::ready(item + *core).boxed());

    let (count_a, waker_a)      = counting_waker();
    let (count_b, waker_b)      = counting_waker();

    // Task A polls the empty stream, then the stream moves to task B, which polls it again
    assert!(pipe_out.poll_next_unpin(&mut Context::from_waker(&waker_a)).is_pending());
    assert!(pipe_out.poll_next_unpin(&mut Context::from_waker(&waker_b)).is_pending());

    // An item arrives
    executor::block_on(async { sender.send(2).await.unwrap(); });

    // Task B is the one waiting on the stream
    assert!(wait_for_wake(&count_b), "Task B was never woken (task A woken {} times)", count_a.count.load(Ordering::SeqCst));
    assert!(pipe_out.poll_next_unpin(&mut Context::from_waker(&waker_b)) == Poll::Ready(Some(3)));
}

#[test]
fn last_task_to_poll_is_woken_for_end_of_input() {
    let (mut sender, receiver)  = mpsc::channel::<i32>(10);
    let obj                     = Arc::new(Desync::new(1));
    let mut pipe_out            = pipe(Arc::clone(&obj), receiver, |core, item: i32| future::ready(item + *core).boxed());

    // Read one item normally
    executor::block_on(async {
        sender.send(2).await.unwrap();
        assert!(pipe_out.next().await == Some(3));
    });

    let (count_a, waker_a)      = counting_waker();
    let (count_b, waker_b)      = counting_waker();

    // Task A polls the empty stream, then the stream moves to task B, which polls it again
    assert!(pipe_out.poll_next_unpin(&mut Context::from_waker(&waker_a)).is_pending());
    assert!(pipe_out.poll_next_unpin(&mut Context::from_waker(&waker_b)).is_pending());

    // The input ends
    drop(sender);

    // Task B is the one waiting on the stream
    assert!(wait_for_wake(&count_b), "Task B was never woken (task A woken {} times)", count_a.count.load(Ordering::SeqCst));
    assert!(pipe_out.poll_next_unpin(&mut Context::from_waker(&waker_b)) == Poll::Ready(None));
}
