//
// Demonstration for C14: a `future_sync` future that is dropped part-way through must not let the queue move on while the
// future (which still holds the `&mut T` borrow of the protected value) is being torn down.
//
// The inner future owns a guard that touches the protected value from its destructor (perfectly legitimate: it was handed
// a `&'borrow mut T`). We start the future, queue another job behind it, then drop the future. The queued job must not get
// to the protected value until the guard's destructor has finished.
//

use desync::Desync;

use futures::prelude::*;
use futures::task::{self, Context, Poll};

use std::sync::Arc;
use std::sync::atomic::{AtomicBool, AtomicUsize, Ordering};
use std::thread;
use std::time::{Duration, Instant};

struct Protected {
    /// Number of parties that are currently inside an exclusive section on this value
    users:      AtomicUsize,

    /// Set to true once the inner future has been created and polled
    started:    Arc<AtomicBool>,

    /// Canary payload: the destructor of the guard reads it, the queued job replaces it
    payload:    Vec<u64>,
}

/// Holds the exclusive borrow of the protected value for as long as the inner future is alive
struct Guard<'a>(&'a mut Protected);

impl<'a> Drop for Guard<'a> {
    fn drop(&mut self) {
        // We still own the exclusive borrow here, so nothing else may be using the value
        self.0.users.fetch_add(1, Ordering::SeqCst);
        thread::sleep(Duration::from_millis(150));
        self.0.users.fetch_sub(1, Ordering::SeqCst);
    }
}

fn run_once() -> Result<(), String> {
    let started     = Arc::new(AtomicBool::new(false));
    let overlapped  = Arc::new(AtomicBool::new(false));
    let job_ran     = Arc::new(AtomicBool::new(false));

    let data = Desync::new(Protected {
        users:      AtomicUsize::new(0),
        started:    Arc::clone(&started),
        payload:    vec![0xC0FFEE; 16]
    });

    // Start a future_sync future that never completes and holds the borrow in a guard
    let mut future = Box::pin(data.future_sync(|protected| {
        async move {
            protected.started.store(true, Ordering::SeqCst);
            let guard = Guard(protected);

            // Never completes: the only way out is for the future to be dropped
            future::pending::<()>().await;

            guard.0.payload.len()
        }.boxed()
    }));

    // Poll it by hand until the inner future is running
    let waker       = task::noop_waker();
    let mut context = Context::from_waker(&waker);
    let start       = Instant::now();

    while !started.load(Ordering::SeqCst) {
        if let Poll::Ready(_) = future.as_mut().poll(&mut context) {
            return Err("future completed unexpectedly".to_string());
        }
        if start.elapsed() > Duration::from_secs(5) {
            return Err("future never started".to_string());
        }
        thread::sleep(Duration::from_millis(1));
    }

    // Queue a job behind the future: it has exclusive access to the value when it runs
    let job_overlapped  = Arc::clone(&overlapped);
    let job_job_ran     = Arc::clone(&job_ran);
    data.desync(move |protected| {
        if protected.users.load(Ordering::SeqCst) != 0 {
            job_overlapped.store(true, Ordering::SeqCst);
        } else {
            // Only replace the payload if nobody else is there (keeps the demonstration itself free of races)
            protected.payload = vec![0xDEAD; 4];
        }
        job_job_ran.store(true, Ordering::SeqCst);
    });

    // Cancel the future: the guard's destructor runs as part of this
    drop(future);

    // Wait for the queued job
    let start = Instant::now();
    while !job_ran.load(Ordering::SeqCst) {
        if start.elapsed() > Duration::from_secs(5) {
            return Err("queued job never ran".to_string());
        }
        thread::sleep(Duration::from_millis(1));
    }

    if overlapped.load(Ordering::SeqCst) {
        return Err("queued job got at the protected value while the cancelled future_sync future still held its &mut borrow".to_string());
    }

    let len = data.sync(|protected| protected.payload.len());
    if len != 4 {
        return Err(format!("unexpected payload length {}", len));
    }

    Ok(())
}

#[test]
fn dropped_future_sync_keeps_the_queue_until_it_is_gone() {
    for iteration in 0..5 {
        if let Err(problem) = run_once() {
            panic!("iteration {}: {}", iteration, problem);
        }
    }
}
