//! BOUNDED stand-in (not a proof) for the statement of `SchedulerCore::claim_pending_queue` that Verus cannot reach (rewrite R13:
//! `schedule.retain(|q| !Arc::ptr_eq(q, queue))`): claiming one queue must remove only THAT queue from the schedule; every other
//! queue waiting in the schedule must still be served when a pool thread becomes free.
//! Bound: 1..=3 other pending queues, pool of 1 (busy) thread.
use desync::scheduler::*;
use futures::channel::oneshot;
use std::sync::*;
use std::sync::atomic::{AtomicUsize, Ordering};
use std::thread;
use std::time::{Duration, Instant};

fn run_case(others: usize) -> Result<(), String> {
    let sched = Arc::new(Scheduler::new());
    sched.set_max_threads(1);
    sched.despawn_threads_if_overloaded();
    // queue C: a future job waiting for an external event (parked, not claimable yet)
    let qc = sched.create_job_queue();
    let (tx, rx) = oneshot::channel::<()>();
    sched.future_desync(&qc, move || async move { rx.await.ok(); }).detach();
    let t0 = Instant::now();
    while !format!("{:?}", qc).contains("WaitingForWake") && t0.elapsed() < desync_replay::secs(2) { thread::sleep(desync_replay::ms(5)); }
    // queue A occupies the only pool thread
    let gate = Arc::new((Mutex::new(false), Condvar::new()));
    let qa = sched.create_job_queue();
    { let gate = gate.clone(); sched.desync(&qa, move || { let mut g = gate.0.lock().unwrap(); while !*g { g = gate.1.wait(g).unwrap(); } }); }
    thread::sleep(desync_replay::ms(50));
    // other queues: accepted, Pending in the schedule
    let ran = Arc::new(AtomicUsize::new(0));
    let mut qs = vec![];
    for _ in 0..others { let q = sched.create_job_queue(); let ran = ran.clone(); sched.desync(&q, move || { ran.fetch_add(1, Ordering::SeqCst); }); qs.push(q); }
    // a sync caller blocks on C; waking C lets it claim C (no pool thread is free)
    let waiter = { let (s, q) = (sched.clone(), qc.clone()); thread::spawn(move || s.sync(&q, || 7)) };
    thread::sleep(desync_replay::ms(100));
    tx.send(()).ok();
    let v = waiter.join().map_err(|_| "waiter panicked".to_string())?;
    if v != 7 { return Err("sync returned a wrong value".into()); }
    // free the pool thread: the other queues must now run with no further API call
    { *gate.0.lock().unwrap() = true; gate.1.notify_all(); }
    let t0 = Instant::now();
    while ran.load(Ordering::SeqCst) < others && t0.elapsed() < desync_replay::secs(3) { thread::sleep(desync_replay::ms(10)); }
    if ran.load(Ordering::SeqCst) < others {
        return Err(format!("others={}: only {} of {} queues that were Pending in the schedule ran after a waiter claimed another queue; first = {:?}, scheduler = {:?}", others, ran.load(Ordering::SeqCst), others, qs[0], sched));
    }
    Ok(())
}

#[test]
fn claiming_a_queue_leaves_the_rest_of_the_schedule_alone() {
    let mut failures = vec![];
    for others in 1..=3 { if let Err(e) = run_case(others) { println!("REPLAY failing case: {}", e); failures.push(e); } }
    println!("REPLAY bounded cases=3 failures={:?}", failures);
    assert!(failures.is_empty(), "{:?}", failures);
}
