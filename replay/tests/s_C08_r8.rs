//
// C08: dropping the future returned by future_sync in the middle of its operation cancels the operation, and the
// operation's future is destroyed before any later operation on the same queue begins
//

extern crate desync;
extern crate futures;

use desync::*;
use desync::scheduler::*;

use futures::prelude::*;
use futures::future;
use futures::task;
use futures::task::{Poll};

use std::thread;
use std::time::Duration;
use std::sync::*;
use std::sync::mpsc;

type Log = Arc<Mutex<Vec<&'static str>>>;

///
/// Runs a scenario in its own thread and turns a hang into a failure
///
fn with_watchdog<TFn: 'static+Send+FnOnce() -> ()>(scenario: TFn) {
    let (done_tx, done_rx) = mpsc::channel();

    thread::Builder::new()
        .name("seed demo scenario".to_string())
        .spawn(move || {
            scenario();
            done_tx.send(()).ok();
        })
        .expect("scenario thread");

    match done_rx.recv_timeout(Duration::from_secs(5)) {
        Ok(())                                      => { }
        Err(mpsc::RecvTimeoutError::Timeout)        => panic!("Scenario timed out"),
        Err(mpsc::RecvTimeoutError::Disconnected)   => panic!("Scenario panicked")
    }
}

///
/// Owned by the operation's future: takes a while to be destroyed, and says when that has finished
///
struct SlowToDestroy(Log);

impl Drop for SlowToDestroy {
    fn drop(&mut self) {
        thread::sleep(Duration::from_millis(100));
        self.0.lock().unwrap().push("operation destroyed");
    }
}

///
/// Polls a future until the operation inside it reports that it has started
///
fn poll_until_started<TFuture: Unpin+Future>(future: &mut TFuture, started: &mpsc::Receiver<()>) {
    let waker       = task::noop_waker();
    let mut context = task::Context::from_waker(&waker);

    for _ in 0..2000 {
        if let Poll::Ready(_) = future.poll_unpin(&mut context) {
            panic!("Operation never finishes, so the future should not be ready");
        }

        if started.try_recv().is_ok() {
            return;
        }

        thread::sleep(Duration::from_millis(1));
    }

    panic!("Operation never started");
}

///
/// Drops a future_sync future in the middle of its operation, on a private scheduler with the specified pool size
///
fn drop_mid_operation_on_scheduler(pool_size: usize) {
    with_watchdog(move || {
        let scheduler = Scheduler::new();
        scheduler.set_max_threads(pool_size);
        scheduler.despawn_threads_if_overloaded();

        let queue                   = queue();
        let log: Log                = Arc::new(Mutex::new(vec![]));
        let (started_tx, started)   = mpsc::channel();

        // The operation starts, then never completes
        let op_log      = Arc::clone(&log);
        let mut future  = scheduler.future_sync(&queue, move || async move {
            let _owned = SlowToDestroy(op_log);
            started_tx.send(()).ok();
            future::pending::<()>().await;
        });

        // A later operation on the same queue
        let later_log = Arc::clone(&log);
        scheduler.desync(&queue, move || { later_log.lock().unwrap().push("later operation"); });

        // Get into the middle of the operation, then cancel it
        poll_until_started(&mut future, &started);
        assert!(log.lock().unwrap().is_empty());
        mem_drop(future);

        // The queue is released, so this runs after the later operation
        scheduler.sync(&queue, || { });

        let log = log.lock().unwrap().clone();
        assert!(log == vec!["operation destroyed", "later operation"], "pool size {}: {:?}", pool_size, log);
    });
}

fn mem_drop<T>(val: T) {
    std::mem::drop(val);
}

#[test]
fn drop_mid_operation_pool_size_1() {
    drop_mid_operation_on_scheduler(1);
}

#[test]
fn drop_mid_operation_pool_size_2() {
    drop_mid_operation_on_scheduler(2);
}

#[test]
fn drop_mid_operation_pool_size_3() {
    drop_mid_operation_on_scheduler(3);
}

#[test]
fn drop_mid_operation_on_desync() {
    with_watchdog(|| {
        let desynced                = Desync::new(0u32);
        let log: Log                = Arc::new(Mutex::new(vec![]));
        let (started_tx, started)   = mpsc::channel();

        {
            // The operation borrows the data, starts, then never completes
            let op_log      = Arc::clone(&log);
            let mut future  = desynced.future_sync(move |data| async move {
                let _owned = SlowToDestroy(op_log);
                *data += 1;
                started_tx.send(()).ok();
                future::pending::<()>().await;
            }.boxed());

            // A later operation on the same data
            let later_log = Arc::clone(&log);
            desynced.desync(move |data| { *data += 1; later_log.lock().unwrap().push("later operation"); });

            // Get into the middle of the operation, then cancel it
            poll_until_started(&mut future, &started);
            assert!(log.lock().unwrap().is_empty());
        }

        // The queue is released, so this runs after the later operation
        assert!(desynced.sync(|data| *data) == 2);

        let log = log.lock().unwrap().clone();
        assert!(log == vec!["operation destroyed", "later operation"], "{:?}", log);
    });
}

#[test]
fn drop_before_slot_still_releases_queue() {
    // Sanity check for the scenario: a future dropped without being polled never starts its operation and does not hold up the queue
    with_watchdog(|| {
        let scheduler = Scheduler::new();
        scheduler.set_max_threads(1);

        let queue       = queue();
        let log: Log    = Arc::new(Mutex::new(vec![]));

        let op_log      = Arc::clone(&log);
        let future      = scheduler.future_sync(&queue, move || async move { op_log.lock().unwrap().push("operation"); });
        mem_drop(future);

        let later_log = Arc::clone(&log);
        scheduler.desync(&queue, move || { later_log.lock().unwrap().push("later operation"); });
        scheduler.sync(&queue, || { });

        let log = log.lock().unwrap().clone();
        assert!(log == vec!["later operation"], "{:?}", log);
    });
}
