//
// Demonstration for C07: the operation behind a future_desync/after future runs to completion even if the returned future
// is dropped at any point (given at least one pool thread).
//
// The sequence needed here:
//
//   1. the only pool thread is busy with another queue, so the task that polls the future runs the queue itself;
//   2. the operation is not ready yet, so that poll returns Pending with the queue parked until the next poll;
//   3. the event the operation is waiting for arrives (the polling task is woken, the queue is put in the schedule for
//      the pool to pick up, but the pool is still busy);
//   4. the task drops the future instead of polling it again (what `select`, a timeout or `detach()` does);
//   5. the pool thread becomes free.
//
// The operation must now be finished by the pool thread.
//
use desync::scheduler::*;

use futures::prelude::*;
use futures::channel::oneshot;
use futures::task;
use futures::task::{ArcWake, Poll};

use std::sync::*;
use std::sync::atomic::{AtomicBool, Ordering};
use std::sync::mpsc;
use std::thread;
use std::time::Duration;

struct FlagWaker { awake: AtomicBool }

impl ArcWake for FlagWaker {
    fn wake_by_ref(arc_self: &Arc<Self>) { arc_self.awake.store(true, Ordering::SeqCst); }
}

///
/// Runs an action on another thread and waits up to the timeout for its result
///
fn with_timeout<T: 'static+Send>(millis: u64, action: impl 'static+Send+FnOnce() -> T) -> Option<T> {
    let (tx, rx) = mpsc::channel();
    thread::spawn(move || { tx.send(action()).ok(); });
    rx.recv_timeout(Duration::from_millis(millis)).ok()
}

///
/// Creates a scheduler with a single pool thread that stays busy (with a job on a queue of its own) until the returned sender is used
///
fn scheduler_with_busy_thread() -> (Scheduler, mpsc::Sender<()>) {
    let scheduler = Scheduler::new();
    scheduler.set_max_threads(1);
    scheduler.despawn_threads_if_overloaded();

    let (release, wait_release) = mpsc::channel::<()>();
    let (started, wait_started) = mpsc::channel::<()>();
    let blocker_queue           = scheduler.create_job_queue();
    scheduler.desync(&blocker_queue, move || { started.send(()).ok(); wait_release.recv().ok(); });
    wait_started.recv().unwrap();

    (scheduler, release)
}

///
/// Steps 1-5 above. `make_future` schedules the operation (which forwards the value received from the oneshot to the mpsc channel)
///
fn drop_after_wake<TFuture, TMake>(make_future: TMake) -> (String, String, bool, Option<i32>)
where
    TFuture:    Unpin+Future,
    TMake:      FnOnce(&Scheduler, &Arc<JobQueue>, oneshot::Receiver<i32>, mpsc::Sender<i32>) -> TFuture,
{
    // 1. one pool thread, busy elsewhere
    let (scheduler, release)    = scheduler_with_busy_thread();
    let queue                   = scheduler.create_job_queue();

    let (event, wait_event)     = oneshot::channel::<i32>();
    let (finished, is_finished) = mpsc::channel::<i32>();
    let mut future              = make_future(&scheduler, &queue, wait_event, finished);

    // 2. poll once: the polling task runs the queue itself, the operation is pending
    let flag            = Arc::new(FlagWaker { awake: AtomicBool::new(false) });
    let waker           = task::waker_ref(&flag);
    let mut context     = task::Context::from_waker(&waker);

    assert!(future.poll_unpin(&mut context).is_pending(), "operation can't be ready yet");
    let state_after_poll = format!("{:?}", queue);

    // 3. the event arrives: the polling task is told to poll again
    event.send(7).unwrap();
    let woken = flag.awake.load(Ordering::SeqCst);

    // 4. ...but drops the future instead
    drop(future);
    let state_after_drop = format!("{:?}", queue);

    // 5. the pool thread becomes free: the operation must complete
    release.send(()).unwrap();
    let result = is_finished.recv_timeout(Duration::from_millis(3000)).ok();

    (state_after_poll, state_after_drop, woken, result)
}

#[test]
fn future_desync_operation_completes_when_future_dropped_after_wake() {
    let outcome = with_timeout(10000, || {
        drop_after_wake(|scheduler, queue, wait_event, finished| {
            scheduler.future_desync(queue, move || async move {
                let value = wait_event.await.unwrap();
                finished.send(value).ok();
                value
            })
        })
    });

    let (after_poll, after_drop, woken, result) = outcome.expect("timed out");
    assert!(woken, "polling task was not woken when the event arrived (queue after poll: {})", after_poll);
    assert!(result == Some(7), "operation never ran to completion after its future was dropped (queue after poll: {}; after drop: {}; result {:?})", after_poll, after_drop, result);
}

#[test]
fn after_operation_completes_when_future_dropped_after_wake() {
    let outcome = with_timeout(10000, || {
        drop_after_wake(|scheduler, queue, wait_event, finished| {
            scheduler.after(queue, wait_event, move |value| {
                let value = value.unwrap();
                finished.send(value).ok();
                value
            }).boxed()
        })
    });

    let (after_poll, after_drop, woken, result) = outcome.expect("timed out");
    assert!(woken, "polling task was not woken when the event arrived (queue after poll: {})", after_poll);
    assert!(result == Some(7), "operation never ran to completion after its future was dropped (queue after poll: {}; after drop: {}; result {:?})", after_poll, after_drop, result);
}

#[test]
fn later_futures_on_the_queue_still_resolve_when_an_earlier_future_is_dropped_after_wake() {
    // Same sequence, then a second future on the same queue is awaited and waited for with .sync()
    let outcome = with_timeout(10000, || {
        let (scheduler, release)    = scheduler_with_busy_thread();
        let queue                   = scheduler.create_job_queue();
        let (event, wait_event)     = oneshot::channel::<i32>();

        let mut first   = scheduler.future_desync(&queue, move || async move { wait_event.await.unwrap() });
        let second      = scheduler.future_desync(&queue, move || async move { 2 });
        let third       = scheduler.future_desync(&queue, move || async move { 3 });

        let flag        = Arc::new(FlagWaker { awake: AtomicBool::new(false) });
        let waker       = task::waker_ref(&flag);
        let mut context = task::Context::from_waker(&waker);

        assert!(first.poll_unpin(&mut context).is_pending());
        event.send(1).unwrap();
        first.detach();
        release.send(()).unwrap();

        let (done, wait_done) = mpsc::channel();
        thread::spawn(move || {
            let second = futures::executor::block_on(second);
            let third  = third.sync();
            done.send((second, third)).ok();
        });

        wait_done.recv_timeout(Duration::from_millis(3000)).ok()
    });

    let outcome = outcome.expect("timed out");
    assert!(outcome == Some((Ok(2), Ok(3))), "later futures on the queue never resolved: {:?}", outcome);
}
