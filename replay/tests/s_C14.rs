//
// Demonstration for seed C14 (memory safety of the safe API).
//
// `Desync::drop` frees the protected value with a final `sync` on the queue, and relies on that `sync` running
// strictly after every job that was queued before it (those jobs hold a raw pointer to the value).
//
// A queue can be in the `Idle` state while it still has a job on it: a future job that returned `Pending` is put
// back at the front of the queue, and when its waker fires the queue goes `WaitingForWake -> Idle` before it is
// re-scheduled. If `sync` treats 'idle' as 'empty' and runs its job directly, the value is freed while the pending
// future still holds `&mut T`, and the future then runs against the freed value.
//
// Nothing here dereferences freed memory: the payload's `Drop` clears an external `alive` flag, and the job checks
// that flag instead of touching the value once it has been freed.
//

use desync::Desync;
use desync::scheduler::scheduler;

use futures::prelude::*;
use futures::channel::oneshot;
use futures::task::{Context, Poll, Waker};

use std::pin::Pin;
use std::sync::*;
use std::sync::atomic::{AtomicBool, AtomicUsize, Ordering};
use std::thread;
use std::time::{Duration, Instant};

/// The tests in this file change the thread count of the global scheduler, so they must not overlap
static SERIAL: Mutex<()> = Mutex::new(());

///
/// The value protected by the Desync. Dropping it clears the shared `alive` flag.
///
struct Payload {
    alive: Arc<AtomicBool>,
    value: u64
}

impl Drop for Payload {
    fn drop(&mut self) {
        self.alive.store(false, Ordering::SeqCst);
    }
}

///
/// Future that stores the waker it is polled with and completes immediately
///
struct GrabWaker(Arc<Mutex<Option<Waker>>>);

impl Future for GrabWaker {
    type Output = ();

    fn poll(self: Pin<&mut Self>, context: &mut Context) -> Poll<()> {
        *self.0.lock().unwrap() = Some(context.waker().clone());
        Poll::Ready(())
    }
}

fn wait_for(flag: &AtomicBool, what: &str) {
    let start = Instant::now();
    while !flag.load(Ordering::SeqCst) {
        if start.elapsed() > Duration::from_secs(10) {
            panic!("Timed out waiting for {}", what);
        }
        thread::sleep(Duration::from_millis(1));
    }
}

///
/// Deterministic version: a waker kept from an earlier, already finished, job on the same Desync is invoked
/// while a later future job is suspended. That leaves the queue 'idle' with the suspended job still on it.
///
#[test]
fn value_is_not_freed_while_a_suspended_job_still_borrows_it() {
    let _serial = SERIAL.lock().unwrap_or_else(|err| err.into_inner());

    let alive       = Arc::new(AtomicBool::new(true));
    let polled      = Arc::new(AtomicBool::new(false));
    let finished    = Arc::new(AtomicBool::new(false));
    let violation   = Arc::new(AtomicBool::new(false));

    let desync      = Desync::new(Payload { alive: Arc::clone(&alive), value: 0 });

    // Step 1: with no pool threads, queue a future and run it with a 'sync'. The future is polled on this thread,
    // so the waker it sees is one that wakes this thread for this queue. It keeps a clone (futures may do that,
    // and wakers may be invoked at any time)
    scheduler().set_max_threads(0);
    scheduler().despawn_threads_if_overloaded();

    let waker_slot  = Arc::new(Mutex::new(None));
    let grab_slot   = Arc::clone(&waker_slot);
    desync.future_desync(move |_payload| { async move { GrabWaker(grab_slot).await }.boxed() }).detach();
    desync.sync(|payload| { payload.value += 1; });

    let old_waker   = waker_slot.lock().unwrap().take().expect("The first future should have been polled by now");

    // Step 2: with pool threads available again, queue a job that borrows the value across an await
    scheduler().set_max_threads(4);

    let (release, wait_for_release)             = oneshot::channel::<()>();
    let (job_alive, job_polled, job_finished)   = (Arc::clone(&alive), Arc::clone(&polled), Arc::clone(&finished));
    let job_violation                           = Arc::clone(&violation);

    desync.future_desync(move |payload| {
        async move {
            job_polled.store(true, Ordering::SeqCst);

            // Suspend while holding the borrow of the payload
            wait_for_release.await.ok();

            if job_alive.load(Ordering::SeqCst) {
                // Value still exists, so we can use it
                payload.value += 1;
            } else {
                // The value we borrowed was freed while this job was suspended (don't touch it)
                job_violation.store(true, Ordering::SeqCst);
            }

            job_finished.store(true, Ordering::SeqCst);
        }.boxed()
    }).detach();

    // Wait for a pool thread to poll the job and put the queue to sleep
    wait_for(&polled, "the job to be polled");
    thread::sleep(Duration::from_millis(200));

    // Step 3: the stale waker from step 1 fires
    old_waker.wake();

    // The job is released a while after we start dropping the Desync
    let releaser = thread::spawn(move || {
        thread::sleep(Duration::from_millis(500));
        release.send(()).ok();
    });

    // Step 4: drop the desync. This must wait for the suspended job before it frees the value
    drop(desync);

    let finished_before_drop_returned = finished.load(Ordering::SeqCst);

    releaser.join().unwrap();
    wait_for(&finished, "the job to finish");

    assert!(!alive.load(Ordering::SeqCst), "Payload should have been freed by the drop");
    assert!(!violation.load(Ordering::SeqCst), "A job that borrows the protected value ran after the value was freed");
    assert!(finished_before_drop_returned, "Desync::drop returned (value freed) while a job borrowing the value was still suspended");
}

///
/// Racing version: no stale wakers, just a wake-up from another thread racing against the drop of the Desync.
/// The window is only a few instructions wide (between the waker marking the queue as idle and re-scheduling it)
/// so this is a stress test: it can't fail on correct code, and usually (but not always) catches the problem.
///
#[test]
fn value_is_not_freed_while_a_job_is_being_woken() {
    let _serial = SERIAL.lock().unwrap_or_else(|err| err.into_inner());

    scheduler().set_max_threads(4);

    let violations  = Arc::new(AtomicUsize::new(0));
    let go          = Arc::new(AtomicUsize::new(0));

    // Thread that releases the suspended job when told to
    let (send_release, recv_release) = mpsc::channel::<(usize, oneshot::Sender<()>)>();
    let waker_go    = Arc::clone(&go);
    let waker_thread = thread::spawn(move || {
        while let Ok((iteration, release)) = recv_release.recv() {
            while waker_go.load(Ordering::Acquire) != iteration { std::hint::spin_loop(); }
            release.send(()).ok();
        }
    });

    let start           = Instant::now();
    let mut iteration   = 0;

    while start.elapsed() < Duration::from_secs(8) && violations.load(Ordering::SeqCst) == 0 {
        iteration += 1;

        let alive       = Arc::new(AtomicBool::new(true));
        let polled      = Arc::new(AtomicBool::new(false));
        let finished    = Arc::new(AtomicBool::new(false));
        let desync      = Desync::new(Payload { alive: Arc::clone(&alive), value: 0 });

        let (release, wait_for_release)             = oneshot::channel::<()>();
        let (job_alive, job_polled, job_finished)   = (Arc::clone(&alive), Arc::clone(&polled), Arc::clone(&finished));
        let job_violations                          = Arc::clone(&violations);

        desync.future_desync(move |payload| {
            async move {
                job_polled.store(true, Ordering::SeqCst);
                wait_for_release.await.ok();

                if job_alive.load(Ordering::SeqCst) {
                    payload.value += 1;
                } else {
                    job_violations.fetch_add(1, Ordering::SeqCst);
                }

                job_finished.store(true, Ordering::SeqCst);
            }.boxed()
        }).detach();

        // Wait for the job to be suspended
        while !polled.load(Ordering::SeqCst) { std::hint::spin_loop(); }
        for _ in 0..2000 { std::hint::spin_loop(); }

        // Release the job on the other thread, and drop the desync on this one after a short varying delay
        send_release.send((iteration, release)).unwrap();
        for _ in 0..2000 { std::hint::spin_loop(); }
        go.store(iteration, Ordering::Release);
        for _ in 0..((iteration%64) * 8) { std::hint::spin_loop(); }

        drop(desync);

        wait_for(&finished, "the job to finish");
    }

    drop(send_release);
    waker_thread.join().unwrap();

    println!("{} iterations", iteration);
    assert!(violations.load(Ordering::SeqCst) == 0, "A job that borrows the protected value ran after the value was freed (iteration {})", iteration);
}
