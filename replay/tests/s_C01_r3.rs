//
// C01 demonstration: operations on one queue must never overlap, even while one of them is suspended at an await.
//
// A future_desync operation 'A' is run by *polling its SchedulerFuture* on the test thread (the pool's only thread is
// busy elsewhere when the poll starts, so the poll steals the queue and drains it on the calling thread). A's future
// wakes its own waker during its first poll and returns Pending (a plain 'yield'). A plain desync operation 'B' is
// queued behind A. The pool thread becomes free while A is being polled. The context waker used for the poll takes
// a little while to run (as a waker that has to take a contended executor lock might).
//
// B must not start until A's future has completed.
//

use desync::scheduler::*;

use futures::prelude::*;
use futures::task;
use futures::task::{ArcWake, Poll, Context};

use std::pin::Pin;
use std::sync::*;
use std::sync::atomic::{AtomicBool, AtomicUsize, Ordering};
use std::sync::mpsc;
use std::thread;
use std::time::{Duration, Instant};

/// A waker that is slow to run (and records that it was woken)
struct SlowWaker {
    woken: AtomicBool,
    delay: Duration
}

impl ArcWake for SlowWaker {
    fn wake_by_ref(arc_self: &Arc<Self>) {
        thread::sleep(arc_self.delay);
        arc_self.woken.store(true, Ordering::SeqCst);
    }
}

/// Future that yields once: on the first poll it runs `on_first_poll`, wakes itself and returns pending; on the second it finishes
struct YieldOnce<F: FnMut() + Send + Unpin> {
    polls:          usize,
    on_first_poll:  F
}

impl<F: FnMut() + Send + Unpin> Future for YieldOnce<F> {
    type Output = ();

    fn poll(mut self: Pin<&mut Self>, context: &mut Context) -> Poll<()> {
        self.polls += 1;

        if self.polls == 1 {
            (self.on_first_poll)();
            context.waker().wake_by_ref();
            Poll::Pending
        } else {
            Poll::Ready(())
        }
    }
}

fn run_once(iteration: usize) -> Result<(), String> {
    let scheduler   = Arc::new(Scheduler::new());
    scheduler.set_max_threads(1);

    let blocker_queue   = scheduler.create_job_queue();
    let queue           = scheduler.create_job_queue();

    // 'in_operation' plays the part of the &mut T: it's set for the whole span of an operation on 'queue'
    let in_operation    = Arc::new(AtomicBool::new(false));
    let overlaps        = Arc::new(AtomicUsize::new(0));
    let b_ran           = Arc::new(AtomicBool::new(false));

    // Occupy the only pool thread so that 'queue' stays pending until it's polled
    let (blocker_started_send, blocker_started) = mpsc::channel::<()>();
    let (release_blocker, wait_for_release)     = mpsc::channel::<()>();
    scheduler.desync(&blocker_queue, move || {
        blocker_started_send.send(()).ok();
        wait_for_release.recv_timeout(Duration::from_secs(10)).ok();
    });
    blocker_started.recv_timeout(Duration::from_secs(10)).map_err(|_| "blocker never started".to_string())?;

    // Operation A: a future that yields once
    let a_in_operation  = Arc::clone(&in_operation);
    let a_overlaps      = Arc::clone(&overlaps);
    let release_blocker = Mutex::new(Some(release_blocker));
    let mut future_a    = scheduler.future_desync(&queue, move || {
        // The span of A starts here
        if a_in_operation.swap(true, Ordering::SeqCst) { a_overlaps.fetch_add(1, Ordering::SeqCst); }

        let a_in_operation = Arc::clone(&a_in_operation);
        async move {
            YieldOnce {
                polls:          0,
                on_first_poll:  move || {
                    // Free up the pool thread and give it a moment to go dormant
                    release_blocker.lock().unwrap().take().map(|release| release.send(()).ok());
                    thread::sleep(Duration::from_millis(50));
                }
            }.await;

            // The span of A ends here
            a_in_operation.store(false, Ordering::SeqCst);
        }
    });

    // Operation B: a plain closure queued behind A
    let b_in_operation  = Arc::clone(&in_operation);
    let b_overlaps      = Arc::clone(&overlaps);
    let b_has_run       = Arc::clone(&b_ran);
    scheduler.desync(&queue, move || {
        if b_in_operation.swap(true, Ordering::SeqCst) { b_overlaps.fetch_add(1, Ordering::SeqCst); }
        thread::sleep(Duration::from_millis(5));
        b_in_operation.store(false, Ordering::SeqCst);
        b_has_run.store(true, Ordering::SeqCst);
    });

    // Poll A's future on this thread until it's done
    let waker       = Arc::new(SlowWaker { woken: AtomicBool::new(false), delay: Duration::from_millis(100) });
    let waker_ref   = task::waker_ref(&waker);
    let mut context = Context::from_waker(&waker_ref);
    let start       = Instant::now();

    loop {
        if let Poll::Ready(result) = future_a.poll_unpin(&mut context) {
            if result.is_err() { return Err(format!("iteration {}: A was cancelled", iteration)); }
            break;
        }

        if start.elapsed() > Duration::from_secs(10) {
            return Err(format!("iteration {}: A never completed ({:?})", iteration, queue));
        }

        // Wait to be woken (or poll again after a little while anyway)
        let wait_start = Instant::now();
        while !waker.woken.swap(false, Ordering::SeqCst) && wait_start.elapsed() < Duration::from_millis(200) {
            thread::sleep(Duration::from_millis(1));
        }
    }

    // Wait for B and check that nothing overlapped
    scheduler.sync(&queue, || { });

    if !b_ran.load(Ordering::SeqCst) {
        return Err(format!("iteration {}: B never ran", iteration));
    }

    let overlaps = overlaps.load(Ordering::SeqCst);
    if overlaps != 0 {
        return Err(format!("iteration {}: {} operation(s) started on the queue while another operation was still in progress", iteration, overlaps));
    }

    Ok(())
}

#[test]
fn operations_do_not_overlap_when_polled_future_yields() {
    let mut failures = vec![];

    for iteration in 0..5 {
        if let Err(failure) = run_once(iteration) {
            failures.push(failure);
        }
    }

    assert!(failures.is_empty(), "C01 violated: {:?}", failures);
}
