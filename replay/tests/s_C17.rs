//
// C17 demonstration: the pool never exceeds its configured maximum
//
// In each scenario several caller threads schedule work on distinct queues of a private scheduler at the same
// instant (released by a barrier) at a moment when the pool has room for exactly a known number of extra
// threads, so the callers all race to be the one that spawns them. Afterwards the number of pool threads (one
// letter each in the `Debug` output of the scheduler) and the number of distinct pool threads that ran jobs
// must both be no greater than the configured maximum.
//
//  * `..._when_maximum_is_raised_while_scheduling`: the pool is empty with a maximum of 0, and the maximum
//    is raised to 1..3 at the same time as the callers schedule their work
//  * `..._when_replacing_a_panicked_thread`: the pool is full (maximum 1..3), then a job panics on a pool
//    thread so it dies, and the callers all schedule work at once, racing to replace it
//  * `..._with_default_maximum`: a new scheduler with the default maximum and no threads yet gets a burst of
//    blocking jobs from more callers than the maximum
//

extern crate desync;

use desync::scheduler::*;

use std::collections::HashSet;
use std::sync::*;
use std::sync::mpsc;
use std::sync::atomic::{AtomicUsize, Ordering};
use std::thread;
use std::time::{Duration, Instant};

/// Number of pool threads owned by a scheduler (one 'I' or 'B' per thread at the start of its debug output)
fn pool_size(scheduler: &Scheduler) -> usize {
    let debug = format!("{:?}", scheduler);
    debug.split(' ').next().unwrap_or("").chars().filter(|c| *c == 'I' || *c == 'B').count()
}

///
/// Barrier that releases all of its waiters at (very nearly) the same instant: the std barrier wakes its waiters one
/// after another as they each re-acquire its mutex, which is often enough of a stagger for the first caller to be
/// finished before the last one starts
///
struct SpinBarrier { waiting_for: usize, arrived: AtomicUsize }

impl SpinBarrier {
    fn new(waiting_for: usize) -> SpinBarrier { SpinBarrier { waiting_for, arrived: AtomicUsize::new(0) } }

    fn wait(&self) {
        let start = Instant::now();
        self.arrived.fetch_add(1, Ordering::SeqCst);

        while self.arrived.load(Ordering::SeqCst) < self.waiting_for {
            if start.elapsed() > Duration::from_millis(20) { thread::yield_now(); } else { std::hint::spin_loop(); }
        }
    }
}

/// Runs a test body on its own thread, failing if it reports a failure or doesn't finish in time
fn with_timeout<TFn: 'static+Send+FnOnce() -> Option<String>>(body: TFn) {
    let (done_send, done_recv) = mpsc::channel();

    thread::spawn(move || { done_send.send(body()).ok(); });

    match done_recv.recv_timeout(Duration::from_secs(40)) {
        Ok(None)            => { }
        Ok(Some(failure))   => panic!("{}", failure),
        Err(_)              => panic!("Timed out (or the test body panicked)")
    }
}

///
/// `callers` threads each schedule a job on their own queue at the same moment (along with `also`, which runs on its own
/// thread at the same time). Returns (largest pool size seen afterwards, number of distinct pool threads that ran a job)
///
fn racing_callers<TAlso: 'static+Send+FnOnce(&Scheduler) -> ()>(scheduler: &Arc<Scheduler>, callers: usize, also: TAlso) -> (usize, usize) {
    let barrier     = Arc::new(SpinBarrier::new(callers+1));
    let ran_on      = Arc::new(Mutex::new(HashSet::new()));
    let queues      = (0..callers).map(|_| scheduler.create_job_queue()).collect::<Vec<_>>();

    // Every caller schedules on its own queue as soon as the barrier releases
    let mut caller_threads = queues.iter().cloned().map(|queue| {
        let scheduler   = Arc::clone(scheduler);
        let barrier     = Arc::clone(&barrier);
        let ran_on      = Arc::clone(&ran_on);

        thread::spawn(move || {
            barrier.wait();
            scheduler.desync(&queue, move || {
                ran_on.lock().unwrap().insert(thread::current().id());
                thread::sleep(Duration::from_millis(1));
            });
        })
    }).collect::<Vec<_>>();

    {
        let scheduler   = Arc::clone(scheduler);
        let barrier     = Arc::clone(&barrier);
        caller_threads.push(thread::spawn(move || {
            barrier.wait();
            also(&*scheduler);
        }));
    }

    caller_threads.into_iter().for_each(|caller| caller.join().unwrap());

    // The pool is as large as it will get once every caller has returned
    let size_after_scheduling = pool_size(&scheduler);

    // Wait for the jobs to finish (a queue that no pool thread has picked up is drained by this thread)
    for queue in queues.iter() {
        scheduler.sync(queue, || { });
    }

    let size_at_end     = pool_size(&scheduler);
    let distinct_ids    = {
        let ran_on      = ran_on.lock().unwrap();
        let this_thread = thread::current().id();
        ran_on.iter().filter(|id| **id != this_thread).count()
    };

    (size_after_scheduling.max(size_at_end), distinct_ids)
}

///
/// Lowering the maximum to 0 and despawning must empty the pool and return
///
fn shut_down(scheduler: &Scheduler) -> Option<String> {
    scheduler.set_max_threads(0);
    scheduler.despawn_threads_if_overloaded();

    if pool_size(scheduler) != 0 {
        Some(format!("Pool should be empty after despawning with a maximum of 0: {:?}", scheduler))
    } else {
        None
    }
}

#[test]
fn pool_never_exceeds_maximum_when_maximum_is_raised_while_scheduling() {
    with_timeout(|| {
        let start = Instant::now();

        for round in 0..100 {
            for max_threads in 1..4 {
                // No threads at all to begin with
                let scheduler = Arc::new(Scheduler::new());
                scheduler.set_max_threads(0);
                if pool_size(&scheduler) != 0 { return Some(format!("Maximum of 0 but have pool threads: {:?}", scheduler)); }

                // With a maximum of zero, the work is carried by the callers
                let (size, distinct) = racing_callers(&scheduler, 3, |_| { });
                if size != 0 || distinct != 0 {
                    return Some(format!("round {}: maximum is 0 but the scheduler owned {} pool threads ({} distinct pool threads ran jobs)", round, size, distinct));
                }

                // Raise the maximum at the same time as scheduling some jobs
                let (size, distinct) = racing_callers(&scheduler, 5, move |scheduler| scheduler.set_max_threads(max_threads));

                if size > max_threads || distinct > max_threads {
                    return Some(format!("round {}: maximum is {} but the scheduler owned {} pool threads ({} distinct pool threads ran jobs)", round, max_threads, size, distinct));
                }

                if let Some(failure) = shut_down(&scheduler) { return Some(failure); }
            }

            if start.elapsed() > Duration::from_secs(5) { break; }
        }

        None
    });
}

#[test]
fn pool_never_exceeds_maximum_when_replacing_a_panicked_thread() {
    with_timeout(|| {
        let start = Instant::now();

        for round in 0..60 {
            for max_threads in 1..4 {
                // Pool is filled up to the maximum by set_max_threads
                let scheduler = Arc::new(Scheduler::new());
                scheduler.set_max_threads(max_threads);
                if pool_size(&scheduler) > max_threads { return Some(format!("Maximum of {} exceeded by set_max_threads: {:?}", max_threads, scheduler)); }

                // One of the pool threads dies
                let (died_send, died_recv)  = mpsc::channel();
                let doomed_queue            = scheduler.create_job_queue();
                scheduler.desync(&doomed_queue, move || {
                    struct SendOnDrop(mpsc::Sender<()>);
                    impl Drop for SendOnDrop { fn drop(&mut self) { self.0.send(()).ok(); } }

                    let _died = SendOnDrop(died_send);
                    panic!("(Expected panic: killing a pool thread)");
                });
                died_recv.recv_timeout(Duration::from_secs(5)).ok();
                thread::sleep(Duration::from_millis(5));

                // Everything that gets scheduled now wants to replace it
                let (size, distinct) = racing_callers(&scheduler, 6, |_| { });

                if size > max_threads || distinct > max_threads {
                    return Some(format!("round {}: maximum is {} but the scheduler owned {} pool threads ({} distinct pool threads ran jobs)", round, max_threads, size, distinct));
                }

                if let Some(failure) = shut_down(&scheduler) { return Some(failure); }
            }

            if start.elapsed() > Duration::from_secs(5) { break; }
        }

        None
    });
}

#[test]
fn pool_never_exceeds_maximum_with_default_maximum() {
    with_timeout(|| {
        // Schedules a job that occupies a thread until the 'release' flag is set
        fn blocking_job(scheduler: &Scheduler, queue: &Arc<JobQueue>, release: &Arc<(Mutex<bool>, Condvar)>) {
            let release = Arc::clone(release);
            scheduler.desync(queue, move || {
                let mut released = release.0.lock().unwrap();
                while !*released { released = release.1.wait(released).unwrap(); }
            });
        }

        fn release_all(scheduler: &Scheduler, queues: &Vec<Arc<JobQueue>>, release: &Arc<(Mutex<bool>, Condvar)>) {
            *release.0.lock().unwrap() = true;
            release.1.notify_all();
            queues.iter().for_each(|queue| scheduler.sync(queue, || { }));
        }

        // Discover the default maximum: from a single caller, keep scheduling jobs that block their thread until the pool stops growing
        let default_max = {
            let scheduler   = Scheduler::new();
            let release     = Arc::new((Mutex::new(false), Condvar::new()));
            let mut queues  = vec![];
            let mut stable  = 0;

            while stable < 16 && queues.len() < 4096 {
                let size_before = pool_size(&scheduler);
                let queue       = scheduler.create_job_queue();
                blocking_job(&scheduler, &queue, &release);
                queues.push(queue);

                if pool_size(&scheduler) == size_before { stable += 1; } else { stable = 0; }
            }

            let default_max = pool_size(&scheduler);
            release_all(&scheduler, &queues, &release);

            default_max
        };

        if default_max == 0 || default_max > 1024 { return Some(format!("Odd default maximum of {}", default_max)); }

        // A burst of blocking jobs from many callers at once must stop at the same size
        let start = Instant::now();

        for round in 0..15 {
            let scheduler   = Arc::new(Scheduler::new());
            let release     = Arc::new((Mutex::new(false), Condvar::new()));
            let callers     = default_max + 24;
            let barrier     = Arc::new(SpinBarrier::new(callers));
            let queues      = (0..callers).map(|_| scheduler.create_job_queue()).collect::<Vec<_>>();

            let caller_threads = queues.iter().cloned().map(|queue| {
                let scheduler   = Arc::clone(&scheduler);
                let barrier     = Arc::clone(&barrier);
                let release     = Arc::clone(&release);

                thread::spawn(move || {
                    barrier.wait();
                    blocking_job(&scheduler, &queue, &release);
                })
            }).collect::<Vec<_>>();
            caller_threads.into_iter().for_each(|caller| caller.join().unwrap());

            let size = pool_size(&scheduler);
            release_all(&scheduler, &queues, &release);

            if size > default_max {
                return Some(format!("round {}: default maximum is {} but the scheduler owned {} pool threads", round, default_max, size));
            }

            // (Not calling set_max_threads() here: it spins until it finds every thread in the pool busy at once, which takes a long time with this many idle threads)
            if start.elapsed() > Duration::from_secs(5) { break; }
        }

        None
    });
}
