//
// Demonstration for C08: a `future_sync` future that is dropped while it is still waiting for its slot must
// release the queue, so that later operations run as long as the pool has a thread.
//
// Scenario (for pool sizes 1..=3):
//
//  * every pool thread is busy when the queue `q` receives its jobs, so `q` sits in the schedule unclaimed
//  * `q` holds: job0 (a plain closure), a future_desync job that yields once (wakes itself and returns
//    Pending, like `yield_now()`), and finally the signal job of a `future_sync`
//  * the future_sync future is polled once by hand: no thread has claimed `q`, so the poll drains `q` on the
//    polling thread. While it is inside job0 the pool threads are released and go dormant (they find `q`
//    running and discard its schedule entry)
//  * the drain then reaches the yielding job, which is pending after waking itself, so the poll returns
//    Pending with the future still waiting for its slot
//  * the future is dropped instead of being polled again (as a `select!`/timeout would do)
//
// The idle pool thread must pick `q` up again: a later `sync` on `q` has to return.
//

use desync::scheduler::*;

use futures::prelude::*;
use futures::task;
use futures::task::{ArcWake, Poll};

use std::pin::Pin;
use std::sync::*;
use std::sync::atomic::{AtomicBool, AtomicUsize, Ordering};
use std::sync::mpsc;
use std::thread;
use std::time::{Duration, Instant};

/// Waker that just counts the times it has been woken
struct CountWaker(AtomicUsize);

impl ArcWake for CountWaker {
    fn wake_by_ref(arc_self: &Arc<Self>) {
        arc_self.0.fetch_add(1, Ordering::SeqCst);
    }
}

/// Future that yields to its executor once before completing
struct YieldOnce(bool);

impl Future for YieldOnce {
    type Output = ();

    fn poll(mut self: Pin<&mut Self>, context: &mut task::Context) -> Poll<()> {
        if self.0 {
            Poll::Ready(())
        } else {
            self.0 = true;
            context.waker().wake_by_ref();
            Poll::Pending
        }
    }
}

fn wait_until<F: Fn() -> bool>(what: &str, check: F) {
    let start = Instant::now();
    while !check() {
        if start.elapsed() > Duration::from_secs(10) {
            panic!("Timed out waiting for: {}", what);
        }
        thread::sleep(Duration::from_millis(2));
    }
}

fn drop_while_waiting_behind_a_yielding_job(pool_size: usize) {
    let scheduler = Arc::new(Scheduler::new());
    scheduler.set_max_threads(pool_size);

    // Occupy every thread in the pool
    let (blocker_started_tx, blocker_started_rx)    = mpsc::channel::<()>();
    let mut blocker_gates                           = vec![];
    let mut blocker_queues                          = vec![];

    for _ in 0..pool_size {
        let (gate_tx, gate_rx)  = mpsc::channel::<()>();
        let started             = blocker_started_tx.clone();
        let blocker_queue       = scheduler.create_job_queue();

        scheduler.desync(&blocker_queue, move || {
            started.send(()).ok();
            gate_rx.recv().ok();
        });

        blocker_gates.push(gate_tx);
        blocker_queues.push(blocker_queue);
    }

    for _ in 0..pool_size {
        blocker_started_rx.recv_timeout(Duration::from_secs(10)).expect("Blocker jobs should start");
    }

    // Fill the queue we're testing: it can't be claimed by a pool thread as they're all busy
    let q                               = scheduler.create_job_queue();
    let (job0_started_tx, job0_started_rx)  = mpsc::channel::<()>();
    let (job0_gate_tx, job0_gate_rx)        = mpsc::channel::<()>();
    let yield_job_done                  = Arc::new(AtomicBool::new(false));

    scheduler.desync(&q, move || {
        job0_started_tx.send(()).ok();
        job0_gate_rx.recv().ok();
    });

    let yield_done = Arc::clone(&yield_job_done);
    scheduler.future_desync(&q, move || async move {
        YieldOnce(false).await;
        yield_done.store(true, Ordering::SeqCst);
    }).detach();

    // Poll the future_sync once on another thread, then drop it
    let (polled_tx, polled_rx)  = mpsc::channel::<(bool, usize)>();
    let poll_scheduler          = Arc::clone(&scheduler);
    let poll_queue              = Arc::clone(&q);

    thread::spawn(move || {
        let future = poll_scheduler.future_sync(&poll_queue, move || async move {
            future::pending::<()>().await;
        });
        let mut future = Box::pin(future);

        let count_waker     = Arc::new(CountWaker(AtomicUsize::new(0)));
        let waker           = task::waker(Arc::clone(&count_waker));
        let mut context     = task::Context::from_waker(&waker);

        let is_pending      = future.as_mut().poll(&mut context).is_pending();

        // Drop instead of polling again
        drop(future);

        polled_tx.send((is_pending, count_waker.0.load(Ordering::SeqCst))).ok();
    });

    // The poll drains the queue on its own thread, so job0 starts even though the pool is busy
    job0_started_rx.recv_timeout(Duration::from_secs(10)).expect("Polling the future should drain the queue");

    // Release the pool and wait for its threads to go dormant
    blocker_gates.iter().for_each(|gate| { gate.send(()).ok(); });

    let idle_state = format!("{} Pending queue count: 0", "I".repeat(pool_size));
    wait_until("the pool to go idle", || format!("{:?}", scheduler) == idle_state);

    // Let the poll carry on to the yielding job
    job0_gate_tx.send(()).ok();

    let (is_pending, _wake_count) = polled_rx.recv_timeout(Duration::from_secs(10)).expect("Poll should return");
    assert!(is_pending, "The future can't complete: its operation never finishes");

    // The future is gone, the pool has idle threads: a later operation must still run
    let (sync_tx, sync_rx)  = mpsc::channel::<i32>();
    let sync_scheduler      = Arc::clone(&scheduler);
    let sync_queue          = Arc::clone(&q);

    thread::spawn(move || {
        let result = sync_scheduler.sync(&sync_queue, || 42);
        sync_tx.send(result).ok();
    });

    match sync_rx.recv_timeout(Duration::from_secs(3)) {
        Ok(val) => {
            assert!(val == 42);
            assert!(yield_job_done.load(Ordering::SeqCst), "Jobs ahead of the dropped future should have completed first");
        }

        Err(_)  => {
            panic!("Queue was not released after the future_sync future was dropped (pool size {}): {:?} / {:?}", pool_size, q, scheduler);
        }
    }
}

#[test]
fn dropped_future_sync_releases_queue_pool_1() {
    drop_while_waiting_behind_a_yielding_job(1);
}

#[test]
fn dropped_future_sync_releases_queue_pool_2() {
    drop_while_waiting_behind_a_yielding_job(2);
}

#[test]
fn dropped_future_sync_releases_queue_pool_3() {
    drop_while_waiting_behind_a_yielding_job(3);
}
