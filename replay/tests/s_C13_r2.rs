//
// C13 demonstration: a suspended queue must hold later work until it is resumed.
//
// Both tests get a queue into the suspended state (the future returned by `suspend()` has resolved and we hold
// the `QueueResumer`), schedule a 'held' job behind the suspension, and then show that a `try_sync()` call must
// never run its closure before the held job has run.
//
//  * `try_sync_does_not_run_on_suspended_queue_after_spurious_wake` is deterministic. It uses a waker that was
//    handed out to an earlier (long finished) asynchronous job on the same queue: wakers may be invoked at any
//    time, and invoking this one while the queue is suspended is only a spurious wake-up. The suspension must
//    survive it.
//
//  * `try_sync_does_not_overtake_held_jobs_when_resuming` is a stress test: one thread resumes the queue while
//    another thread hammers `try_sync()`.
//

use desync::scheduler::*;

use futures::executor;
use futures::prelude::*;
use futures::task::{Context, Poll, Waker};

use std::pin::Pin;
use std::sync::atomic::{AtomicBool, Ordering};
use std::sync::mpsc;
use std::sync::*;
use std::thread;
use std::time::{Duration, Instant};

///
/// Runs a test on another thread, failing if it takes too long
///
fn with_timeout<TFn: 'static + Send + FnOnce() -> ()>(action: TFn, millis: u64) {
    let (tx, rx) = mpsc::channel();

    thread::Builder::new()
        .name("seed_demo_test".to_string())
        .spawn(move || {
            action();
            tx.send(()).ok();
        })
        .unwrap();

    match rx.recv_timeout(Duration::from_millis(millis)) {
        Ok(())                                      => {}
        Err(mpsc::RecvTimeoutError::Timeout)        => panic!("Timed out"),
        Err(mpsc::RecvTimeoutError::Disconnected)   => panic!("Test thread panicked"),
    }
}

///
/// State shared between a `WaitForFlag` future and the thing that completes it
///
struct FlagState {
    done:   bool,
    wakers: Vec<Waker>,
}

///
/// Future that is pending until a flag is set. It remembers every waker it was ever polled with.
///
struct WaitForFlag(Arc<Mutex<FlagState>>);

impl Future for WaitForFlag {
    type Output = ();

    fn poll(self: Pin<&mut Self>, context: &mut Context) -> Poll<()> {
        let mut state = self.0.lock().unwrap();

        if state.done {
            Poll::Ready(())
        } else {
            state.wakers.push(context.waker().clone());
            Poll::Pending
        }
    }
}

fn suspended_queue_ignores_spurious_wake(pool_threads: usize) {
    let scheduler   = Arc::new(Scheduler::new());
    scheduler.set_max_threads(0);
    scheduler.despawn_threads_if_overloaded();

    let queue       = scheduler.create_job_queue();
    let log         = Arc::new(Mutex::new(Vec::<&'static str>::new()));

    // === Step 1: an ordinary asynchronous job runs on the queue and finishes
    //
    // As there are no pool threads yet, the `sync()` call runs the queue on this thread, so the job gets polled
    // with a waker belonging to this thread. A helper thread completes the job.
    let flag        = Arc::new(Mutex::new(FlagState { done: false, wakers: vec![] }));

    let job_flag    = Arc::clone(&flag);
    scheduler.future_desync(&queue, move || WaitForFlag(job_flag)).detach();

    let helper_flag = Arc::clone(&flag);
    let helper      = thread::spawn(move || {
        loop {
            thread::sleep(Duration::from_millis(5));

            let waker = {
                let mut state = helper_flag.lock().unwrap();
                if state.wakers.len() == 0 { continue; }

                state.done = true;
                state.wakers[0].clone()
            };

            waker.wake();
            break;
        }
    });

    scheduler.sync(&queue, || {});
    helper.join().unwrap();

    // The job is finished, but the waker it was given still exists (this is quite normal: eg, a channel or a timer might hang on to it)
    let old_waker   = flag.lock().unwrap().wakers[0].clone();

    // The rest of the test can have some pool threads
    scheduler.set_max_threads(pool_threads);

    // === Step 2: suspend the queue, and queue up a job behind the suspension
    let resumer     = executor::block_on(scheduler.suspend(&queue)).expect("Queue should suspend");

    let held_log    = Arc::clone(&log);
    scheduler.desync(&queue, move || { held_log.lock().unwrap().push("held"); });

    // === Step 3: a spurious wake-up from the old waker
    old_waker.wake_by_ref();
    thread::sleep(Duration::from_millis(20));

    assert!(log.lock().unwrap().len() == 0, "Held job ran while the queue was suspended ({:?})", queue);

    // === Step 4: try_sync must not run anything while the queue is suspended
    let try_log     = Arc::clone(&log);
    let try_result  = scheduler.try_sync(&queue, move || { try_log.lock().unwrap().push("try_sync"); });
    let log_so_far  = log.lock().unwrap().clone();

    assert!(log_so_far.len() == 0, "Ran {:?} while the queue was suspended and the resumer was still held (try_sync returned {:?}, {:?})", log_so_far, try_result.is_ok(), queue);
    assert!(try_result.is_err(), "try_sync succeeded on a suspended queue");

    thread::sleep(Duration::from_millis(20));
    assert!(log.lock().unwrap().len() == 0, "Held job ran while the queue was suspended ({:?})", queue);

    // === Step 5: resume. The held job runs, then a sync() that was made later
    resumer.resume();

    let sync_log    = Arc::clone(&log);
    scheduler.sync(&queue, move || { sync_log.lock().unwrap().push("sync"); });

    assert!(*log.lock().unwrap() == vec!["held", "sync"], "Unexpected order after resuming: {:?}", log.lock().unwrap());
}

#[test]
fn try_sync_does_not_run_on_suspended_queue_after_spurious_wake() {
    for pool_threads in 0..4 {
        with_timeout(move || suspended_queue_ignores_spurious_wake(pool_threads), 5000);
    }
}

#[test]
fn try_sync_does_not_overtake_held_jobs_when_resuming() {
    with_timeout(|| {
        let scheduler   = Arc::new(Scheduler::new());
        scheduler.set_max_threads(2);

        let start       = Instant::now();
        let mut iter    = 0u32;

        while iter < 4000 && start.elapsed() < Duration::from_secs(12) {
            iter += 1;

            let queue       = scheduler.create_job_queue();
            let held_ran    = Arc::new(AtomicBool::new(false));
            let resumed     = Arc::new(AtomicBool::new(false));

            // Suspend the queue and put a job behind the suspension
            let resumer     = executor::block_on(scheduler.suspend(&queue)).expect("Queue should suspend");

            let job_ran     = Arc::clone(&held_ran);
            scheduler.desync(&queue, move || { job_ran.store(true, Ordering::SeqCst); });

            // Another thread calls try_sync until it succeeds
            let try_scheduler   = Arc::clone(&scheduler);
            let try_queue       = Arc::clone(&queue);
            let try_held_ran    = Arc::clone(&held_ran);
            let try_resumed     = Arc::clone(&resumed);
            let try_thread      = thread::spawn(move || {
                loop {
                    let result = try_scheduler.try_sync(&try_queue, || (try_resumed.load(Ordering::SeqCst), try_held_ran.load(Ordering::SeqCst)));

                    if let Ok(result) = result {
                        return result;
                    }
                }
            });

            // Resume after a short while
            for _ in 0..(iter % 50) { thread::yield_now(); }
            resumed.store(true, Ordering::SeqCst);
            resumer.resume();

            let (was_resumed, held_had_run) = try_thread.join().unwrap();

            assert!(was_resumed, "Iteration {}: try_sync ran before the queue was resumed", iter);
            assert!(held_had_run, "Iteration {}: try_sync ran before the job that was being held by the suspension", iter);

            // Queue should finish normally
            scheduler.sync(&queue, || {});
            assert!(held_ran.load(Ordering::SeqCst));
        }
    }, 25000);
}
