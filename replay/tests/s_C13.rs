//
// Demonstration for C13: "a suspended queue holds later work until resumed, then continues in order;
// sync calls made during the suspension wait rather than overtake, and complete after resumption".
//
// Both tests arrange for the suspend request to be resolved by a *local drain* (the thread polling the future
// returned by `suspend()` runs the queue itself because no pool thread is free), and for there to be no free
// pool thread at the moment the queue is resumed either. In that situation the only thing that can carry the
// queue on after `resume()` is a thread that is blocked in `sync()` on the queue: it has to be able to claim
// the resumed queue and run the held work in order.
//

use desync::scheduler::*;

use futures::executor;

use std::sync::*;
use std::sync::mpsc;
use std::thread;
use std::time::Duration;

/// How long we give the held work to complete once the queue has been resumed
const RESUME_TIMEOUT: Duration = Duration::from_secs(3);

///
/// Pool size 0: the suspend future is drained on the calling thread, a `sync` is made from another thread while the
/// queue is suspended, then the queue is resumed.
///
#[test]
fn sync_during_suspension_completes_after_resume_with_no_pool_threads() {
    for _iter in 0..5 {
        let scheduler = Arc::new(Scheduler::new());
        scheduler.set_max_threads(0);
        scheduler.despawn_threads_if_overloaded();

        let queue   = scheduler.create_job_queue();
        let log     = Arc::new(Mutex::new(vec![]));

        // Something scheduled before the suspend request
        let log2 = Arc::clone(&log);
        scheduler.desync(&queue, move || { log2.lock().unwrap().push("before"); });

        // Suspend: with no pool threads, polling the future drains the queue on this thread
        let suspended   = scheduler.suspend(&queue);
        let resumer     = executor::block_on(suspended).unwrap();

        // Everything scheduled before the suspension is complete at this point
        assert_eq!(*log.lock().unwrap(), vec!["before"]);

        // Work scheduled during the suspension: a desync followed by a sync from another thread
        let log2 = Arc::clone(&log);
        scheduler.desync(&queue, move || { log2.lock().unwrap().push("held desync"); });

        let (done_send, done_recv)  = mpsc::channel();
        let sync_scheduler          = Arc::clone(&scheduler);
        let sync_queue              = Arc::clone(&queue);
        let log2                    = Arc::clone(&log);
        thread::spawn(move || {
            let result = sync_scheduler.sync(&sync_queue, move || { log2.lock().unwrap().push("held sync"); 42 });
            done_send.send(result).ok();
        });

        // Nothing overtakes the suspension
        thread::sleep(Duration::from_millis(100));
        assert_eq!(*log.lock().unwrap(), vec!["before"], "Work scheduled during the suspension ran before the queue was resumed");
        assert!(done_recv.try_recv().is_err(), "sync() returned while the queue was suspended");

        // Resume: the held operations should now run, in order, and the sync call should return
        resumer.resume();

        let sync_result = done_recv.recv_timeout(RESUME_TIMEOUT);
        assert!(sync_result == Ok(42), "sync() made during the suspension did not complete after the queue was resumed ({:?}, {:?}, log: {:?})", sync_result, queue, log.lock().unwrap());
        assert_eq!(*log.lock().unwrap(), vec!["before", "held desync", "held sync"]);
    }
}

///
/// Pool size 1, with the single pool thread being the one that calls `sync` on the suspended queue (so it's
/// not available to run the queue when it's resumed). The resumer is dropped rather than used here.
///
#[test]
fn sync_from_only_pool_thread_completes_after_resumer_dropped() {
    for _iter in 0..5 {
        let scheduler = Arc::new(Scheduler::new());
        scheduler.set_max_threads(1);
        scheduler.despawn_threads_if_overloaded();

        let queue       = scheduler.create_job_queue();
        let other_queue = scheduler.create_job_queue();
        let log         = Arc::new(Mutex::new(vec![]));

        // Occupy the only pool thread with a job on another queue. Once told to, it makes a sync call on the suspended queue
        let (running_send, running_recv)    = mpsc::channel();
        let (go_send, go_recv)              = mpsc::channel::<()>();
        let (done_send, done_recv)          = mpsc::channel();
        let sync_scheduler                  = Arc::clone(&scheduler);
        let sync_queue                      = Arc::clone(&queue);
        let log2                            = Arc::clone(&log);
        scheduler.desync(&other_queue, move || {
            running_send.send(()).ok();
            go_recv.recv().ok();

            let result = sync_scheduler.sync(&sync_queue, move || { log2.lock().unwrap().push("held sync"); 42 });
            done_send.send(result).ok();
        });
        running_recv.recv_timeout(RESUME_TIMEOUT).expect("Pool thread started");

        // Something scheduled before the suspend request, then the suspend request (drained here as the pool is busy)
        let log2 = Arc::clone(&log);
        scheduler.desync(&queue, move || { log2.lock().unwrap().push("before"); });

        let suspended   = scheduler.suspend(&queue);
        let resumer     = executor::block_on(suspended).unwrap();
        assert_eq!(*log.lock().unwrap(), vec!["before"]);

        // Work scheduled during the suspension
        let log2 = Arc::clone(&log);
        scheduler.desync(&queue, move || { log2.lock().unwrap().push("held desync"); });
        go_send.send(()).unwrap();

        // Nothing overtakes the suspension
        thread::sleep(Duration::from_millis(100));
        assert_eq!(*log.lock().unwrap(), vec!["before"], "Work scheduled during the suspension ran before the queue was resumed");
        assert!(done_recv.try_recv().is_err(), "sync() returned while the queue was suspended");

        // Dropping the resumer resumes the queue
        drop(resumer);

        let sync_result = done_recv.recv_timeout(RESUME_TIMEOUT);
        assert!(sync_result == Ok(42), "sync() made during the suspension did not complete after the queue was resumed ({:?}, {:?}, log: {:?})", sync_result, queue, log.lock().unwrap());
        assert_eq!(*log.lock().unwrap(), vec!["before", "held desync", "held sync"]);
    }
}
