extern crate desync;

use desync::scheduler::*;

use std::panic::{catch_unwind, AssertUnwindSafe};
use std::sync::*;
use std::sync::atomic::{AtomicBool, Ordering};
use std::sync::mpsc;
use std::thread;
use std::time::Duration;

///
/// A queue that panicked while it was being drained by a `sync()` caller must stay panicked, even if it
/// was still waiting in the schedule for a pool thread at the time
///
fn panicked_queue_stays_panicked_scenario() -> Result<(), String> {
    // Private scheduler with a single pool thread
    let scheduler = Arc::new(Scheduler::new());
    scheduler.set_max_threads(1);

    let blocker_queue   = scheduler.create_job_queue();
    let victim_queue    = scheduler.create_job_queue();
    let healthy_queue   = scheduler.create_job_queue();

    // Occupy the only pool thread
    let (blocker_started_tx, blocker_started_rx)    = mpsc::channel();
    let (release_blocker_tx, release_blocker_rx)    = mpsc::channel::<()>();
    scheduler.desync(&blocker_queue, move || {
        blocker_started_tx.send(()).ok();
        release_blocker_rx.recv_timeout(Duration::from_secs(10)).ok();
    });
    blocker_started_rx.recv_timeout(Duration::from_secs(2)).map_err(|_| "blocker never started".to_string())?;

    // Schedule a job on the victim: it can't start as the pool is busy, so the queue waits in the schedule
    let first_job_ran   = Arc::new(AtomicBool::new(false));
    let first_job_ran2  = Arc::clone(&first_job_ran);
    scheduler.desync(&victim_queue, move || { first_job_ran2.store(true, Ordering::SeqCst); });

    // A sync caller drains the victim on its own thread, and its operation panics
    let sync_scheduler  = Arc::clone(&scheduler);
    let sync_queue      = Arc::clone(&victim_queue);
    let sync_caller     = thread::spawn(move || {
        sync_scheduler.sync(&sync_queue, || { panic!("Operation on the victim panics"); });
    });
    if sync_caller.join().is_ok() {
        return Err("sync caller should have panicked".to_string());
    }
    if !first_job_ran.load(Ordering::SeqCst) {
        return Err("the pending job should have been drained by the sync caller".to_string());
    }

    // The unwinding thread is finished. Let the pool thread go, then wait for it to work through the schedule
    // (the healthy queue is scheduled after the victim, so once its job has run the victim's entry has been dealt with)
    release_blocker_tx.send(()).ok();

    let (healthy_tx, healthy_rx) = mpsc::channel();
    scheduler.desync(&healthy_queue, move || { healthy_tx.send(()).ok(); });
    healthy_rx.recv_timeout(Duration::from_secs(2)).map_err(|_| "healthy queue did not run".to_string())?;
    scheduler.sync(&healthy_queue, || { });

    // Any scheduling attempt on the panicked queue must fail loudly and must not run
    let late_job_ran    = Arc::new(AtomicBool::new(false));

    let late_job_ran2   = Arc::clone(&late_job_ran);
    let desync_result   = catch_unwind(AssertUnwindSafe(|| {
        scheduler.desync(&victim_queue, move || { late_job_ran2.store(true, Ordering::SeqCst); });
    }));

    let late_job_ran3   = Arc::clone(&late_job_ran);
    let sync_result     = catch_unwind(AssertUnwindSafe(|| {
        scheduler.sync(&victim_queue, move || { late_job_ran3.store(true, Ordering::SeqCst); });
    }));

    // Give anything that was wrongly scheduled a chance to run
    scheduler.sync(&healthy_queue, || { });
    thread::sleep(Duration::from_millis(50));

    if desync_result.is_ok() {
        return Err("desync() on a panicked queue did not panic".to_string());
    }
    if sync_result.is_ok() {
        return Err("sync() on a panicked queue did not panic".to_string());
    }
    if late_job_ran.load(Ordering::SeqCst) {
        return Err("a job scheduled on a panicked queue was run".to_string());
    }

    Ok(())
}

#[test]
fn panicked_queue_stays_panicked_when_left_in_schedule() {
    // Run the scenario on its own thread with a watchdog so a hang is reported as a failure
    let (done_tx, done_rx) = mpsc::channel();

    thread::spawn(move || {
        let result = catch_unwind(|| panicked_queue_stays_panicked_scenario())
            .unwrap_or_else(|_| Err("scenario panicked unexpectedly".to_string()));
        done_tx.send(result).ok();
    });

    match done_rx.recv_timeout(Duration::from_secs(5)) {
        Ok(Ok(()))      => { }
        Ok(Err(msg))    => panic!("{}", msg),
        Err(_)          => panic!("Timed out waiting for the scenario to finish")
    }
}
