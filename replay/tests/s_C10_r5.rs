//
// Demonstration for property C10 ("different Desync objects make progress independently").
//
// One queue is blocked on an external gate for the whole test (k = 1) and the pool maximum is 2, so the pool
// always has a second thread that is (or becomes) free. A job scheduled on an unrelated queue must therefore run.
//
// The state needed: the schedule contains a stale entry (a queue that was scheduled while every thread was occupied
// and then drained by a `sync()` call on the caller's own thread) in front of a queue that is genuinely waiting, at
// the moment a pool thread finishes what it is doing and looks for its next queue.
//

use desync::scheduler::*;

use std::sync::mpsc;
use std::time::Duration;

const TIMEOUT: Duration = Duration::from_secs(3);

fn run_round(round: usize) {
    let scheduler   = Scheduler::new();
    scheduler.set_max_threads(2);

    let blocked     = scheduler.create_job_queue();
    let busy        = scheduler.create_job_queue();
    let synced      = scheduler.create_job_queue();
    let other       = scheduler.create_job_queue();

    // k = 1: one queue is blocked on an external gate, for as long as the test runs
    let (open_gate, gate)                   = mpsc::channel::<()>();
    let (blocked_started, blocked_running)  = mpsc::channel::<()>();
    scheduler.desync(&blocked, move || {
        blocked_started.send(()).ok();
        gate.recv().ok();
    });
    blocked_running.recv_timeout(TIMEOUT).expect("blocked job should start");

    // The second pool thread is occupied for a short while by a job that finishes normally
    let (finish_busy, busy_gate)            = mpsc::channel::<()>();
    let (busy_started, busy_running)        = mpsc::channel::<()>();
    scheduler.desync(&busy, move || {
        busy_started.send(()).ok();
        busy_gate.recv().ok();
    });
    busy_running.recv_timeout(TIMEOUT).expect("busy job should start");

    // Both threads are occupied, so this queue waits in the schedule... until sync() drains it on this thread instead
    let (synced_ran, synced_done)           = mpsc::channel::<()>();
    scheduler.desync(&synced, move || { synced_ran.send(()).ok(); });
    let sync_result = scheduler.sync(&synced, || 42);
    assert!(sync_result == 42);
    synced_done.recv_timeout(TIMEOUT).expect("sync() should drain the queue on the calling thread");

    // An unrelated queue is scheduled while both threads are still occupied
    let (other_ran, other_done)             = mpsc::channel::<usize>();
    scheduler.desync(&other, move || { other_ran.send(round).ok(); });

    // The second thread now becomes free: it must pick up the unrelated queue, even though 'blocked' is still blocked
    finish_busy.send(()).ok();

    let result = other_done.recv_timeout(TIMEOUT);

    // Release the blocked thread before reporting
    open_gate.send(()).ok();

    assert!(result == Ok(round), "round {}: job on an unrelated queue never ran although a pool thread was free ({:?})\nqueue: {:?}", round, result, other);
}

#[test]
fn unrelated_queue_runs_while_another_is_blocked() {
    for round in 0..3 {
        run_round(round);
    }
}
