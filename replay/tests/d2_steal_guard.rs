//! Replay of finding D2: a job that panics while being run by a `sync` waiter that stole the queue
//! (sync_background steal branch) must leave the queue Panicked, so later scheduling fails loudly.
use desync::scheduler::*;
use futures::channel::oneshot;
use futures::future::Future;
use futures::task::{noop_waker, Context};
use std::pin::Pin;
use std::sync::*;
use std::thread;
use std::time::Duration;

#[test]
fn panic_in_stolen_queue_marks_it_panicked() {
    let sched = Arc::new(Scheduler::new());
    sched.set_max_threads(0);
    sched.despawn_threads_if_overloaded();
    let queue = sched.create_job_queue();

    // 1. a future job that stays pending until we say so; poll it once so the queue parks in WaitingForPoll
    let (tx, rx) = oneshot::channel::<()>();
    let mut sf = sched.future_desync(&queue, move || async move { rx.await.ok(); });
    let waker = noop_waker();
    let mut cx = Context::from_waker(&waker);
    assert!(Pin::new(&mut sf).poll(&mut cx).is_pending());

    // 2. a job that panics, queued behind it
    sched.desync(&queue, || panic!("boom (expected by the replay)"));

    // 3. a second thread syncs: the queue is busy, so it queues its job and waits
    let t2 = { let sched = sched.clone(); let queue = queue.clone(); thread::spawn(move || { sched.sync(&queue, || ()); }) };
    for _ in 0..200 { if format!("{:?}", queue).contains("Pending: 3") { break; } thread::sleep(Duration::from_millis(5)); }
    let before = format!("{:?}", queue);

    // 4. complete the future and finish polling it on this thread: the queue becomes free with jobs queued,
    //    the waiter is notified, claims the queue and runs the panicking job on its own thread
    tx.send(()).ok();
    for _ in 0..50 { if Pin::new(&mut sf).poll(&mut cx).is_ready() { break; } thread::sleep(Duration::from_millis(5)); }
    let joined = t2.join();
    let after = format!("{:?}", queue);
    println!("REPLAY before={} waiter_panicked={} after={}", before, joined.is_err(), after);

    assert!(joined.is_err(), "the waiter should have run the panicking job itself (steal branch); before={} after={}", before, after);
    // C15: after the unwinding has finished, the panicked object must refuse new work loudly
    assert!(after.contains("Panicked"), "queue not marked Panicked after a job panicked in the steal branch: {}", after);
    let s2 = sched.clone(); let q2 = queue.clone();
    let later = thread::spawn(move || { s2.desync(&q2, || ()); }).join();
    assert!(later.is_err(), "scheduling on the panicked queue was silently accepted");
}
