//
// C08 demonstration: dropping a `future_sync` future in the middle of its operation must destroy the operation's
// future *before* any later operation on the same queue begins (the operation owns the queue's exclusive slot until
// it has been fully torn down - `Desync::future_sync` hands it a `&mut T` on the strength of that).
//
// The operation futures used here never complete, and have a destructor that takes a little while to run (as a
// destructor that flushes or tidies up the borrowed data would). Each test drops the future mid-operation with a
// later operation already queued behind it, then checks that the later operation did not start until the operation's
// future had been completely destroyed.
//

use desync::Desync;
use desync::scheduler::*;

use futures::prelude::*;
use futures::task;
use futures::task::{ArcWake, Poll, Context};

use std::pin::Pin;
use std::sync::*;
use std::sync::atomic::{AtomicBool, Ordering};
use std::sync::mpsc;
use std::thread;
use std::time::{Duration, Instant};

/// How long the operation's destructor takes
const TEARDOWN: Duration = Duration::from_millis(40);

/// Waker that does nothing (the tests poll by hand)
struct NoopWaker;

impl ArcWake for NoopWaker {
    fn wake_by_ref(_arc_self: &Arc<Self>) { }
}

/// Runs a test body on its own thread, failing if it does not finish in time
fn with_timeout<TFn: 'static+Send+FnOnce() -> ()>(millis: u64, body: TFn) {
    let (done_tx, done_rx) = mpsc::channel();

    let runner = thread::spawn(move || {
        body();
        done_tx.send(()).ok();
    });

    match done_rx.recv_timeout(Duration::from_millis(millis)) {
        Ok(())                                      => { runner.join().unwrap(); }
        Err(mpsc::RecvTimeoutError::Disconnected)   => { runner.join().unwrap(); panic!("Test body finished without signalling"); }
        Err(mpsc::RecvTimeoutError::Timeout)        => { panic!("Timed out: the queue was not released after the future was dropped"); }
    }
}

/// Polls a future by hand until `is_started` reports that the operation is under way
fn poll_until_started<TFuture: Unpin+Future>(future: &mut TFuture, is_started: impl Fn() -> bool) {
    let waker       = Arc::new(NoopWaker);
    let waker_ref   = task::waker_ref(&waker);
    let mut context = Context::from_waker(&waker_ref);
    let start       = Instant::now();

    while !is_started() {
        assert!(start.elapsed() < Duration::from_secs(5), "Operation never started");

        if let Poll::Ready(_) = future.poll_unpin(&mut context) {
            panic!("Operation should never complete");
        }

        thread::sleep(Duration::from_millis(1));
    }
}

///
/// An operation that records when it starts, never completes, and takes a while to destroy
///
struct SlowTeardownOperation {
    events: Arc<Mutex<Vec<&'static str>>>
}

impl Future for SlowTeardownOperation {
    type Output = ();

    fn poll(self: Pin<&mut Self>, _context: &mut Context) -> Poll<()> {
        let mut events = self.events.lock().unwrap();
        if events.is_empty() { events.push("operation started"); }

        Poll::Pending
    }
}

impl Drop for SlowTeardownOperation {
    fn drop(&mut self) {
        // Still inside the operation's slot: tidy up, which takes some time
        thread::sleep(TEARDOWN);
        self.events.lock().unwrap().push("operation destroyed");
    }
}

fn drop_mid_operation_with_pool_size(pool_size: usize) {
    with_timeout(10000, move || {
        for _ in 0..3 {
            // Private scheduler with a fixed pool size
            let scheduler   = Scheduler::new();
            scheduler.set_max_threads(pool_size);
            scheduler.despawn_threads_if_overloaded();

            let queue       = scheduler.create_job_queue();
            let events      = Arc::new(Mutex::new(vec![]));

            // The operation, with a later operation queued up behind it
            let op_events   = Arc::clone(&events);
            let mut future  = Box::pin(scheduler.future_sync(&queue, move || SlowTeardownOperation { events: op_events }));

            let later_events = Arc::clone(&events);
            scheduler.desync(&queue, move || { later_events.lock().unwrap().push("later operation"); });

            // Get the operation under way, then cancel it part-way through by dropping the future
            poll_until_started(&mut future, || !events.lock().unwrap().is_empty());
            drop(future);

            // The queue must have been released: wait for the later operation to finish
            scheduler.sync(&queue, || { });

            let events = events.lock().unwrap().clone();
            assert!(events == vec!["operation started", "operation destroyed", "later operation"],
                "Pool size {}: later operation began before the cancelled operation's future was destroyed: {:?}", pool_size, events);
        }
    });
}

#[test]
fn drop_mid_operation_destroys_future_before_later_operation_pool_1() {
    drop_mid_operation_with_pool_size(1);
}

#[test]
fn drop_mid_operation_destroys_future_before_later_operation_pool_3() {
    drop_mid_operation_with_pool_size(3);
}

///
/// Data for the `Desync` version of the test
///
struct Borrowed {
    /// Set while the future_sync operation (or its future) still has the data borrowed
    in_use: AtomicBool,

    /// Set once the operation has been polled
    started: Arc<AtomicBool>
}

///
/// Operation on a `Desync<Borrowed>` that holds on to its exclusive borrow until it has been destroyed
///
struct BorrowingOperation<'a> {
    data: &'a mut Borrowed
}

impl<'a> Future for BorrowingOperation<'a> {
    type Output = ();

    fn poll(self: Pin<&mut Self>, _context: &mut Context) -> Poll<()> {
        self.data.in_use.store(true, Ordering::SeqCst);
        self.data.started.store(true, Ordering::SeqCst);

        Poll::Pending
    }
}

impl<'a> Drop for BorrowingOperation<'a> {
    fn drop(&mut self) {
        // We have exclusive access to the data until we're gone
        thread::sleep(TEARDOWN);
        self.data.in_use.store(false, Ordering::SeqCst);
    }
}

#[test]
fn desync_data_is_not_shared_with_a_cancelled_future_sync() {
    with_timeout(10000, || {
        for _ in 0..3 {
            let started     = Arc::new(AtomicBool::new(false));
            let desync      = Desync::new(Borrowed { in_use: AtomicBool::new(false), started: Arc::clone(&started) });

            let mut future  = Box::pin(desync.future_sync(|data| BorrowingOperation { data }.boxed()));

            // Later operation: must have exclusive access to the data when it runs
            let (overlap_tx, overlap_rx) = mpsc::channel();
            desync.desync(move |data| { overlap_tx.send(data.in_use.load(Ordering::SeqCst)).ok(); });

            // Start the operation, then cancel it part-way through
            poll_until_started(&mut future, || started.load(Ordering::SeqCst));
            drop(future);

            let overlapped = overlap_rx.recv_timeout(Duration::from_secs(5)).expect("Later operation never ran");
            assert!(!overlapped, "Later operation ran while the cancelled future_sync operation still had the data borrowed");

            desync.sync(|_| { });
        }
    });
}
