extern crate desync;
extern crate futures;

use desync::*;
use desync::scheduler::*;

use futures::prelude::*;
use futures::channel::oneshot;
use futures::task;
use futures::task::{ArcWake, Context};

use std::thread;
use std::time::Duration;
use std::sync::*;
use std::sync::atomic::{AtomicBool, AtomicUsize, Ordering};
use std::sync::mpsc;

/// Value protected by the Desync: records when (and how often) it is destroyed
struct Probe {
    touched:    usize,
    destroyed:  Arc<AtomicBool>,
    drop_count: Arc<AtomicUsize>
}

impl Drop for Probe {
    fn drop(&mut self) {
        self.destroyed.store(true, Ordering::SeqCst);
        self.drop_count.fetch_add(1, Ordering::SeqCst);
    }
}

/// Waker that does nothing (the test steers the wake-ups itself)
struct IgnoreWake;
impl ArcWake for IgnoreWake {
    fn wake_by_ref(_arc_self: &Arc<Self>) { }
}

///
/// A `future_desync` operation is polled once from the caller's thread (so the caller's thread claims the queue), is then picked
/// up by a pool thread when it is woken, and the returned future is detached while the operation is in the middle of running on
/// that pool thread. Dropping the Desync afterwards must still wait for the operation before destroying the value.
///
fn drop_after_detaching_a_polled_future() -> Result<(), String> {
    let scheduler = scheduler();

    // Start with no pool threads, so the operation stays on the queue until this thread polls the future
    scheduler.set_max_threads(0);
    scheduler.despawn_threads_if_overloaded();

    let destroyed           = Arc::new(AtomicBool::new(false));
    let drop_count          = Arc::new(AtomicUsize::new(0));
    let op_finished         = Arc::new(AtomicBool::new(false));
    let destroyed_during_op = Arc::new(AtomicBool::new(false));

    let desync = Desync::new(Probe { touched: 0, destroyed: Arc::clone(&destroyed), drop_count: Arc::clone(&drop_count) });

    let (wake_op, wait_for_wake)    = oneshot::channel::<()>();
    let (op_running, is_op_running) = mpsc::channel::<()>();
    let (release_op, wait_release)  = mpsc::channel::<()>();

    let op_finished_in_op   = Arc::clone(&op_finished);
    let destroyed_in_op     = Arc::clone(&destroyed);
    let destroyed_during    = Arc::clone(&destroyed_during_op);

    let mut op_future = desync.future_desync(move |probe: &mut Probe| {
        async move {
            // First half of the operation: suspend until the test wakes us
            probe.touched += 1;
            wait_for_wake.await.ok();

            // Second half: a long-running piece of work on the value
            probe.touched += 1;
            op_running.send(()).ok();
            wait_release.recv_timeout(Duration::from_secs(2)).ok();

            // The value must not have been destroyed under our feet
            if destroyed_in_op.load(Ordering::SeqCst) {
                destroyed_during.store(true, Ordering::SeqCst);
            }
            op_finished_in_op.store(true, Ordering::SeqCst);
        }.boxed()
    });

    // Poll once from this thread: this runs the first half of the operation here and leaves it suspended
    {
        let waker       = Arc::new(IgnoreWake);
        let waker       = task::waker_ref(&waker);
        let mut context = Context::from_waker(&waker);

        if op_future.poll_unpin(&mut context).is_ready() {
            return Err("operation finished before it was woken".to_string());
        }
    }

    // Let the pool have some threads again and wake the operation: it carries on on a pool thread
    scheduler.set_max_threads(4);
    wake_op.send(()).map_err(|_| "operation went away before it was woken".to_string())?;
    is_op_running.recv_timeout(Duration::from_secs(3)).map_err(|_| "operation never resumed".to_string())?;

    // We're not interested in the result: leave the operation to the scheduler
    op_future.detach();

    // Let the operation finish a little later
    let releaser = thread::spawn(move || {
        thread::sleep(Duration::from_millis(300));
        release_op.send(()).ok();
    });

    // Drop the last owner from this thread while the operation is still running
    drop(desync);

    let finished_before_drop_returned   = op_finished.load(Ordering::SeqCst);
    let drops_when_drop_returned        = drop_count.load(Ordering::SeqCst);

    releaser.join().ok();

    // Give the operation a chance to finish so we can see what it observed
    for _ in 0..100 {
        if op_finished.load(Ordering::SeqCst) { break; }
        thread::sleep(Duration::from_millis(20));
    }

    if !finished_before_drop_returned {
        return Err("drop returned while an operation scheduled beforehand was still running".to_string());
    }
    if destroyed_during_op.load(Ordering::SeqCst) {
        return Err("the value was destroyed while an operation was using it".to_string());
    }
    if drops_when_drop_returned != 1 || drop_count.load(Ordering::SeqCst) != 1 {
        return Err(format!("value destroyed {} times", drop_count.load(Ordering::SeqCst)));
    }

    Ok(())
}

#[test]
fn drop_waits_for_operation_whose_future_was_polled_then_detached() {
    // Run the scenario on its own thread with a watchdog, so a hang becomes a failure
    let (done, wait_done) = mpsc::channel();

    thread::Builder::new()
        .name("seed_demo scenario".to_string())
        .spawn(move || {
            let result = drop_after_detaching_a_polled_future();
            done.send(result).ok();
        })
        .unwrap();

    match wait_done.recv_timeout(Duration::from_secs(5)) {
        Ok(Ok(()))      => { }
        Ok(Err(msg))    => panic!("{}", msg),
        Err(_)          => panic!("Scenario hung or panicked")
    }
}
