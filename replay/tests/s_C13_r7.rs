extern crate desync;
extern crate futures;

use desync::scheduler::*;

use futures::executor;

use std::sync::*;
use std::sync::mpsc::*;
use std::thread;
use std::time::*;

///
/// Two threads call sync() on a queue while it is suspended, in a scheduler that has no pool threads to
/// fall back on. After the queue is resumed, both sync calls (and the desync job queued between them)
/// must complete, in the order in which they were scheduled.
///
fn two_syncs_during_suspension(pool_size: usize) -> Vec<&'static str> {
    let scheduler = Arc::new(Scheduler::new());
    scheduler.set_max_threads(pool_size);
    scheduler.despawn_threads_if_overloaded();

    // Occupy any pool threads for the duration of the scenario, so nothing in the pool can run the queue
    let (release_pool, pool_released)   = channel::<()>();
    let pool_released                   = Arc::new(Mutex::new(pool_released));
    let (pool_busy, pool_is_busy)       = channel();
    let blockers = (0..pool_size).map(|_| {
        let blocker         = scheduler.create_job_queue();
        let pool_released   = Arc::clone(&pool_released);
        let pool_busy       = pool_busy.clone();
        scheduler.desync(&blocker, move || {
            pool_busy.send(()).unwrap();
            let pool_released = pool_released.lock().unwrap();
            pool_released.recv_timeout(Duration::from_secs(8)).ok();
        });
        blocker
    }).collect::<Vec<_>>();
    for _ in 0..pool_size { pool_is_busy.recv_timeout(Duration::from_secs(2)).expect("Pool thread started"); }

    let queue   = scheduler.create_job_queue();
    let log     = Arc::new(Mutex::new(vec![]));

    // Something scheduled before the suspension
    let before_log = Arc::clone(&log);
    scheduler.desync(&queue, move || { before_log.lock().unwrap().push("before"); });

    // Suspend the queue (the pool is busy/empty, so this drains the queue on this thread)
    let resumer = executor::block_on(scheduler.suspend(&queue)).unwrap();
    assert!(*log.lock().unwrap() == vec!["before"]);

    // First sync call made during the suspension
    let (done, is_done)     = channel();
    let sync_a_scheduler    = Arc::clone(&scheduler);
    let sync_a_queue        = Arc::clone(&queue);
    let sync_a_log          = Arc::clone(&log);
    let sync_a_done         = done.clone();
    thread::spawn(move || {
        sync_a_scheduler.sync(&sync_a_queue, move || {
            sync_a_log.lock().unwrap().push("sync_a");
            thread::sleep(Duration::from_millis(50));
        });
        sync_a_done.send("sync_a").ok();
    });
    thread::sleep(Duration::from_millis(100));

    // A desync job scheduled during the suspension
    let held_log = Arc::clone(&log);
    scheduler.desync(&queue, move || { held_log.lock().unwrap().push("held"); });

    // Second sync call made during the suspension
    let sync_b_scheduler    = Arc::clone(&scheduler);
    let sync_b_queue        = Arc::clone(&queue);
    let sync_b_log          = Arc::clone(&log);
    let sync_b_done         = done.clone();
    thread::spawn(move || {
        sync_b_scheduler.sync(&sync_b_queue, move || {
            sync_b_log.lock().unwrap().push("sync_b");
        });
        sync_b_done.send("sync_b").ok();
    });
    thread::sleep(Duration::from_millis(100));

    // Nothing scheduled after the suspension has started yet
    assert!(*log.lock().unwrap() == vec!["before"]);
    assert!(is_done.try_recv().is_err());

    // Resume: both of the sync calls should now complete
    resumer.resume();

    let first   = is_done.recv_timeout(Duration::from_secs(3));
    let second  = is_done.recv_timeout(Duration::from_secs(3));

    // Let the pool go again
    for _ in 0..pool_size { release_pool.send(()).ok(); }
    mem_drop(blockers);

    let result = log.lock().unwrap().clone();
    assert!(first.is_ok() && second.is_ok(), "sync call made during the suspension never completed after the resume (completed: {:?} {:?}, ran: {:?})", first, second, result);

    result
}

fn mem_drop<T>(val: T) { std::mem::drop(val); }

///
/// Runs a scenario on its own thread with a watchdog, so a hang is reported as a failure
///
fn with_watchdog<TFn: 'static+Send+FnOnce() -> ()>(scenario: TFn) {
    let (finished, is_finished) = channel();

    thread::spawn(move || {
        struct Finished(Sender<bool>);
        impl Drop for Finished {
            fn drop(&mut self) { self.0.send(thread::panicking()).ok(); }
        }

        let _finished = Finished(finished);
        scenario();
    });

    match is_finished.recv_timeout(Duration::from_secs(15)) {
        Ok(false)   => { }
        Ok(true)    => panic!("Scenario failed"),
        Err(_)      => panic!("Scenario timed out")
    }
}

#[test]
fn syncs_during_suspension_complete_after_resume_no_pool() {
    with_watchdog(|| {
        let ran = two_syncs_during_suspension(0);
        assert!(ran == vec!["before", "sync_a", "held", "sync_b"], "Ran out of order: {:?}", ran);
    });
}

#[test]
fn syncs_during_suspension_complete_after_resume_busy_pool() {
    with_watchdog(|| {
        let ran = two_syncs_during_suspension(2);
        assert!(ran == vec!["before", "sync_a", "held", "sync_b"], "Ran out of order: {:?}", ran);
    });
}
