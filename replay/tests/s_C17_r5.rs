//
// Demonstration for C17: lowering the maximum and then calling despawn_threads_if_overloaded() must bring the pool
// down to the new maximum *and return*, whatever the pool threads happen to be doing at that moment.
//
// The pool state that matters here: a pool thread that is about to be despawned is still busy with a job, and
// that job schedules some more work on the same scheduler before it finishes.
//
use desync::scheduler::*;

use std::sync::*;
use std::sync::atomic::{AtomicBool, AtomicUsize, Ordering};
use std::sync::mpsc;
use std::thread;
use std::time::Duration;

/// Number of pool threads the scheduler currently owns (the Debug output has one 'B' or 'I' per pool thread)
fn pool_size(scheduler: &Scheduler) -> usize {
    let debug = format!("{:?}", scheduler);
    debug.split(" Pending").next().unwrap().chars().filter(|c| *c == 'B' || *c == 'I').count()
}

fn lower_maximum_while_busy_thread_schedules_more_work(initial_max: usize, new_max: usize) {
    let scheduler   = Arc::new(Scheduler::new());
    scheduler.set_max_threads(initial_max);
    scheduler.despawn_threads_if_overloaded();

    // One long-running job per pool thread. Each waits to be released and then schedules a follow-up on another queue
    let queues          = (0..initial_max).map(|_| scheduler.create_job_queue()).collect::<Vec<_>>();
    let follow_ups      = (0..initial_max).map(|_| scheduler.create_job_queue()).collect::<Vec<_>>();
    let started         = Arc::new(AtomicUsize::new(0));
    let release         = Arc::new(AtomicBool::new(false));
    let follow_up_count = Arc::new(AtomicUsize::new(0));

    for (queue, follow_up) in queues.iter().zip(follow_ups.iter()) {
        let job_scheduler   = Arc::clone(&scheduler);
        let follow_up       = Arc::clone(follow_up);
        let started         = Arc::clone(&started);
        let release         = Arc::clone(&release);
        let follow_up_count = Arc::clone(&follow_up_count);

        scheduler.desync(queue, move || {
            started.fetch_add(1, Ordering::SeqCst);
            while !release.load(Ordering::SeqCst) { thread::sleep(Duration::from_millis(5)); }

            // Give the main thread time to get into despawn_threads_if_overloaded()
            thread::sleep(Duration::from_millis(200));

            job_scheduler.desync(&follow_up, move || { follow_up_count.fetch_add(1, Ordering::SeqCst); });
        });
    }

    // Wait for all the pool threads to be busy
    for _ in 0..1000 {
        if started.load(Ordering::SeqCst) == initial_max { break; }
        thread::sleep(Duration::from_millis(5));
    }
    assert_eq!(started.load(Ordering::SeqCst), initial_max, "jobs did not start on the pool");
    assert!(pool_size(&scheduler) <= initial_max, "pool exceeded its maximum: {:?}", scheduler);

    // Lower the maximum, then despawn (on another thread so we can time out)
    scheduler.set_max_threads(new_max);
    release.store(true, Ordering::SeqCst);

    let (done_send, done_recv)  = mpsc::channel();
    let despawn_scheduler       = Arc::clone(&scheduler);
    thread::spawn(move || {
        despawn_scheduler.despawn_threads_if_overloaded();
        done_send.send(pool_size(&despawn_scheduler)).ok();
    });

    match done_recv.recv_timeout(Duration::from_secs(5)) {
        Ok(size_after)  => assert!(size_after <= new_max, "pool has {} threads after despawning to a maximum of {}", size_after, new_max),
        Err(_)          => panic!("despawn_threads_if_overloaded() did not return after the maximum was lowered from {} to {}", initial_max, new_max)
    }

    // The follow-up jobs are still carried by somebody (a remaining pool thread, or the stopping thread before it exits)
    // (a pool thread that was kept may still be part-way through its long job, so wait for those to finish first)
    for queue in queues.iter() {
        scheduler.sync(queue, || { });
    }
    for follow_up in follow_ups.iter() {
        scheduler.sync(follow_up, || { });
    }
    assert_eq!(follow_up_count.load(Ordering::SeqCst), initial_max);
    assert!(pool_size(&scheduler) <= new_max, "pool exceeded its maximum: {:?}", scheduler);
}

#[test]
fn despawn_returns_when_lowering_2_to_0() {
    lower_maximum_while_busy_thread_schedules_more_work(2, 0);
}

#[test]
fn despawn_returns_when_lowering_3_to_1() {
    lower_maximum_while_busy_thread_schedules_more_work(3, 1);
}

#[test]
fn despawn_returns_when_lowering_1_to_0() {
    lower_maximum_while_busy_thread_schedules_more_work(1, 0);
}
