//! BOUNDED stand-in (not a proof) for `SchedulerCore::remove_finished_threads` when its text is outside Verus's reach, for C17: reaping only
//! ever REMOVES threads (contract `reap_only_shrinks`), so the pool cannot grow past the maximum in force through it.
//! Bound: pools of 1..=3 threads of which 1..=k are killed by panicking jobs, after which the maximum is lowered to 0 (6 cases): from then on
//! every scheduling call reaps without replacing: the pool shrinks to the threads that are still alive.
use desync::scheduler::*;
use std::sync::*;
use std::sync::atomic::{AtomicUsize, Ordering};
use std::thread;
use std::time::Instant;

fn pool(s: &Scheduler) -> String { let d = format!("{:?}", s); d[..d.find(" Pending queue count").unwrap_or(0)].to_string() }

fn run_case(k: usize, dead: usize) -> Result<(), String> {
    let sched = Arc::new(Scheduler::new());
    sched.set_max_threads(k);
    sched.despawn_threads_if_overloaded();
    let gate = Arc::new((Mutex::new(false), Condvar::new()));
    let running = Arc::new(AtomicUsize::new(0));
    let mut doomed = vec![];
    // one job per thread: `dead` of them panic when released, the others just finish
    for i in 0..k {
        let q = sched.create_job_queue();
        let (gate, running2) = (gate.clone(), running.clone());
        let dies = i < dead;
        sched.desync(&q, move || {
            running2.fetch_add(1, Ordering::SeqCst);
            let mut g = gate.0.lock().unwrap(); while !*g { g = gate.1.wait(g).unwrap(); } drop(g);
            if dies { panic!("doomed pool thread (expected by the bounded check)"); }
        });
        if dies { doomed.push(q); }
        let t0 = Instant::now();
        while running.load(Ordering::SeqCst) <= i && t0.elapsed() < desync_replay::secs(2) { thread::sleep(desync_replay::ms(2)); }
    }
    if pool(&sched).len() != k { return Err(format!("k={} dead={}: expected {} pool threads before the test, scheduler = {:?}", k, dead, k, sched)); }
    { *gate.0.lock().unwrap() = true; gate.1.notify_all(); }
    let t0 = Instant::now();
    while !doomed.iter().all(|q| format!("{:?}", q).contains("Panicked")) && t0.elapsed() < desync_replay::secs(3) { thread::sleep(desync_replay::ms(2)); }
    // from now on the maximum is 0: reaping the dead threads must not put anything in their place, so the pool shrinks to the threads
    // that are still alive (nothing is despawned here: only scheduling calls are made)
    let alive = k - dead;
    let t0 = Instant::now();
    loop {
        sched.set_max_threads(0);
        let q = sched.create_job_queue();
        sched.desync(&q, || {});                       // a scheduling call: reaps finished threads, may not spawn (maximum is 0)
        let p = pool(&sched);
        if p.len() > k { return Err(format!("k={} dead={}: the pool grew to {} threads: {:?}", k, dead, p.len(), sched)); }
        if p.len() == alive { return Ok(()); }
        if t0.elapsed() > desync_replay::secs(5) { return Err(format!("k={} dead={}: {} threads died and the maximum is 0, but the pool still lists {} threads (expected {}): {:?}", k, dead, dead, p.len(), alive, sched)); }
        thread::sleep(desync_replay::ms(5));
    }
}

#[test]
fn reaping_never_grows_the_pool() {
    let mut failures = vec![];
    for k in 1..=3usize { for dead in 1..=k { if let Err(e) = run_case(k, dead) { println!("REPLAY failing case: {}", e); failures.push(e); } } }
    println!("REPLAY bounded cases=6 failures={:?}", failures);
    assert!(failures.is_empty(), "{:?}", failures);
}
