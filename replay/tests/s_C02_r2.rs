//
// Demonstration for property C02 (operations on one Desync take effect in the order their scheduling calls were made).
//
// A future scheduled with `future_desync` is woken while it is still being polled (either because it wakes itself, the
// usual 'yield once' idiom, or because another thread wakes it before `poll` returns). Other operations are already
// queued behind it at that point. The future must still finish before any of the later operations start.
//

extern crate desync;
extern crate futures;

use desync::Desync;

use futures::prelude::*;
use futures::task::{Context, Poll, Waker};

use std::pin::Pin;
use std::sync::*;
use std::sync::mpsc;
use std::thread;
use std::time::Duration;

///
/// Future that returns 'pending' once, after waking itself up (the classic 'yield_now')
///
struct YieldOnce {
    yielded: bool
}

impl Future for YieldOnce {
    type Output = ();

    fn poll(mut self: Pin<&mut Self>, context: &mut Context) -> Poll<()> {
        if self.yielded {
            Poll::Ready(())
        } else {
            self.yielded = true;
            context.waker().wake_by_ref();
            Poll::Pending
        }
    }
}

///
/// Future that hands its waker to another thread and does not return 'pending' until that thread has called it
///
struct WokenByOtherThread {
    polled:     bool,
    send_waker: mpsc::Sender<Waker>,
    woken:      mpsc::Receiver<()>
}

impl Future for WokenByOtherThread {
    type Output = ();

    fn poll(mut self: Pin<&mut Self>, context: &mut Context) -> Poll<()> {
        if self.polled {
            Poll::Ready(())
        } else {
            self.polled = true;
            self.send_waker.send(context.waker().clone()).unwrap();
            self.woken.recv_timeout(Duration::from_secs(5)).expect("Waker thread never woke us");
            Poll::Pending
        }
    }
}

///
/// Blocks the queue of a desync on a pool thread, returning the sender that releases it. On return the blocking job is
/// running, so everything scheduled before the release is queued up behind it (nothing will be run 'in place' by the caller)
///
fn block_queue(desync: &Desync<Vec<&'static str>>) -> mpsc::Sender<()> {
    let (started, wait_started) = mpsc::channel();
    let (release, wait_release) = mpsc::channel::<()>();

    desync.desync(move |_| {
        started.send(()).unwrap();
        wait_release.recv_timeout(Duration::from_secs(5)).ok();
    });

    wait_started.recv_timeout(Duration::from_secs(5)).expect("Blocking job never started");
    release
}

#[test]
fn future_that_yields_finishes_before_later_operations_start() {
    for _ in 0..50 {
        let desync  = Desync::new(vec![]);
        let release = block_queue(&desync);

        // First operation: a future that yields once in the middle
        desync.future_desync(|log: &mut Vec<&'static str>| async move {
            log.push("first: start");
            YieldOnce { yielded: false }.await;
            log.push("first: end");
        }.boxed()).detach();

        // Operations scheduled after that call returned
        desync.desync(|log| log.push("second"));
        let third = desync.after(future::ready(()), |log, _| log.push("third"));

        // Let the queue run
        release.send(()).unwrap();
        let log = desync.sync(|log| { log.push("fourth"); log.clone() });
        mem_drop(third);

        assert_eq!(log, vec!["first: start", "first: end", "second", "third", "fourth"]);
    }
}

#[test]
fn future_woken_during_poll_finishes_before_later_operations_start() {
    for _ in 0..50 {
        let desync  = Desync::new(vec![]);
        let release = block_queue(&desync);

        // Thread that wakes the future as soon as it gets hold of the waker
        let (send_waker, recv_waker)    = mpsc::channel::<Waker>();
        let (send_woken, recv_woken)    = mpsc::channel();
        let waker_thread                = thread::spawn(move || {
            if let Ok(waker) = recv_waker.recv_timeout(Duration::from_secs(5)) {
                waker.wake();
                send_woken.send(()).ok();
            }
        });

        // First operation: a future that is woken by the other thread while it's still in its poll function
        let first = desync.future_desync(move |log: &mut Vec<&'static str>| async move {
            log.push("first: start");
            WokenByOtherThread { polled: false, send_waker: send_waker, woken: recv_woken }.await;
            log.push("first: end");
        }.boxed());

        // Operation scheduled after that call returned
        desync.desync(|log| log.push("second"));

        // Let the queue run
        release.send(()).unwrap();
        let log = desync.sync(|log| { log.push("third"); log.clone() });

        waker_thread.join().unwrap();
        mem_drop(first);

        assert_eq!(log, vec!["first: start", "first: end", "second", "third"]);
    }
}

fn mem_drop<T>(val: T) {
    std::mem::drop(val);
}
