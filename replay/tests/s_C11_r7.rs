extern crate desync;
extern crate futures;

use desync::*;
use futures::future;
use futures::prelude::*;
use futures::task::{Context, Poll, Waker};

use std::collections::VecDeque;
use std::pin::Pin;
use std::sync::mpsc;
use std::sync::*;
use std::thread;
use std::time::Duration;

///
/// Runs a scenario in its own thread and fails the test if it does not finish in time
///
fn watchdog<TFn: 'static + Send + FnOnce() -> ()>(name: &'static str, scenario: TFn) {
    let (done_tx, done_rx) = mpsc::channel();

    thread::spawn(move || {
        scenario();
        done_tx.send(()).ok();
    });

    match done_rx.recv_timeout(Duration::from_secs(8)) {
        Ok(())                                      => { }
        Err(mpsc::RecvTimeoutError::Timeout)        => panic!("{}: timed out", name),
        Err(mpsc::RecvTimeoutError::Disconnected)   => panic!("{}: scenario failed", name)
    }
}

///
/// Waits for a condition to become true, returning false if it doesn't within about 3 seconds
///
fn wait_for<TFn: Fn() -> bool>(condition: TFn) -> bool {
    for _ in 0..300 {
        if condition() { return true; }
        thread::sleep(Duration::from_millis(10));
    }

    condition()
}

///
/// The gate is used to hold back a `YieldingStream` until the test is ready for it to start producing items
///
struct Gate {
    open:   bool,
    waker:  Option<Waker>
}

///
/// Opens a gate, notifying the stream if it's waiting
///
fn open_gate(gate: &Arc<Mutex<Gate>>) {
    let waker = {
        let mut gate = gate.lock().unwrap();
        gate.open = true;
        gate.waker.take()
    };

    waker.map(|waker| waker.wake());
}

///
/// A stream that produces nothing until its gate is opened, then hands out its items one at a time, yielding to the
/// executor before each one: it notifies its waker and returns `Pending` (what `FuturesUnordered`, `yield_now()` and
/// other cooperative streams do when they have more work but want to give other tasks a turn). For the pipe this is
/// an item that 'arrives during the poll'.
///
struct YieldingStream {
    gate:       Arc<Mutex<Gate>>,
    items:      VecDeque<u32>,
    yielded:    bool,
    _token:     Arc<()>
}

impl Stream for YieldingStream {
    type Item = u32;

    fn poll_next(mut self: Pin<&mut Self>, context: &mut Context) -> Poll<Option<u32>> {
        {
            let mut gate = self.gate.lock().unwrap();
            if !gate.open {
                gate.waker = Some(context.waker().clone());
                return Poll::Pending;
            }
        }

        if !self.yielded {
            // More to do, but give the executor a turn first
            self.yielded = true;
            context.waker().wake_by_ref();
            Poll::Pending
        } else {
            self.yielded = false;
            Poll::Ready(self.items.pop_front())
        }
    }
}

///
/// Control: with the Desync alive, pipe_in copes with the yielding stream (every item once, in order, everything released when the stream ends)
///
#[test]
fn yielding_stream_is_processed_in_order() {
    watchdog("yielding_stream_is_processed_in_order", || {
        let token       = Arc::new(());
        let released    = Arc::downgrade(&token);
        let gate        = Arc::new(Mutex::new(Gate { open: false, waker: None }));
        let stream      = YieldingStream { gate: Arc::clone(&gate), items: (0..10).collect(), yielded: false, _token: token };

        let obj                 = Arc::new(Desync::new(vec![]));
        let (item_tx, item_rx)  = mpsc::channel();

        pipe_in(Arc::clone(&obj), stream, move |core: &mut Vec<u32>, item| {
            core.push(item);
            item_tx.send(item).ok();
            Box::pin(future::ready(()))
        });

        assert!(obj.sync(|core| core.len()) == 0);
        open_gate(&gate);

        for expected in 0..10 {
            let item = item_rx.recv_timeout(Duration::from_secs(3)).expect("pipe_in stopped processing items");
            assert!(item == expected, "{} != {}", item, expected);
        }

        assert!(wait_for(|| released.upgrade().is_none()), "Stream was not released after it finished");
        assert!(obj.sync(|core| core.clone()) == (0..10).collect::<Vec<_>>());
    });
}

///
/// The Desync is dropped while a poll of the pipe is queued behind another job on it, and the stream notifies during
/// that poll. This is the first stream event after the Desync is gone, so the pipe must stop and release the stream
/// and the processing function, and it must not get in the way of the Desync being dropped.
///
#[test]
fn desync_dropped_with_poll_queued_and_stream_notifies_during_poll() {
    watchdog("desync_dropped_with_poll_queued_and_stream_notifies_during_poll", || {
        let token       = Arc::new(());
        let released    = Arc::downgrade(&token);
        let gate        = Arc::new(Mutex::new(Gate { open: false, waker: None }));
        let stream      = YieldingStream { gate: Arc::clone(&gate), items: (0..3).collect(), yielded: false, _token: token };

        let obj                 = Arc::new(Desync::new(vec![]));
        let weak_obj            = Arc::downgrade(&obj);
        let (item_tx, item_rx)  = mpsc::channel();

        // The initial poll finds the gate closed and leaves the pipe waiting for the stream
        pipe_in(Arc::clone(&obj), stream, move |core: &mut Vec<u32>, item| {
            core.push(item);
            item_tx.send(item).ok();
            Box::pin(future::ready(()))
        });

        // Keep the desync busy with some other job...
        let (unblock_tx, unblock_rx) = mpsc::channel::<()>();
        obj.desync(move |_| { unblock_rx.recv_timeout(Duration::from_secs(10)).ok(); });

        // ...so that when the stream notifies, the pipe's poll ends up queued behind it
        open_gate(&gate);

        // Drop the last reference to the desync on another thread (this waits for the queued jobs to finish)
        let (dropped_tx, dropped_rx) = mpsc::channel();
        thread::spawn(move || {
            drop(obj);
            dropped_tx.send(()).ok();
        });
        assert!(wait_for(|| weak_obj.strong_count() == 0), "Desync reference was not released");
        assert!(dropped_rx.try_recv().is_err(), "Desync should still be waiting for its queue");

        // Let the queue run: the poll happens with the desync already gone, and the stream notifies during the poll
        unblock_tx.send(()).unwrap();

        // The desync must finish dropping
        assert!(dropped_rx.recv_timeout(Duration::from_secs(4)).is_ok(), "Desync never finished dropping: its queue is stuck in the pipe's poll");

        // ...and the pipe must have let go of the stream and the processing function
        assert!(wait_for(|| released.upgrade().is_none()), "Stream was not released after the desync was dropped");
        assert!(wait_for(|| match item_rx.try_recv() { Err(mpsc::TryRecvError::Disconnected) => true, _ => false }), "Processing function was not released");
    });
}
