//
// Demonstration for C09: "once an object has no operation queued or in progress try_sync succeeds"
// (and every operation scheduled later still completes).
//
// A future job that ran on the queue earlier leaves a *stale* waker behind (perfectly legal: wakers may be
// invoked late or spuriously). If that waker fires at the moment a `try_sync` closure is running on the
// otherwise empty queue, the queue must still come back to `Idle` when the closure finishes.
//

use desync::scheduler::*;

use futures::prelude::*;
use futures::task::{Context, Poll, Waker};

use std::pin::Pin;
use std::sync::*;
use std::sync::atomic::{AtomicBool, Ordering};
use std::sync::mpsc;
use std::thread;
use std::time::{Duration, Instant};

///
/// Future that keeps a copy of every waker it's polled with, and completes once `ready` is set
///
struct StashWaker {
    stash:  Arc<Mutex<Option<Waker>>>,
    ready:  Arc<AtomicBool>,
}

impl Future for StashWaker {
    type Output = ();

    fn poll(self: Pin<&mut Self>, context: &mut Context) -> Poll<()> {
        *self.stash.lock().unwrap() = Some(context.waker().clone());

        if self.ready.load(Ordering::SeqCst) {
            Poll::Ready(())
        } else {
            Poll::Pending
        }
    }
}

fn wait_for<F: Fn() -> bool>(what: &str, cond: F) {
    let start = Instant::now();
    while !cond() {
        if start.elapsed() > Duration::from_secs(10) {
            panic!("Timed out waiting for {}", what);
        }
        thread::sleep(Duration::from_millis(1));
    }
}

///
/// Runs a future job on a pool thread of `scheduler`, lets it finish, and returns the (now stale) waker
/// that the queue handed to it
///
fn obtain_stale_waker(scheduler: &Scheduler, queue: &Arc<JobQueue>) -> Waker {
    let stash   = Arc::new(Mutex::new(None));
    let ready   = Arc::new(AtomicBool::new(false));
    let done    = Arc::new(AtomicBool::new(false));

    // Run a future on the queue in the background: it will return 'pending' the first time it's polled
    let job_stash   = Arc::clone(&stash);
    let job_ready   = Arc::clone(&ready);
    let job_done    = Arc::clone(&done);
    scheduler.future_desync(queue, move || async move {
        StashWaker { stash: job_stash, ready: job_ready }.await;
        job_done.store(true, Ordering::SeqCst);
    }).detach();

    // Wait for the first poll, then let the future finish
    wait_for("future job to be polled", || stash.lock().unwrap().is_some());
    ready.store(true, Ordering::SeqCst);
    let first_waker: Waker = stash.lock().unwrap().clone().unwrap();
    first_waker.wake_by_ref();

    wait_for("future job to finish", || done.load(Ordering::SeqCst));

    // Everything on the queue has finished once this returns
    scheduler.sync(queue, || { });
    wait_for("queue to become idle", || format!("{:?}", queue).contains("State: Idle, Pending: 0"));

    let stale_waker = stash.lock().unwrap().take().unwrap();
    stale_waker
}

///
/// Checks that the queue is still usable: try_sync succeeds, and a job scheduled later still completes
///
fn check_queue_undisturbed(scheduler: &Arc<Scheduler>, queue: &Arc<JobQueue>) {
    // Nothing is queued or in progress, so try_sync must succeed (give it a few goes in case something is settling)
    let mut result = Err(TrySyncError::Busy);
    for _ in 0..200 {
        result = scheduler.try_sync(queue, || 2);
        if result.is_ok() { break; }
        thread::sleep(Duration::from_millis(5));
    }
    assert!(result == Ok(2), "try_sync on a queue with nothing queued or in progress returned {:?} ({:?})", result, queue);

    // Operations scheduled later still complete
    let (tx, rx) = mpsc::channel();
    scheduler.desync(queue, move || { tx.send(3).ok(); });
    assert!(rx.recv_timeout(Duration::from_secs(5)) == Ok(3), "desync job scheduled after try_sync never ran ({:?})", queue);

    let (tx, rx)    = mpsc::channel();
    let sync_sched  = Arc::clone(scheduler);
    let sync_queue  = Arc::clone(queue);
    thread::spawn(move || { tx.send(sync_sched.sync(&sync_queue, || 4)).ok(); });
    assert!(rx.recv_timeout(Duration::from_secs(5)) == Ok(4), "sync scheduled after try_sync never returned ({:?})", queue);
}

#[test]
fn stale_wake_inside_try_sync_closure() {
    let scheduler   = Arc::new(Scheduler::new());
    scheduler.set_max_threads(2);
    let queue       = scheduler.create_job_queue();

    let stale_waker = obtain_stale_waker(&scheduler, &queue);

    // The queue is empty and idle, so try_sync runs immediately. The stale waker goes off while the closure is running.
    let result = scheduler.try_sync(&queue, || { stale_waker.wake_by_ref(); 1 });
    assert!(result == Ok(1), "first try_sync returned {:?}", result);

    check_queue_undisturbed(&scheduler, &queue);
}

#[test]
fn stale_wake_from_other_thread_during_try_sync() {
    let scheduler   = Arc::new(Scheduler::new());
    scheduler.set_max_threads(3);
    let queue       = scheduler.create_job_queue();

    let stale_waker = obtain_stale_waker(&scheduler, &queue);

    // Some other thread fires the stale waker while the try_sync closure is in progress
    let (started_tx, started_rx)    = mpsc::channel();
    let (woken_tx, woken_rx)        = mpsc::channel();
    let waker_thread = thread::spawn(move || {
        started_rx.recv().unwrap();
        stale_waker.wake();
        woken_tx.send(()).unwrap();
    });

    let result = scheduler.try_sync(&queue, move || {
        started_tx.send(()).unwrap();
        woken_rx.recv_timeout(Duration::from_secs(5)).unwrap();
        1
    });
    assert!(result == Ok(1), "first try_sync returned {:?}", result);
    waker_thread.join().unwrap();

    check_queue_undisturbed(&scheduler, &queue);
}

#[test]
fn stale_wake_during_plain_sync_then_try_sync() {
    // Same window, reached through sync() on an empty queue (which shares the immediate-run path)
    let scheduler   = Arc::new(Scheduler::new());
    scheduler.set_max_threads(1);
    let queue       = scheduler.create_job_queue();

    let stale_waker = obtain_stale_waker(&scheduler, &queue);

    let result = scheduler.sync(&queue, || { stale_waker.wake_by_ref(); 1 });
    assert!(result == 1);

    check_queue_undisturbed(&scheduler, &queue);
}
