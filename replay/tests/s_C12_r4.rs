//
// Demonstration for C12: a consumer waiting on a pipe's output stream must be woken (and then see the end of
// the stream) when the input stream ends.
//
// The consumer here is driven by a hand-rolled waker that re-polls the stream straight away, on the thread that
// called `wake()` (an 'inline' executor: the quickest possible reaction to a wake-up). Whatever the consumer sees
// at that moment has to be enough for it to make progress: either the end of the stream, or a later wake-up.
//

extern crate desync;
extern crate futures;

use desync::{pipe, Desync, PipeStream};

use futures::channel::mpsc;
use futures::future;
use futures::prelude::*;
use futures::task::{waker, ArcWake, Context, Poll};

use std::sync::*;
use std::thread;
use std::time::{Duration, Instant};

/// What the consumer has seen so far
struct Seen {
    items: Vec<i32>,
    ended: bool,
    polls: usize,
}

/// Consumer that polls the pipe stream on whichever thread wakes it
struct InlineConsumer {
    stream: Mutex<PipeStream<i32>>,
    seen:   Mutex<Seen>,
    signal: Condvar,
}

impl InlineConsumer {
    /// Polls the stream until it goes pending or ends
    fn drain(arc_self: &Arc<Self>) {
        let waker       = waker(Arc::clone(arc_self));
        let mut context = Context::from_waker(&waker);
        let mut stream  = arc_self.stream.lock().unwrap();

        loop {
            let next = stream.poll_next_unpin(&mut context);

            let mut seen = arc_self.seen.lock().unwrap();
            seen.polls += 1;

            match next {
                Poll::Ready(Some(item)) => { seen.items.push(item); }
                Poll::Ready(None)       => { seen.ended = true; arc_self.signal.notify_all(); return; }
                Poll::Pending           => { arc_self.signal.notify_all(); return; }
            }
        }
    }

    /// Waits until the predicate is true for what has been seen, or the timeout expires. Returns whether it became true.
    fn wait_for<F: Fn(&Seen) -> bool>(&self, timeout: Duration, predicate: F) -> bool {
        let deadline = Instant::now() + timeout;
        let mut seen = self.seen.lock().unwrap();

        loop {
            if predicate(&*seen) { return true; }

            let now = Instant::now();
            if now >= deadline { return false; }

            seen = self.signal.wait_timeout(seen, deadline - now).unwrap().0;
        }
    }
}

impl ArcWake for InlineConsumer {
    fn wake_by_ref(arc_self: &Arc<Self>) {
        InlineConsumer::drain(arc_self);
    }
}

fn run_once(num_items: i32, depth: usize) {
    let (mut sender, receiver) = mpsc::channel::<i32>(0);
    let obj             = Arc::new(Desync::new(1));
    let mut pipe_out    = pipe(Arc::clone(&obj), receiver, |core, item: i32| future::ready(item + *core).boxed());
    pipe_out.set_backpressure_depth(depth);

    let consumer = Arc::new(InlineConsumer {
        stream: Mutex::new(pipe_out),
        seen:   Mutex::new(Seen { items: vec![], ended: false, polls: 0 }),
        signal: Condvar::new(),
    });

    // First poll: nothing has been sent yet, so the consumer is registered and waiting
    InlineConsumer::drain(&consumer);
    assert!(!consumer.seen.lock().unwrap().ended);

    // Send the items, waiting for each to come out of the other side (so the consumer is always waiting with an empty buffer)
    for item in 0..num_items {
        futures::executor::block_on(async { sender.send(item).await.unwrap(); });

        let arrived = consumer.wait_for(Duration::from_secs(5), |seen| seen.items.len() == (item as usize) + 1);
        assert!(arrived, "item {} never reached the waiting consumer", item);
    }

    // Let the pipe go back to sleep on the (empty, still open) input
    obj.sync(|_| { });
    thread::sleep(Duration::from_millis(2));

    // End the input. The consumer is waiting, so it must be woken and must see the end of the stream
    drop(sender);

    let ended = consumer.wait_for(Duration::from_secs(2), |seen| seen.ended);
    let seen  = consumer.seen.lock().unwrap();

    assert!(seen.items == (0..num_items).map(|item| item + 1).collect::<Vec<_>>(), "wrong output: {:?}", seen.items);
    assert!(ended, "input ended but the waiting consumer was never told (saw {:?} after {} polls)", seen.items, seen.polls);
}

#[test]
fn waiting_consumer_sees_end_of_input() {
    for depth in 1..=5 {
        for num_items in 0..3 {
            run_once(num_items, depth);
        }
    }
}
