extern crate desync;
extern crate futures;

use desync::scheduler::*;

use futures::channel::oneshot;
use futures::future::FutureExt;

use std::sync::mpsc;
use std::thread;
use std::time::Duration;

///
/// A scheduler with a single pool thread has one of its jobs panic (on some unrelated queue). Afterwards a queue
/// whose future-job is suspended is polled once from this thread, which then calls `sync` on that queue: the
/// `sync` has to return with its own result once the future ahead of it has completed (the pool thread finishes
/// the queue off when the future wakes up, as the thread that polled it is busy waiting in `sync`)
///
#[test]
fn sync_returns_after_polled_future_when_an_earlier_job_panicked() {
    let (done_send, done_recv) = mpsc::channel();

    thread::Builder::new()
        .name("seed demo scenario".to_string())
        .spawn(move || {
            // Private scheduler with exactly one pool thread
            let scheduler = Scheduler::new();
            scheduler.set_max_threads(1);
            scheduler.despawn_threads_if_overloaded();

            // A job on an unrelated queue panics on the pool thread
            let panicking_queue             = scheduler.create_job_queue();
            let (panicked_send, panicked)   = mpsc::channel();
            scheduler.desync(&panicking_queue, move || {
                panicked_send.send(()).ok();
                panic!("Deliberate panic in a background job");
            });
            panicked.recv_timeout(Duration::from_secs(2)).expect("Panicking job never ran");

            // Give the panic time to finish unwinding
            thread::sleep(Duration::from_millis(300));

            // Schedule a future that waits for a signal on another queue
            let queue                   = scheduler.create_job_queue();
            let (signal, wait_signal)   = oneshot::channel::<()>();
            let mut future              = scheduler.future_desync(&queue, move || async move {
                wait_signal.await.ok();
                42
            });

            // Let the pool pick it up if it's going to
            thread::sleep(Duration::from_millis(200));

            // Poll the future once from this thread: the signal hasn't been sent so it can't be ready yet
            assert!((&mut future).now_or_never().is_none());

            // The signal arrives from another thread while we're waiting in sync
            let signaller = thread::spawn(move || {
                thread::sleep(Duration::from_millis(200));
                signal.send(()).ok();
            });

            // The sync must return its own value once the future ahead of it is done
            let sync_result = scheduler.sync(&queue, || 7);
            signaller.join().ok();

            // The future's result is available as well
            let future_result = future.sync();

            done_send.send((sync_result, future_result)).ok();
        })
        .expect("Scenario thread");

    match done_recv.recv_timeout(Duration::from_secs(5)) {
        Ok((sync_result, future_result)) => {
            assert!(sync_result == 7);
            assert!(future_result == Ok(42));
        }

        Err(_) => {
            panic!("sync() did not return after the operations ahead of it had completed");
        }
    }
}
