//
// Demonstration for C11: pipe_in must release its stream and closure at the first stream event after
// its Desync is gone, wherever that event happens to be delivered from.
//
// Two pipe_in stages are chained: the processing closure of stage 1 owns the only Sender of stage 2's
// input channel. Both Desyncs are dropped, then stage 1's input is closed. That event releases stage 1
// (its closure, and with it the stage 2 Sender), and the Sender going away is the 'first stream event
// after the Desync is gone' for stage 2, which must release stage 2's stream and closure as well.
//

extern crate desync;
extern crate futures;

use desync::*;
use futures::channel::mpsc;
use futures::future;
use futures::prelude::*;

use std::sync::atomic::{AtomicBool, Ordering};
use std::sync::mpsc as std_mpsc;
use std::sync::*;
use std::thread;
use std::time::{Duration, Instant};

/// Sets a flag when it's dropped (used to find out when a pipe releases its closure)
struct DropFlag(Arc<AtomicBool>);

impl Drop for DropFlag {
    fn drop(&mut self) {
        self.0.store(true, Ordering::SeqCst);
    }
}

/// Waits for a condition to become true, returning false if it doesn't within the timeout
fn wait_for<F: Fn() -> bool>(timeout: Duration, condition: F) -> bool {
    let start = Instant::now();

    while start.elapsed() < timeout {
        if condition() { return true; }
        thread::sleep(Duration::from_millis(2));
    }

    condition()
}

fn chained_pipes_release_once_desyncs_are_gone(num_items: i32) {
    let stage1              = Arc::new(Desync::new(0i32));
    let stage2              = Arc::new(Desync::new(Vec::<i32>::new()));

    let (mut tx1, rx1)      = mpsc::channel::<i32>(64);
    let (mut tx2, rx2)      = mpsc::channel::<i32>(64);

    let released1           = Arc::new(AtomicBool::new(false));
    let released2           = Arc::new(AtomicBool::new(false));
    let flag1               = DropFlag(Arc::clone(&released1));
    let flag2               = DropFlag(Arc::clone(&released2));

    // Stage 2 collects whatever arrives
    pipe_in(Arc::clone(&stage2), rx2, move |collected, item| {
        let _flag2 = &flag2;
        collected.push(item);
        future::ready(()).boxed()
    });

    // Stage 1 counts the items and forwards them to stage 2 (it owns the only sender for stage 2's input)
    pipe_in(Arc::clone(&stage1), rx1, move |count, item| {
        let _flag1 = &flag1;
        *count += 1;
        tx2.try_send(item * 10).expect("stage 2 input has room");
        future::ready(()).boxed()
    });

    // Push some items through both stages
    for item in 0..num_items {
        tx1.try_send(item).expect("stage 1 input has room");
    }

    let expected = (0..num_items).map(|item| item * 10).collect::<Vec<_>>();
    assert!(wait_for(Duration::from_secs(5), || stage2.sync(|collected| collected.len()) == expected.len()), "Items did not arrive at stage 2");
    assert!(stage1.sync(|count| *count) == num_items);
    assert!(stage2.sync(|collected| collected.clone()) == expected, "Items arrived out of order or more than once");

    // Both pipes are idle, waiting for their streams. Neither keeps its Desync alive
    let weak1 = Arc::downgrade(&stage1);
    let weak2 = Arc::downgrade(&stage2);
    drop(stage2);
    drop(stage1);
    assert!(weak1.upgrade().is_none() && weak2.upgrade().is_none(), "pipe_in kept a Desync alive");

    // Nothing has happened on the streams yet, so nothing is released yet
    assert!(!released1.load(Ordering::SeqCst));
    assert!(!released2.load(Ordering::SeqCst));

    // Close stage 1's input from another thread (so that this test can time out instead of hanging if the stream's waker gets stuck)
    let (done_send, done_recv) = std_mpsc::channel();
    thread::spawn(move || {
        drop(tx1);
        done_send.send(()).ok();
    });

    // The close is the first stream event since stage 1's Desync went away: stage 1 lets go of its stream and closure...
    assert!(wait_for(Duration::from_secs(5), || released1.load(Ordering::SeqCst)), "Stage 1 never released its closure");

    // ...which drops the sender for stage 2: the first stream event since stage 2's Desync went away, so stage 2 lets go as well
    assert!(wait_for(Duration::from_secs(5), || released2.load(Ordering::SeqCst)), "Stage 2 never released its stream and closure after its Desync was gone");

    // The thread that delivered the stream event is not left stuck in the waker
    assert!(done_recv.recv_timeout(Duration::from_secs(5)).is_ok(), "Thread closing the stream never returned");
}

#[test]
fn chained_pipe_in_releases_after_desyncs_gone() {
    chained_pipes_release_once_desyncs_are_gone(5);
}

#[test]
fn chained_pipe_in_releases_after_desyncs_gone_repeatedly() {
    for iteration in 0..20 {
        chained_pipes_release_once_desyncs_are_gone(1 + (iteration % 7));
    }
}
