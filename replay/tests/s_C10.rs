//
// C10 demonstration: different Desync objects make progress independently
//
// While an operation on one object is blocked on an external gate, an operation scheduled on another object must
// run as soon as the pool has a free thread.
//
// Sequence used here (private scheduler with a maximum of 2 threads, 4 queues standing in for 4 Desync objects -
// `Desync<T>` is a thin wrapper around a queue on the global scheduler, the second test uses it directly):
//
//  1. `blocked_a` and `blocked_b` each get an operation that blocks on its own gate: the pool is now saturated
//  2. `claimed` gets an operation scheduled: no thread is available, so it waits in the schedule
//  3. the test thread calls `sync` on `claimed`: this drains the queue on the calling thread
//  4. `victim` gets an operation scheduled: still no thread available, so it waits in the schedule too
//  5. gate B is opened: one pool thread is now free, while `blocked_a` stays blocked indefinitely
//
// The operation on `victim` has to run now: the pool has a free thread. The test fails if it does not start until
// the unrelated operation on `blocked_a` is allowed to finish.
//

use desync::Desync;
use desync::scheduler::{scheduler, Scheduler};

use std::sync::*;
use std::sync::mpsc;
use std::time::{Duration, Instant};

/// How long we allow for an operation to start once a thread is free
const START_TIMEOUT: Duration = Duration::from_secs(3);

/// A gate that blocks operations until it is opened
struct Gate {
    open: Mutex<bool>,
    cond: Condvar
}

impl Gate {
    fn new() -> Arc<Gate> {
        Arc::new(Gate { open: Mutex::new(false), cond: Condvar::new() })
    }

    fn wait(&self) {
        // (Gives up after a while so that a failing test does not leave threads behind forever)
        let mut open = self.open.lock().unwrap();
        let deadline = Instant::now() + Duration::from_secs(20);
        while !*open && Instant::now() < deadline {
            open = self.cond.wait_timeout(open, Duration::from_millis(100)).unwrap().0;
        }
    }

    fn open(&self) {
        *self.open.lock().unwrap() = true;
        self.cond.notify_all();
    }
}

#[test]
fn free_pool_thread_serves_other_queue_while_one_is_blocked() {
    for round in 0..20 {
        // Pool with a maximum of two threads
        let scheduler = Scheduler::new();
        scheduler.set_max_threads(2);

        let blocked_a   = scheduler.create_job_queue();
        let blocked_b   = scheduler.create_job_queue();
        let claimed     = scheduler.create_job_queue();
        let victim      = scheduler.create_job_queue();

        let gate_a      = Gate::new();
        let gate_b      = Gate::new();

        // 1. Saturate the pool with two operations that are blocked on external gates
        let (started, starts) = mpsc::channel();
        for (queue, gate) in vec![(&blocked_a, &gate_a), (&blocked_b, &gate_b)] {
            let started = started.clone();
            let gate    = Arc::clone(gate);
            scheduler.desync(queue, move || { started.send(()).unwrap(); gate.wait(); });
        }
        starts.recv_timeout(START_TIMEOUT).expect("First blocking operation starts");
        starts.recv_timeout(START_TIMEOUT).expect("Second blocking operation starts");

        // 2. Schedule something on a third queue: it has to wait for a thread
        let claimed_count   = Arc::new(Mutex::new(0));
        let count           = Arc::clone(&claimed_count);
        scheduler.desync(&claimed, move || { *count.lock().unwrap() += 1; });

        // 3. ... but a sync on that queue runs it on this thread instead
        let count = Arc::clone(&claimed_count);
        assert!(scheduler.sync(&claimed, move || *count.lock().unwrap()) == 1);

        // 4. Schedule an operation on a fourth queue: it also has to wait for a thread
        let (victim_started, victim_starts) = mpsc::channel();
        scheduler.desync(&victim, move || { victim_started.send(()).ok(); });

        // 5. Free up one of the pool threads. The other queue stays blocked.
        gate_b.open();

        // The operation on the 'victim' queue should run on the free thread
        let ran = victim_starts.recv_timeout(START_TIMEOUT);
        let state = format!("scheduler: {:?}, victim: {:?}, blocked_a: {:?}", scheduler, victim, blocked_a);

        // Tidy up: unblock the remaining operation
        gate_a.open();
        scheduler.sync(&blocked_a, || { });
        scheduler.sync(&blocked_b, || { });

        assert!(ran.is_ok(), "round {}: operation on another queue did not run while a pool thread was free and an unrelated queue was blocked ({})", round, state);
    }
}

#[test]
fn free_pool_thread_serves_other_desync_while_one_is_blocked() {
    // Same thing using Desync objects and the global scheduler
    // (Every test file runs in its own process, and the other test here uses a private scheduler, so we own the global pool)
    let max_threads = 3;
    scheduler().set_max_threads(max_threads);

    for round in 0..10 {
        // 1. Saturate the pool with operations blocked on external gates
        let (started, starts)   = mpsc::channel();
        let blocked             = (0..max_threads).into_iter()
            .map(|_| {
                let object  = Desync::new(0usize);
                let gate    = Gate::new();
                let started = started.clone();

                let wait_gate = Arc::clone(&gate);
                object.desync(move |val| { *val += 1; started.send(()).unwrap(); wait_gate.wait(); });

                (object, gate)
            })
            .collect::<Vec<_>>();
        for _ in 0..max_threads {
            starts.recv_timeout(START_TIMEOUT).expect("Blocking operation starts");
        }

        // 2, 3. Schedule an operation on another object and then retrieve the result synchronously
        let claimed = Desync::new(0usize);
        claimed.desync(|val| { *val += 1 });
        assert!(claimed.sync(|val| *val) == 1);

        // 4. Schedule an operation on a further object
        let victim                          = Desync::new(0usize);
        let (victim_started, victim_starts) = mpsc::channel();
        victim.desync(move |val| { *val += 1; victim_started.send(()).ok(); });

        // 5. Free up one of the pool threads (the other objects stay blocked)
        blocked[1].1.open();

        // The operation on the 'victim' object should run on the free thread
        let ran = victim_starts.recv_timeout(START_TIMEOUT);

        // Tidy up: unblock the remaining operation
        blocked.iter().for_each(|(_, gate)| gate.open());
        blocked.iter().for_each(|(object, _)| assert!(object.sync(|val| *val) == 1));
        assert!(victim.sync(|val| *val) == 1);

        assert!(ran.is_ok(), "round {}: operation on another Desync did not run while a pool thread was free and unrelated Desyncs were blocked", round);
    }
}
