extern crate desync;
extern crate futures;

use desync::*;
use futures::stream;
use futures::future;
use futures::future::{FutureExt};
use futures::executor;
use futures::sink::{SinkExt};
use futures::stream::{StreamExt};
use futures::channel::mpsc;

use std::sync::*;
use std::sync::mpsc as std_mpsc;
use std::thread;
use std::time::Duration;

///
/// Runs a scenario on its own thread and fails (rather than hanging) if it does not finish in time
///
fn with_watchdog<TFn: 'static + Send + FnOnce() -> Vec<i32>>(scenario: TFn) -> Vec<i32> {
    let (done, wait_done) = std_mpsc::channel();

    thread::spawn(move || {
        let result = scenario();
        done.send(result).ok();
    });

    match wait_done.recv_timeout(Duration::from_secs(5)) {
        Ok(result)  => result,
        Err(_)      => panic!("Scenario did not finish within 5 seconds (consumer or producer was never woken)")
    }
}

#[test]
fn input_available_before_depth_is_configured() {
    // The input is entirely available when the pipe is created, so the pipe processes it straight away (pipe() waits for the first poll).
    // The consumer then configures the buffer depth before reading: every input must still produce exactly one output, in order.
    for depth in 1..=5 {
        for input_len in 0..=6 {
            let input       = (1..=input_len).collect::<Vec<i32>>();
            let expected    = input.iter().map(|x| x * 10).collect::<Vec<_>>();

            let output = with_watchdog(move || {
                let obj             = Arc::new(Desync::new(10));
                let mut pipe_out    = pipe(Arc::clone(&obj), stream::iter(input), |core, item: i32| future::ready(item * *core).boxed());

                pipe_out.set_backpressure_depth(depth);

                executor::block_on(async move { pipe_out.collect::<Vec<_>>().await })
            });

            assert!(output == expected, "depth {}, {} inputs: {:?} != {:?}", depth, input_len, output, expected);
        }
    }
}

#[test]
fn input_arrives_on_both_sides_of_configuring_the_depth() {
    // Some input arrives (and is processed) before the depth is set, the rest arrives afterwards
    for depth in 1..=5 {
        let output = with_watchdog(move || {
            let (mut sender, receiver)  = mpsc::channel(10);
            let obj                     = Arc::new(Desync::new(10));
            let mut pipe_out            = pipe(Arc::clone(&obj), receiver, |core, item: i32| future::ready(item * *core).boxed());

            executor::block_on(async {
                sender.send(1).await.unwrap();
                sender.send(2).await.unwrap();
            });

            // Give the pipe the chance to pick up the first two values and process them
            thread::sleep(Duration::from_millis(50));
            obj.sync(|_| { });

            pipe_out.set_backpressure_depth(depth);

            executor::block_on(async move {
                sender.send(3).await.unwrap();
                sender.send(4).await.unwrap();
                std::mem::drop(sender);

                pipe_out.collect::<Vec<_>>().await
            })
        });

        assert!(output == vec![10, 20, 30, 40], "depth {}: {:?} != [10, 20, 30, 40]", depth, output);
    }
}
