//!
//! Demonstration for property C03 ("no operation is lost, duplicated or left stranded").
//!
//! Scenario: an operation queued with `future_desync` is polled once by its caller at a moment when the
//! pool has not picked the queue up yet (the pool thread is busy / slower than the caller). The poll
//! claims the queue and runs the operation in the caller's context; the operation awaits an external
//! event, so the poll returns `Pending` and the queue is left in the 'waiting for poll' state. While that
//! poll is underway the pool thread looks at the schedule, finds the queue already claimed, drops the
//! schedule entry and goes dormant.
//!
//! The caller then loses interest and drops the `SchedulerFuture` (eg, it was one arm of a `select`
//! with a timeout). `future_desync` promises that the operation 'will run to completion even if the
//! return value is discarded', so when the external event finally fires, the queue's waker has to hand
//! the queue back to the (now idle) pool so that the operation and everything queued behind it run
//! without any further API call.
//!
//! Uses only the public API.
//!

extern crate desync;
extern crate futures;

use desync::scheduler::*;

use futures::prelude::*;
use futures::channel::oneshot;
use futures::task;
use futures::task::{Context, Poll};

use std::pin::Pin;
use std::sync::*;
use std::sync::atomic::{AtomicBool, AtomicUsize, Ordering};
use std::sync::mpsc;
use std::thread;
use std::time::{Duration, Instant};

/// Waits for a condition to become true, returning false if it does not within the timeout
fn wait_for(timeout: Duration, condition: impl Fn() -> bool) -> bool {
    let start = Instant::now();

    while start.elapsed() < timeout {
        if condition() { return true; }
        thread::sleep(Duration::from_millis(2));
    }

    condition()
}

/// True if a scheduler with one thread has that thread dormant and nothing in its schedule
fn pool_is_quiet(scheduler: &Scheduler) -> bool {
    format!("{:?}", scheduler) == "I Pending queue count: 0"
}

///
/// Future that waits for a oneshot event. The first time it is polled it reports that it's being polled and
/// then holds the poll open until it's told to continue (so the test can order the pool thread's actions
/// against the poll)
///
struct GatedEvent {
    event:      oneshot::Receiver<()>,
    first_poll: Option<(mpsc::Sender<()>, mpsc::Receiver<()>)>
}

impl Future for GatedEvent {
    type Output = ();

    fn poll(mut self: Pin<&mut Self>, context: &mut Context) -> Poll<()> {
        // Register with the event
        let result = self.event.poll_unpin(context);

        // Hold the first poll open until the test says to continue
        if let Some((in_poll, go)) = self.first_poll.take() {
            in_poll.send(()).ok();
            go.recv_timeout(Duration::from_secs(10)).ok();
        }

        result.map(|_| ())
    }
}

///
/// Fully ordered version: the single pool thread is occupied by another job when the future is polled,
/// and finishes that job (and goes dormant) while the poll is still underway.
///
#[test]
fn abandoned_future_desync_completes_when_event_fires_ordered() {
    let scheduler = Arc::new(Scheduler::new());
    scheduler.set_max_threads(1);

    // Occupy the only pool thread
    let blocker_queue                   = scheduler.create_job_queue();
    let (blocker_started, is_started)   = mpsc::channel();
    let (release_blocker, wait_release) = mpsc::channel::<()>();

    scheduler.desync(&blocker_queue, move || {
        blocker_started.send(()).ok();
        wait_release.recv_timeout(Duration::from_secs(10)).ok();
    });
    is_started.recv_timeout(Duration::from_secs(10)).expect("Blocker job should start on the pool thread");

    // Two operations on the queue under test: one that waits for an external event, and an ordinary one behind it
    let queue               = scheduler.create_job_queue();
    let (fire_event, event) = oneshot::channel::<()>();
    let (in_poll, is_in_poll)   = mpsc::channel();
    let (go, wait_go)           = mpsc::channel();
    let run_count           = Arc::new(AtomicUsize::new(0));
    let first_done          = Arc::new(AtomicBool::new(false));
    let second_done         = Arc::new(AtomicBool::new(false));

    let (run_count_1, first_done_1) = (Arc::clone(&run_count), Arc::clone(&first_done));
    let mut future = scheduler.future_desync(&queue, move || {
        let gated = GatedEvent { event: event, first_poll: Some((in_poll, wait_go)) };
        async move {
            gated.await;
            run_count_1.fetch_add(1, Ordering::SeqCst);
            first_done_1.store(true, Ordering::SeqCst);
        }
    });

    let (run_count_2, second_done_2) = (Arc::clone(&run_count), Arc::clone(&second_done));
    scheduler.desync(&queue, move || {
        run_count_2.fetch_add(1, Ordering::SeqCst);
        second_done_2.store(true, Ordering::SeqCst);
    });

    // While the poll below is underway, let the pool thread finish its job. It will find our queue in the schedule but already
    // claimed by the poll, so it discards the entry and goes dormant. Only then is the poll allowed to return.
    let helper_scheduler = Arc::clone(&scheduler);
    let helper = thread::spawn(move || {
        is_in_poll.recv_timeout(Duration::from_secs(10)).expect("Operation should be polled in the caller's context while the pool is occupied");
        release_blocker.send(()).ok();
        let quiet = wait_for(Duration::from_secs(5), || pool_is_quiet(&helper_scheduler));
        go.send(()).ok();
        quiet
    });

    // Poll once: the pool is occupied, so this runs the operation here. The event hasn't fired, so it's pending.
    let waker       = task::noop_waker();
    let mut context = Context::from_waker(&waker);
    assert!(future.poll_unpin(&mut context).is_pending());
    assert!(helper.join().unwrap(), "Pool thread should have gone dormant with an empty schedule");

    // The caller gives up on the result (eg, a timeout fired in a select). The operation must still run to completion.
    future.detach();

    // Nothing can have run yet
    assert!(!first_done.load(Ordering::SeqCst) && !second_done.load(Ordering::SeqCst));

    // The external event arrives. No further scheduler API calls are made from here on (other than Debug formatting).
    fire_event.send(()).unwrap();

    let all_done = wait_for(Duration::from_secs(3), || first_done.load(Ordering::SeqCst) && second_done.load(Ordering::SeqCst));
    println!("scheduler: {:?}, queue: {:?}", scheduler, queue);
    assert!(all_done, "Operations stranded: the event fired and the pool thread is idle, but first_done={} second_done={} ({:?})",
        first_done.load(Ordering::SeqCst), second_done.load(Ordering::SeqCst), queue);

    // ... and each ran exactly once
    thread::sleep(Duration::from_millis(50));
    assert!(run_count.load(Ordering::SeqCst) == 2);
    assert!(wait_for(Duration::from_secs(1), || pool_is_quiet(&scheduler)));
}

///
/// 'Natural' version with no hand-rolled future: the operation does some slow synchronous set-up before it
/// awaits the event, and the caller polls it straight after queuing it (before the pool thread has woken up
/// to collect the queue). The pool thread discards the already-claimed queue during the slow set-up.
///
#[test]
fn abandoned_future_desync_completes_when_event_fires_natural() {
    let mut stranded = 0;

    for _ in 0..5 {
        let scheduler = Scheduler::new();
        scheduler.set_max_threads(1);

        // Warm up so that there's a dormant pool thread, as there would be in a running application
        let warm_up = scheduler.create_job_queue();
        scheduler.desync(&warm_up, || { });
        scheduler.sync(&warm_up, || { });
        assert!(wait_for(Duration::from_secs(5), || pool_is_quiet(&scheduler)));

        let queue               = scheduler.create_job_queue();
        let (fire_event, event) = oneshot::channel::<()>();
        let first_done          = Arc::new(AtomicBool::new(false));
        let second_done         = Arc::new(AtomicBool::new(false));

        let first_done_1 = Arc::clone(&first_done);
        let mut future = scheduler.future_desync(&queue, move || {
            async move {
                // Slow synchronous set-up
                thread::sleep(Duration::from_millis(100));

                // Wait for something external
                event.await.ok();
                first_done_1.store(true, Ordering::SeqCst);
            }
        });

        // Poll straight away, then give up on the result
        let waker       = task::noop_waker();
        let mut context = Context::from_waker(&waker);
        assert!(future.poll_unpin(&mut context).is_pending());
        future.detach();

        // Something else is queued behind it
        let second_done_2 = Arc::clone(&second_done);
        scheduler.desync(&queue, move || { second_done_2.store(true, Ordering::SeqCst); });

        // Pool goes quiet with both operations waiting for the event
        assert!(wait_for(Duration::from_secs(5), || pool_is_quiet(&scheduler)));
        assert!(!first_done.load(Ordering::SeqCst) && !second_done.load(Ordering::SeqCst));

        // The event arrives: both operations should now run without any more API calls
        fire_event.send(()).unwrap();

        let all_done = wait_for(Duration::from_secs(2), || first_done.load(Ordering::SeqCst) && second_done.load(Ordering::SeqCst));
        if !all_done {
            println!("Stranded: scheduler: {:?}, queue: {:?}", scheduler, queue);
            stranded += 1;
        }
    }

    assert!(stranded == 0, "Operations were left stranded in {} out of 5 runs", stranded);
}
