use desync::scheduler::*;

use std::sync::*;
use std::sync::atomic::{AtomicBool, AtomicUsize, Ordering};
use std::sync::mpsc;
use std::thread;
use std::time::{Duration, Instant};

/// Number of times the scenario is repeated
const ITERATIONS: usize = 150;

///
/// Number of threads the scheduler says it owns (the debug format has one 'B' or 'I' per pool thread before the first space)
///
fn owned_threads(scheduler: &Scheduler) -> usize {
    let description = format!("{:?}", scheduler);
    description.split(' ').next().map(|busyness| busyness.len()).unwrap_or(0)
}

///
/// Busy-waits for a very short time (sleeping is far too coarse for this)
///
fn spin_for(duration: Duration) {
    let start = Instant::now();
    while start.elapsed() < duration { std::hint::spin_loop(); }
}

///
/// The two threads of a round spin until both are ready (a Barrier wakes its waiters one after the other, which spreads them out)
///
fn wait_for_start(ready: &Arc<AtomicUsize>) {
    ready.fetch_add(1, Ordering::SeqCst);
    while ready.load(Ordering::SeqCst) < 2 { std::hint::spin_loop(); }
}

///
/// One thread configures a new scheduler to run everything on the calling thread (maximum of 0 pool threads, then
/// despawn_threads_if_overloaded) while another thread creates the first queue for it. Once both are done, a job is
/// scheduled on the queue.
///
/// Returns (threads owned by the scheduler afterwards, whether the job ran in the background)
///
fn one_round(configure_delay: Duration) -> (usize, bool) {
    let scheduler   = Arc::new(Scheduler::new());
    let ready       = Arc::new(AtomicUsize::new(0));

    // Thread 1: creates the first queue
    let queue_scheduler = Arc::clone(&scheduler);
    let queue_ready     = Arc::clone(&ready);
    let create_queue    = thread::spawn(move || {
        wait_for_start(&queue_ready);
        queue_scheduler.create_job_queue()
    });

    // Thread 2: no pool threads wanted
    let config_scheduler    = Arc::clone(&scheduler);
    let config_ready        = Arc::clone(&ready);
    let configure           = thread::spawn(move || {
        wait_for_start(&config_ready);
        spin_for(configure_delay);

        config_scheduler.set_max_threads(0);
        config_scheduler.despawn_threads_if_overloaded();
    });

    let queue = create_queue.join().unwrap();
    configure.join().unwrap();

    // The maximum is 0 and despawn_threads_if_overloaded() has returned: from here on, work is only ever carried by callers
    let owned           = owned_threads(&scheduler);
    let ran             = Arc::new(AtomicBool::new(false));
    let ran_on_pool     = Arc::new(AtomicBool::new(false));

    let job_ran         = Arc::clone(&ran);
    let job_ran_on_pool = Arc::clone(&ran_on_pool);
    scheduler.desync(&queue, move || {
        if thread::current().name() == Some("desync jobs thread") {
            job_ran_on_pool.store(true, Ordering::SeqCst);
        }
        job_ran.store(true, Ordering::SeqCst);
    });

    // With no pool threads, the job waits until a caller carries it
    thread::sleep(Duration::from_millis(10));
    let ran_in_background = ran.load(Ordering::SeqCst);

    scheduler.sync(&queue, || { });
    assert!(ran.load(Ordering::SeqCst));

    let owned               = owned.max(owned_threads(&scheduler));
    let ran_in_background   = ran_in_background || ran_on_pool.load(Ordering::SeqCst);

    // Tidy up (so the rounds don't leave threads behind)
    scheduler.despawn_threads_if_overloaded();

    (owned, ran_in_background)
}

#[test]
fn no_pool_threads_with_a_maximum_of_zero() {
    let (done_send, done_recv) = mpsc::channel();

    thread::spawn(move || {
        let mut worst_owned         = 0;
        let mut ran_in_background   = 0;

        for iteration in 0..ITERATIONS {
            // Vary when the configuration happens relative to the queue creation
            let configure_delay     = Duration::from_micros(((iteration % 10) * 4) as u64);
            let (owned, background) = one_round(configure_delay);

            worst_owned = worst_owned.max(owned);
            if background { ran_in_background += 1; }
        }

        done_send.send((worst_owned, ran_in_background)).ok();
    });

    // Watchdog: the whole scenario takes a few seconds at most
    let (worst_owned, ran_in_background) = done_recv.recv_timeout(Duration::from_secs(25)).expect("Scenario did not finish in time");

    assert!(worst_owned == 0 && ran_in_background == 0, 
        "With a maximum of 0 the scheduler owned {} pool thread(s) and in {} of {} rounds the job ran in the background", 
        worst_owned, ran_in_background, ITERATIONS);
}
