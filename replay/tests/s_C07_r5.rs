//
// Demonstration for C07: the operation behind a `future_desync` future must run to completion even if the future
// is dropped after it has been polled (given at least one pool thread), and later futures on the same queue must
// still resolve.
//
// Scenario (pool size 1):
//   * the single pool thread is kept busy by a blocking job on another queue, so the future's own queue sits in
//     the 'Pending' state and the first poll of the future claims it and drains it on the polling thread
//   * while it runs on the polling thread, the operation lets the pool thread finish and go dormant (the pool thread
//     throws away the stale schedule entry for our queue as it's already running), then it yields once: it wakes
//     its own waker and returns Pending
//   * the polling task drops the future instead of polling it again
//
// The wake-up that arrived while the job was being polled must hand the queue over to the pool thread.
//
extern crate desync;
extern crate futures;

use desync::scheduler::*;

use futures::prelude::*;
use futures::executor;
use futures::task;
use futures::task::{ArcWake, Context, Poll};

use std::pin::Pin;
use std::sync::*;
use std::sync::atomic::{AtomicBool, AtomicUsize, Ordering};
use std::sync::mpsc;
use std::thread;
use std::time::{Duration, Instant};

/// Future that returns pending once, waking its own waker straight away (like a `yield_now()`)
struct YieldOnce(bool);

impl Future for YieldOnce {
    type Output = ();

    fn poll(mut self: Pin<&mut Self>, context: &mut Context) -> Poll<()> {
        if self.0 {
            Poll::Ready(())
        } else {
            self.0 = true;
            context.waker().wake_by_ref();
            Poll::Pending
        }
    }
}

/// Waker that just counts how often it was woken
struct CountWaker(AtomicUsize);

impl ArcWake for CountWaker {
    fn wake_by_ref(arc_self: &Arc<Self>) {
        arc_self.0.fetch_add(1, Ordering::SeqCst);
    }
}

/// Waits until a condition becomes true (or the timeout expires), returns the final value of the condition
fn wait_for<F: Fn() -> bool>(condition: F, timeout: Duration) -> bool {
    let start = Instant::now();
    while !condition() {
        if Instant::now().duration_since(start) > timeout { return condition(); }
        thread::sleep(Duration::from_millis(2));
    }
    true
}

#[test]
fn operation_completes_after_polled_future_is_dropped() {
    // Scheduler with a single pool thread
    let scheduler   = Arc::new(Scheduler::new());
    scheduler.set_max_threads(1);
    scheduler.despawn_threads_if_overloaded();

    let busy_queue  = scheduler.create_job_queue();
    let queue       = scheduler.create_job_queue();

    // Occupy the pool thread with a job that blocks until it's released
    let (started_tx, started_rx)    = mpsc::channel::<()>();
    let (release_tx, release_rx)    = mpsc::channel::<()>();
    let (finished_tx, finished_rx)  = mpsc::channel::<()>();

    scheduler.desync(&busy_queue, move || {
        started_tx.send(()).ok();
        release_rx.recv_timeout(Duration::from_secs(10)).ok();
        finished_tx.send(()).ok();
    });
    started_rx.recv_timeout(Duration::from_secs(10)).expect("Pool thread should start the blocking job");

    // Schedule the operation. The pool thread is busy, so it stays queued until the future is polled
    let done            = Arc::new(AtomicBool::new(false));
    let op_done         = Arc::clone(&done);
    let op_scheduler    = Arc::clone(&scheduler);

    let mut future      = scheduler.future_desync(&queue, move || async move {
        // (Runs on the polling thread) Let the pool thread finish its job...
        release_tx.send(()).ok();
        finished_rx.recv_timeout(Duration::from_secs(10)).ok();

        // ... and wait for it to go dormant with nothing left in the schedule
        wait_for(|| {
            let state = format!("{:?}", op_scheduler);
            state.starts_with("I") && state.contains("Pending queue count: 0")
        }, Duration::from_secs(5));
        thread::sleep(Duration::from_millis(20));

        // Yield: wakes the waker we were polled with and returns pending
        YieldOnce(false).await;

        op_done.store(true, Ordering::SeqCst);
        42
    });

    assert!(format!("{:?}", queue).contains("State: Pending"), "Queue should be waiting for a thread: {:?}", queue);

    // Poll the future once: it claims the queue and runs the operation up to the yield
    let waker       = Arc::new(CountWaker(AtomicUsize::new(0)));
    let waker_ref   = task::waker_ref(&waker);
    let mut context = Context::from_waker(&waker_ref);

    let first_poll  = Pin::new(&mut future).poll(&mut context);
    match first_poll {
        Poll::Ready(val)    => { assert!(val == Ok(42)); assert!(done.load(Ordering::SeqCst)); }
        Poll::Pending       => { }
    }

    // The task was told it can make progress
    assert!(wait_for(|| waker.0.load(Ordering::SeqCst) > 0 || done.load(Ordering::SeqCst), Duration::from_secs(2)), "Polling task was never woken");

    // ... but drops the future instead of polling it again
    drop(future);

    // The operation must still run to completion on the pool thread
    let completed = wait_for(|| done.load(Ordering::SeqCst), Duration::from_secs(3));
    assert!(completed, "Operation never completed after its future was dropped. Queue: {:?}, scheduler: {:?}", queue, scheduler);

    // A later future on the same queue resolves too
    let (result_tx, result_rx)  = mpsc::channel();
    let next_future             = scheduler.future_desync(&queue, move || async move { 7 });
    thread::spawn(move || { result_tx.send(executor::block_on(next_future)).ok(); });

    let next_result = result_rx.recv_timeout(Duration::from_secs(3));
    assert!(next_result == Ok(Ok(7)), "Later future on the same queue did not resolve: {:?}, queue: {:?}", next_result, queue);
}
