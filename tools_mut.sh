#!/bin/bash
# usage: tools_mut.sh <file-rel> <python-expr-old> <new>   (applies a textual mutation in a scratch worktree and runs verus on the units)
WT=/tmp/wtm
git -C /repo worktree remove --force $WT 2>/dev/null
git -C /repo worktree add -q $WT HEAD
python3 - "$WT/$1" "$2" "$3" <<'PY'
import sys
p,old,new=sys.argv[1:4]
s=open(p).read()
assert s.count(old)>=1, "pattern not found"
open(p,'w').write(s.replace(old,new,1))
PY
shift 3
cd /verif
for P in "$@"; do ./check $P --repo $WT 2>&1 | grep -E "^(OK|VIOLATION|UNDECIDED|  obligation)"; done
git -C /repo worktree remove --force $WT
