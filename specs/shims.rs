// ---------------------------------------------------------------------------------------------
// SHIMS shared by all units: opaque stand-ins for std / futures types.  Every external_body here is
// an assumption about code outside the repository (A1, A5, A6) and is listed in evidence.
// ---------------------------------------------------------------------------------------------
verus! {

/// std combinators that vstd has no specification for (their documented behaviour; trusted)
#[verifier::allow(undeclared_external_trait)]
pub assume_specification<T, E>[Result::<T, E>::unwrap_or](r: Result<T, E>, d: T) -> (o: T)
    where E: std::marker::Destruct, T: std::marker::Destruct
    ensures o == (match r { Ok(v) => v, Err(_) => d });

// ---- shims local to this unit (assumptions; listed in evidence) ----
pub tracked struct PanicCtx { pub ghost asked: bool, pub ghost value: bool }
pub struct Thread { pub _p: () }
pub struct Waker { pub id: Ghost<int> }
pub type WakerRef = Waker;
pub struct WakeThread(pub Arc<JobQueue>, pub Thread);
pub struct WakeQueue(pub Arc<JobQueue>, pub Arc<SchedulerCore>);
/// a pool thread: the sending end of its job channel and the handle of its OS thread (both opaque std types; their methods are declared,
/// with their assumed contracts, in U-POOL where scheduler_thread.rs is verified)
pub struct JobSender { pub _p: () }
pub struct JoinHandle { pub _p: () }
pub struct SchedulerThread { pub jobs: JobSender, pub thread: JoinHandle }
pub type ThreadEntry = (Arc<LogMutex<bool>>, SchedulerThread);
pub struct SchedulerCore { pub schedule: Arc<Mutex<Schedule>>, pub threads: LogMutex<Vec<ThreadEntry>>, pub max_threads: LogMutex<usize> }
pub struct Scheduler { pub core: Arc<SchedulerCore> }

impl Thread {
    #[verifier::external_body]
    pub fn unpark(&self, Tracked(g): Tracked<&mut G>)
        ensures *final(g) == (G { q: QCtx { unparked: true, ..old(g).q }, ..*old(g) }),
    { unimplemented!() }
}
pub mod thread {
    use super::*;
    #[verifier::external_body]
    pub fn current() -> Thread { unimplemented!() }
    /// blocking primitive: never reachable from try_sync (C09); only by a holder that published WaitingForUnpark and whose LAST look at the
    /// state still saw WaitingForUnpark (a wake-up seen as Running or AwokenWhileRunning must end the wait, C06)
    #[verifier::external_body]
    pub fn park(Tracked(g): Tracked<&mut G>, Ghost(locks): Ghost<u64>)
        requires
            old(g).q.parked,                                  // OBL C04,C06 park_only_while_still_waiting_for_unpark
            locks == 0,                                       // OBL C04,C10 no_lock_held_while_blocking
            !old(g).q.nonblocking,                            // OBL C09 nonblocking
        ensures *final(g) == *old(g),
    { unimplemented!() }
    /// `thread::panicking()`: the ghost context records that the question was asked and what the answer was
    #[verifier::external_body]
    pub fn panicking(Tracked(pz): Tracked<&mut PanicCtx>) -> (r: bool)
        ensures final(pz).asked, final(pz).value == r,
    { unimplemented!() }
}
/// the waker `futures::task::waker(_ref)` builds from an `ArcWake` implementor: waking it runs that implementor's `wake_by_ref` (A6)
pub uninterp spec fn waker_for<W>(w: W) -> Waker;
pub mod task {
    use super::*;
    pub use super::{Waker, Context, Poll};
    /// the waker built from an `ArcWake` implementor; calling it runs the implementor's wake_by_ref (A6)
    #[verifier::external_body]
    pub fn waker_ref<W>(w: &Arc<W>) -> (r: WakerRef)
        ensures r == waker_for::<W>(**w),
    { unimplemented!() }
    #[verifier::external_body]
    pub fn waker<W>(w: Arc<W>) -> (r: Waker)
        ensures r == waker_for::<W>(*w),
    { unimplemented!() }
}
impl Context {
    #[verifier::external_body]
    pub fn from_waker(w: &Waker) -> (r: Context)
        ensures r.waker == *w,
    { unimplemented!() }
    pub fn waker(&self) -> (r: &Waker)
        ensures *r == self.waker,
    { &self.waker }
}
impl Waker {
    /// waking consumes the waker; the ghost wake log records it.  A waker is foreign code (it may poll the task inline or take
    /// the task's own locks): the scheduler's wakers must be called with none of its locks held (lexical lockset empty)
    #[verifier::external_body]
    pub fn wake(self, Tracked(w): Tracked<&mut WCtx>, Ghost(locks): Ghost<u64>)
        requires
            locks == 0,                                       // OBL C06,C07 waker_called_outside_critical_section
        ensures final(w).woken == old(w).woken.push(self), final(w).installed == old(w).installed,
    { unimplemented!() }
}
impl Clone for Waker {
    #[verifier::external_body]
    fn clone(&self) -> (r: Waker)
        ensures r == *self,
    { unimplemented!() }
}
#[verifier::allow(undeclared_external_trait)]
pub assume_specification<T, P: FnOnce(&T) -> bool>[Option::<T>::filter](o: Option<T>, p: P) -> (r: Option<T>)
    where T: std::marker::Destruct, P: std::marker::Destruct
    requires o matches Some(v) ==> p.requires((&v,)),
    ensures
        o is None ==> r is None,
        o matches Some(v) ==> (r == o || r is None),
        (o matches Some(v) && p.ensures((&v,), true)) ==> r == o,
        (o matches Some(v) && p.ensures((&v,), false)) ==> r is None;

/// a closure literal that has no directive of its own: constructing it has no effect; its body is unverified code (listed in evidence)
pub struct AnyClosure { pub _p: () }
#[verifier::external_body]
pub fn opaque_closure_value() -> AnyClosure { unimplemented!() }
pub assume_specification<T, A: core::alloc::Allocator>[VecDeque::<T, A>::is_empty](v: &VecDeque<T, A>) -> (r: bool)
    ensures r == (v@.len() == 0);

/// `drop(x)` / `mem::drop(x)` of a value that is not a lock guard: consumes the value (its destructor is outside the contract, as at scope end)
#[verifier::external_body]
pub fn drop_value__<T>(t: T) { }

/// R28: `X.drain(..)` consumed by `for_each`: every element is handed over, in order, and X is left empty
#[verifier::external_body]
pub fn take_all__<T>(v: &mut Vec<T>) -> (r: Vec<T>)
    ensures r@ == old(v)@, final(v)@.len() == 0,
{ unimplemented!() }

/// R24: an `async { .. }` block that is not lifted: a future value of whatever type the context needs; creating it has no effect
#[verifier::external_body]
pub fn opaque_async_value<T>() -> T { unimplemented!() }
pub mod oneshot {
    pub struct Canceled;
}

} // verus!
