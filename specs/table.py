# Property / unit tables used by /verif/check and /verif/mkmanifest.py
# (hand-written; the per-obligation attribution itself lives in the `// OBL <props> <name>` tags of the templates)

UNITS = {
    "u_queue": {"parts": ["prelude.rs", "shims.rs", "u_queue.tmpl"], "about": "queue core state machine, runners, wakers, sync family"},
    "u_pool": {"parts": ["prelude.rs", "shims.rs", "u_pool.tmpl"], "about": "thread pool: hand-off, spawn below maximum, reaping, despawning"},
    "u_pipe": {"parts": ["prelude.rs", "shims.rs", "u_pipe.tmpl"], "about": "pipe_in / pipe producer bodies, PipeStream, pipe wakers"},
    "u_desync": {"parts": ["prelude.rs", "shims.rs", "u_desync.tmpl"], "about": "Desync<T> wrapper methods and Drop"},
    "u_meta": {"parts": ["prelude.rs", "shims.rs", "u_meta.tmpl"], "about": "meta-lemmas over the protocol spec functions (no extracted code)"},
    "u_fut": {"parts": ["prelude.rs", "shims.rs", "u_fut.tmpl"], "about": "result slot, drain/double wakers, SchedulerFuture, SyncFuture, jobs"},
    "u_fwd": {"parts": ["prelude.rs", "shims.rs", "u_fwd.tmpl"], "about": "crate-level entry points (desync, sync, try_sync, future_desync, future_sync, queue, deprecated aliases) and create_job_queue: one call on the global scheduler each"},
}

# S-cover: every lock()/try_lock() in these files must lie inside a function (or lifted closure) under contract,
# except Debug impls (read-only) and the explicitly exempted, unverified functions below (reported in evidence)
PROTECTED_LOCKS = [("src/", None)]
LOCK_ALLOW_FNS = ["fmt"]   # Debug impls: read-only, not part of any property
LOCK_FILES = [
    "src/scheduler/job_queue.rs", "src/scheduler/core.rs", "src/scheduler/desync_scheduler.rs", "src/scheduler/wake_queue.rs",
    "src/scheduler/wake_thread.rs", "src/scheduler/active_queue.rs", "src/scheduler/scheduler_future.rs",
    "src/scheduler/unsafe_job.rs", "src/scheduler/sync_future.rs", "src/scheduler/future_job.rs", "src/scheduler/job.rs",
    "src/scheduler/scheduler_thread.rs", "src/pipe.rs", "src/desync.rs",
]
# which units' rely conditions a lock site outside every contract would undermine: (file prefix, lock key or None) -> units.
# First match wins; a site that matches nothing undermines every unit.
LOCK_SITE_UNITS = [
    ("src/pipe.rs", None, ["u_pipe"]),
    ("src/desync.rs", None, ["u_desync"]),
    ("src/scheduler/", "core", ["u_queue", "u_fut"]),
    ("src/scheduler/", "schedule", ["u_queue", "u_pool"]),
    ("src/scheduler/", "threads", ["u_pool"]), ("src/scheduler/", "max_threads", ["u_pool"]), ("src/scheduler/", "busy", ["u_pool"]),
    ("src/scheduler/", "busy_rc", ["u_pool"]), ("src/scheduler/", "also_busy", ["u_pool"]), ("src/scheduler/", "is_busy", ["u_pool"]),
    ("src/scheduler/", "result", ["u_queue", "u_fut"]), ("src/scheduler/", "state", ["u_fut"]), ("src/scheduler/", "0", ["u_queue", "u_fut"]),
    ("src/scheduler/", "ready_mutex", ["u_queue"]), ("src/scheduler/", "is_finished", ["u_queue"]),
    ("src/scheduler/", None, ["u_queue", "u_pool", "u_fut"]),      # a lock of the scheduler under a name not seen before: not the pipe / Desync wrappers
]
# functions whose lock sites are knowingly outside every contract (listed as unverified in evidence)
LOCK_PENDING_FNS = []

# S-unsafe: the complete list of `unsafe` sites: (file, enclosing fn, closure depth, call the closure is passed to, text)
UNSAFE_SITES = [
    ("src/desync.rs", "<impl>", 0, "", "unsafe impl<T: Send> Send for Desync<T> {}"),
    ("src/desync.rs", "<impl>", 0, "", "unsafe impl<T: Send> Sync for Desync<T> {}"),
    ("src/desync.rs", "<impl>", 0, "", "unsafe impl<T: Send> Send for DataRef<T> {}"),
    ("src/desync.rs", "desync", 1, "desync", "unsafe { &mut *data }"),
    ("src/desync.rs", "sync", 1, "sync", "unsafe { &mut *data }"),
    ("src/desync.rs", "try_sync", 1, "try_sync", "unsafe { &mut *data }"),
    ("src/desync.rs", "future_desync", 1, "future_desync", "unsafe { &mut *data }"),
    ("src/desync.rs", "future_sync", 1, "future_sync", "unsafe { &mut *data }"),
    ("src/desync.rs", "drop", 1, "sync_no_panic", "unsafe { Box::from_raw(data) }"),
    ("src/desync.rs", "drop", 1, "sync", "unsafe { Box::from_raw(data) }"),
    ("src/scheduler/unsafe_job.rs", "<impl>", 0, "", "unsafe impl Send for UnsafeJob {}"),
    ("src/scheduler/unsafe_job.rs", "run", 0, "", "unsafe { (*self.action).run(context) }"),
    ("src/scheduler/desync_scheduler.rs", "sync_drain", 0, "", "unsafe { UnsafeJob::new(&mut *result_job) }"),
    ("src/scheduler/desync_scheduler.rs", "sync_background", 0, "", "unsafe { UnsafeJob::new_with_notification(&mut *job, Arc::clone(&wakeup), Arc::clone(&ready)) }"),
]
UNSAFE_FILES = LOCK_FILES + ["src/scheduler/queue_state.rs", "src/scheduler/queue_resumer.rs", "src/scheduler/try_sync_error.rs", "src/scheduler/mod.rs", "src/lib.rs"]
UNSAFE_PROPS = ["C01", "C05", "C14"]

# S-pin: functions of /repo that are NOT under contract (threads, channels, raw pointers, trivial forwarders: outside the verifier's dialect
# or not worth a contract) but whose behaviour the contracts of other functions ASSUME. Their text is fingerprinted in specs/pins.json
# (tools/pin.py, run by hand after reading them); if one of them changes, the properties that lean on it are UNDECIDED - never OK, never
# a VIOLATION: (file, qualified fn, properties, what is assumed)
_API = ["C01", "C02", "C04", "C05", "C07", "C08", "C09"]
PINNED = [
    ("src/scheduler/queue_state.rs", "FutureId::new", ["C07", "C08", "C13"], "process-wide unique ids"),
    ("src/scheduler/desync_scheduler.rs", "initial_max_threads", ["C17"], "a positive constant / cpu count"),
    ("src/scheduler/desync_scheduler.rs", "scheduler", _API, "the one global scheduler"),
]

ASSUMPTIONS = [
    "A1 std::sync::Mutex gives mutual exclusion: a critical section is atomic w.r.t. others on the same mutex",
    "A2 no lock poisoning: lock() always returns Ok (expect/unwrap on a lock result never fails)",
    "A3 Verus 0.2026.09.13 + bundled z3 + rustc are sound; vstd specs of VecDeque/Vec/Option/Result/Box/Arc",
    "A4 futures wake the most recently supplied waker (Future contract)",
    "A5 user closures/futures/streams are external; calls back into the API are modelled as other-thread interference",
    "A6 rustc's async lowering; futures::channel::oneshot/mpsc, task::waker(_ref), ArcWake behave as documented",
    "A7 the iterator-adapter statements replaced by named external functions (//@REPLACE) do what their stated contracts say",
    "A8 Rust ownership/drop semantics (a local Box is dropped at scope end; last Arc drops the value; fields drop in declaration order)",
    "A9 machine integers: usize lengths / u64 ids only; no arithmetic treated as mathematical except where an overflow obligation is generated by Verus",
    "A10 rely condition: the lock shim's `learn`/`step` postcondition is justified by every lock site on a protected structure being inside a verified function (S-cover, checked every run) and by the meta-lemmas of U-META; interleavings are over-approximated, not enumerated",
    "A11 liveness is not proved: 'eventually runs / returns / is woken' is reduced to the safety obligations P1-P4 of DESIGN.md section 3.6 (no leaked run token, no unpaid reschedule debt, no lost notification pair, no blocking with a lock held) under a fair OS scheduler",
    "A13 the functions listed in specs/table.py PINNED are not under contract; their assumed behaviour is stated there and their text is fingerprinted (S-pin): a change to one of them makes the properties that lean on it UNDECIDED",
    "A14 a send on a pool thread's job channel does not fail: `SchedulerThread::run` is only called for a thread whose busy flag was seen false under its lock, and such a thread is blocked in `recv` (it runs no user code that could panic and close the channel)",
    "A12 signatures of functions under contract are re-declared in the templates with shim types; the extractor checks parameter names/arity against the repository; bodies are verbatim up to the rewrites R1-R14 listed in DESIGN.md section 2.1",
]

# obligation name -> real-crate replay tests (cargo test --test <name> in /verif/replay, built with --cfg desync_verif)
REPLAYS = {
    "trysync_no_token_leak": ["d1_try_sync"],
    "trysync_busy_leaves_core_unchanged": ["d1_try_sync"],
    "runner_is_guarded": ["d2_steal_guard"],
    "Scheduler::sync_background": ["d2_steal_guard"],
    "handoff_or_all_busy": ["d3_dormant_window"],
    "SchedulerCore::schedule_dormant": ["d3_dormant_window"],
    "register_only_if_open": ["d4_pipe_drop_window"],
}

# BOUNDED stand-ins (never counted as proved): real-crate tests that are run when the named function cannot be brought within the
# verifier's reach on the tree under test (its text left the dialect). function (as named in //@BODY) -> (tests, properties the stand-in speaks for, stated bound)
BOUNDED = {
    "SchedulerCore::reschedule_queue": [(["b_waiters"], ["C04"], "blocked sync callers k=1..4, pool size 0 and a saturated pool of 1 (8 cases): every caller must return after the runner hands the queue back"),
                                        (["b_resched_poll"], ["C03", "C06", "C07"], "pool sizes 1..3, a queue left WaitingForPoll by a polling future that is then {dropped, kept but never polled again} (6 cases): when the parked job is woken a pool thread must run it")],
    "SchedulerCore::claim_pending_queue": (["b_claim"], ["C03", "C10"], "1..3 other queues Pending in the schedule, pool of 1 busy thread (3 cases): after a blocked sync caller claims its queue the other queues must still be served"),
    "SchedulerFuture::sync": (["b_future_sync"], ["C07"], "calling contexts {plain thread, pool job, job run by a polling task with pool 0, same with a saturated pool of 1} x {operation pending, operation finished} (8 cases): .sync() returns Ok(value)"),
    "SchedulerCore::remove_finished_threads": [(["b_reap"], ["C10", "C15"], "pool of 4 threads, every non-empty proper subset killed by panicking jobs (14 cases): a job on a fresh object must run while the live threads stay blocked"),
                                               (["b_reap_max"], ["C17"], "pools of 1..3 threads, 1..k of them killed by panicking jobs, then the maximum lowered to 0 (6 cases): no scheduling call may leave a live thread in the pool and the dead ones disappear")],
}

_NOTE = ("Safety content proved for all queue states, queue contents and lengths, future ids and thread counts; thread interleavings are "
         "over-approximated by the rely condition at every lock() (A1, A10), not enumerated. Trusted: the shims for std/futures (A5, A6), the "
         "statement rewrites listed in trusted_base (A7, A12), the 3 functions outside every contract whose assumed behaviour is stated in specs/table.py PINNED "
         "and whose text is fingerprinted (S-pin, A13: initial_max_threads, the lazy_static behind scheduler(), the atomic counter of FutureId::new), Verus/z3 (A3). ")
_LIVE = "The liveness half ('eventually runs / returns / is woken') is NOT proved; it is reduced to the safety obligations P1-P4 of DESIGN.md 3.6 (A11). "


def _p(ref, technique, how, note):
    return {"design_ref": ref, "technique": technique, "how": how, "level_note": note}


_T = "Verus (deductive, modular) on bodies extracted from /repo each run; ghost run-token / section-log protocol; "
PROPS = {
    "C01": _p("DESIGN.md 7/C01", _T + "rely-guarantee lemma L-ind for the single run token",
              "Every place that enters an operation (job.run in drain, run_one_job_now, drain_queue; job() in sync_immediate) has the proved precondition 'this thread holds the queue's run token, owns the popped job, is not parked'. Tokens are created only by an acquire section from a free state; L-ind proves at most one token exists; a pending job can only be pushed back at the front by the holder before the token is released (suspended span); SyncFuture::poll creates/polls the user future only inside its slot; the unsafe derefs stay inside queued closures (S-unsafe).",
              _NOTE + "Soundness of `unsafe impl Send/Sync` given exclusivity is the reader's conclusion, not a proof about rustc's aliasing model."),
    "C02": _p("DESIGN.md 7/C02", _T + "FIFO view contracts on every queue mutation + L-fifo / L-open",
              "Every scheduling path performs exactly one append-at-back section before returning (schedule_job_desync, sync_drain, sync_background; skeletons of desync/future_desync/future_sync/after/suspend and the Desync wrappers); the immediate path requires 'was Idle AND empty'; dequeue pops the front; requeue pushes the popped job back at the front; L-fifo/L-open show no other queue effect is possible.",
              _NOTE + "The real-time-order statement is the composition of these per-call facts (the append lies inside the call interval)."),
    "C03": _p("DESIGN.md 7/C03", _T + "reschedule-debt ghost + pool hand-off contract",
              "At most once: Job::run / FutureJob::run / wrap_fnonce take their closure (second run panics); no job is lost or duplicated by any section (v_conserve). Not stranded, as safety: every API function returns without the run token (P1) and with its reschedule debt paid (P2: whoever leaves the queue free and non-empty has pushed it on the schedule and called schedule_thread); schedule_thread gives up only after seeing every pool thread busy under its busy lock with the pool at its maximum; the pool loop clears busy only in the section whose fetch was empty (P4); a pool thread's OS loop runs every job it receives once, in order, leaves only when its channel is closed and never catches a job's panic; Job::new / FutureJob::new hold what run consumes.",
              _NOTE + _LIVE + "The mpsc hand-over inside SchedulerThread and OS scheduling are assumed."),
    "C04": _p("DESIGN.md 7/C04", _T + "strategy-selection contract of sync + callee preconditions",
              "sync's decision section: Immediate only from Idle-and-empty, drain/background append the caller's job exactly once, a Panicked queue is refused; sync_immediate returns the closure's own value (job.ensures); sync_drain/sync_background exit only with their result / ready flag, release the token and pay the debt; the steal branch is a proper acquire..release under a panic guard; UnsafeJob::drop publishes `ready` under its mutex and then notifies; no lock is held while blocking; at every hand-back of a queue every blocked sync caller that is still waiting is notified (reschedule_notifies_every_live_waiter); the crate-level `sync` makes exactly one Scheduler::sync call on the global scheduler and returns its value; the lifetime-erased job designates the borrowed job and runs it once per run.",
              _NOTE + _LIVE + "The value link through the two boxed closures (3 lines each) is assumed and listed in trusted_base."),
    "C05": _p("DESIGN.md 7/C05", _T + "corollary: Drop skeleton + S-unsafe + C02/C04 contracts",
              "Drop for Desync performs exactly one synchronous scheduling call (sync, or sync_no_panic while unwinding); both Box::from_raw sites are inside the closures passed to those calls (S-unsafe); sync runs its closure once, ordered after everything appended before (C02/C04 contracts); pipes reach their target only through Weak::upgrade and dispose of late references on the chute.",
              _NOTE + "Corollary over other contracts rather than a separate proof; drop from inside an own operation is excluded by the property."),
    "C06": _p("DESIGN.md 7/C06", _T + "waker x state transition tables + L-drainwaker / L-notify",
              "WakeQueue/WakeThread::wake_by_ref satisfy their transition tables for every state (WaitingForWake->Idle + reschedule, Running->AwokenWhileRunning, WaitingForUnpark->Running + unpark); runners may park only from Running and must consume AwokenWhileRunning (v_wake); run_one_job_now re-checks the state around park; drain_queue stores the task waker before publishing WaitingForPoll and installs a waker in the DrainWaker on every parked exit; DrainWaker/DoubleWaker contracts + L-drainwaker: a racing wake is delivered exactly once.",
              _NOTE + _LIVE + "Assumes futures wake the most recently supplied waker (A4)."),
    "C07": _p("DESIGN.md 7/C07", _T + "result-slot log protocol + L-notify",
              "FutureResultState::take moves the value out exactly once; signal / Signaller::drop set the result and take the waker in one section and wake after unlocking; poll returns Pending only with the task's waker stored in its last slot section, Ready(v) only with v taken from the slot; the job bodies of future_desync/after signal exactly once, last, after the user future completed; the job is owned by the queue (one append at call time); .sync() returns the slot value.",
              _NOTE + _LIVE),
    "C08": _p("DESIGN.md 7/C08", _T + "ghost slot protocol on SyncFuture::poll + slot-job sequence",
              "SyncFuture::poll is verified whole: the user future is created and polled only after queue_ready was received and before task_finished is sent; task_finished is sent only once the user future completed (or was never created); Ok(v) only after the scheduler future reported the slot job finished; the slot job sends queue_ready, awaits done, then signals; the slot is reserved by an append at call time.",
              _NOTE + "Drop-order (user future before sender) is Rust field order (A8), checked structurally by the struct layout in the template only."),
    "C09": _p("DESIGN.md 7/C09", _T + "decision contract of try_sync + nonblocking ghost flag",
              "try_sync's decision section is verified for all queue states and lengths: Busy leaves the core unchanged, Immediate iff Idle and empty, the run token and the reschedule debt are gone on return, the closure is entered only on the Ok path and its value returned, and no blocking primitive (park, Condvar::wait, drain, run_one_job_now) is reachable because each requires the nonblocking flag to be false.",
              _NOTE + "'every operation already queued still completes' is reduced to 'core unchanged + no token/debt leaked' (A11)."),
    "C10": _p("DESIGN.md 7/C10", _T + "lexical lockset computed by the extractor as ghost arguments + hand-off contract",
              "Every job.run / job() / blocking call (park, Condvar::wait, join) carries the lexical set of lock guards live at that point as a ghost argument that is required to be empty (wait: exactly its own mutex); schedule_dormant hands the work to the first non-busy thread or reports that all were busy; schedule_thread spawns below the maximum; next_to_run skips only queues that were not ready; the pool loop runs jobs outside the busy section.",
              _NOTE + _LIVE + "Guards bound in patterns other than `let x = ...lock()...` / `if let Ok(x) = ...lock()` are not tracked (none exist today)."),
    "C11": _p("DESIGN.md 7/C11", _T + "loop invariant over a ghost input sequence on the lifted pipe_in poll body",
              "The lifted body of pipe_in's poll closure keeps 'items handed to the processing function == prefix of the stream, in order', awaits each processing future before taking the next item, returns true only after a Pending poll that registered the waker and false only after the stream ended; PipeWaker is one-shot (context taken); PipeContext holds a Weak reference and either schedules one poll job or disposes of the poll function on the chute; the job clears poll_fn when the body says stop; pipe_in ends with a sync on the target.",
              _NOTE + "Exclusivity of the processing calls is C01 (the body runs as a future_desync job) - used, not re-proved."),
    "C12": _p("DESIGN.md 7/C12", _T + "producer loop + poll_next table contracts + L-notify",
              "Producer: inputs are taken in order, each output is proc(item) pushed at the back with the consumer's waker taken in the same section; end of input sets closed and takes the waker in one section; the fullness check registers the back-pressure waker in the section that saw the buffer full. Consumer poll_next, for every core value: front item in order / None only when closed and empty / Pending with its waker stored in the same section; every non-final poll releases and wakes a throttled producer. L-notify gives no lost wake-up for the three handshakes.",
              _NOTE + _LIVE + "Contracts hold for every max_pipe_depth, not only 1..5."),
    "C13": _p("DESIGN.md 7/C13", _T + "corollary: suspend skeleton/job contracts + L-open/L-fifo",
              "suspend schedules exactly one future job; that job signals the resumer and then returns the receiver paired with the resumer's sender as its future; QueueResumer::resume sends on that channel; while the job is open L-open shows nothing behind it can start and L-fifo that everything before it finished; sync during suspension takes the Wait or Drain path, never Immediate.",
              _NOTE + "Corollary over C01/C02 contracts; a dropped sender resolving the receiver is oneshot's documented behaviour (A6)."),
    "C14": _p("DESIGN.md 7/C14", _T + "ownership protocol of the lifetime-erasing sites + S-unsafe",
              "Protocol-level only: the erased job pointer is used only by a token holder (run_requires_token); sync_background leaves its wait loop only with `ready` observed true, which only UnsafeJob::drop sets (after the job ran); sync_drain exits only with its result and releases after running; Drop syncs exactly once before freeing; every unsafe expression of the crate is one of 14 listed sites inside the closure passed to its scheduling call.",
              _NOTE + "NOT a memory-safety proof of the unsafe code: no sanitizer is run, Verus does not look inside unsafe blocks or Drop glue, the transmute of the trait-object lifetime and the aliasing model are outside this family's reach."),
    "C15": _p("DESIGN.md 7/C15", _T + "guard-presence precondition on every runner + refuse-Panicked decision contracts",
              "job.run / job() require a live ActiveQueue guard on the runner (drain, sync_immediate, sync_drain, sync_background steal branch, drain_queue); the guard's drop marks the queue Panicked while unwinding; schedule_job_desync, sync, try_sync and SchedulerFuture::poll return normally only if the state they decided on was not Panicked; sync_no_panic reports it without panicking or touching the queue; Drop uses it while unwinding; remove_finished_threads leaves no finished thread and runs before the dormant search.",
              _NOTE + "Poisoned mutexes after a panic inside a critical section are out of scope (no user code runs inside one)."),
    "C16": _p("DESIGN.md 7/C16", _T + "Drop for PipeStream contract + producer registration contract + L-notify",
              "Drop for PipeStream: closed set, pending flushed, the producer's registered waker taken and woken, on_drop scheduled once on the chute; producer: stops when the core is gone or closed, and registers for 'stream dropped' only in a section that saw the stream still open (otherwise it must stop); the poll job clears poll_fn (stream + closure) when the body says stop; PipeContext::poll disposes of it when the target is gone.",
              _NOTE + "That clearing poll_fn frees stream and closure is Rust ownership (A8)."),
    "C17": _p("DESIGN.md 7/C17", _T + "contracts on the threads-vector sections + L-pool",
              "spawn_thread_if_less_than_maximum: decided under the threads lock, spawns iff len < max, adds exactly one entry, and SchedulerThread::new is reachable only with `len < max` established; despawn_threads_if_overloaded brings the vector down to the maximum keeping the first entries and joins outside the lock; remove_finished_threads only shrinks; set_max_threads stores the maximum first; L-pool: no section takes the pool above its maximum; max = 0 never spawns; a new scheduler owns no thread; create_job_queue does not touch the pool and the library never calls the public unconditional spawn_thread.",
              _NOTE + "Scheduler::spawn_thread (public, deliberately unconditional) is outside the property; a maximum lowered concurrently with a spawn is excluded by the property ('between phases')."),
}

NOT_APPLICABLE = {}
