#![feature(allocator_api)]
// ---------------------------------------------------------------------------------------------
// PRELUDE (hand-written, never derived from the code): shim types + the ghost protocol of the
// queue core.  Everything marked external_body here is an ASSUMPTION and is listed in evidence.
// ---------------------------------------------------------------------------------------------
#![allow(unused_imports, unused_variables, unused_mut, dead_code, unused_assignments, non_snake_case, unreachable_code, unused_parens)]
use vstd::prelude::*;
use std::collections::VecDeque;
use std::sync::Arc;

verus! {

//@ITEM file=src/scheduler/queue_state.rs name=FutureId derive=Structural
//@ITEM file=src/scheduler/queue_state.rs name=QueueState derive=Structural,Eq

/// A job on a queue.  Its identity is a ghost id; what the job does is external (A5).
pub struct DynJob { pub id: Ghost<int> }
pub type BoxedJob = Box<DynJob>;

/// `Vec<Weak<Condvar>>`: the condition variables of blocked sync callers (contents matter to liveness only)
pub struct WeakCondvar { pub _p: () }
impl WeakCondvar {
    /// `Weak::strong_count`: 0 once the waiting `sync` call has returned (its Arc lives on that call's stack)
    pub uninterp spec fn spec_strong_count(&self) -> usize;
    #[verifier::when_used_as_spec(spec_strong_count)]
    #[verifier::external_body]
    pub fn strong_count(&self) -> (r: usize)
        ensures r == self.spec_strong_count(),
    { unimplemented!() }
}
/// every waiter of `before` whose sync call is still waiting is still registered in `after`
pub open spec fn live_waiters_kept(before: Seq<WeakCondvar>, after: Seq<WeakCondvar>) -> bool {
    forall|j: int| 0 <= j < before.len() && (#[trigger] before[j]).spec_strong_count() > 0 ==> after.contains(before[j])
}
pub type WakeBlocked = Vec<WeakCondvar>;

pub struct JobQueueCore {
    pub queue: VecDeque<BoxedJob>,
    pub state: QueueState,
    pub wake_blocked: WakeBlocked,
}

pub enum Poll<T> { Ready(T), Pending }
impl<T> Poll<T> {
    pub fn is_pending(&self) -> (r: bool) ensures r == (*self is Pending), { match self { Poll::Pending => true, _ => false } }
    pub fn is_ready(&self) -> (r: bool) ensures r == (*self is Ready), { match self { Poll::Ready(_) => true, _ => false } }
}
pub enum JobStatus { NoJobsWaiting, Finished }

// ------------------------------------------------------------------ ghost protocol (DESIGN §3.2)

pub open spec fn held(s: QueueState) -> bool {
    s is Running || s is AwokenWhileRunning || s is WaitingForUnpark
}
pub open spec fn free(s: QueueState) -> bool {
    s is Idle || s is Pending || s is WaitingForPoll
}
pub open spec fn active(s: QueueState) -> bool { s is Running || s is AwokenWhileRunning }

/// One critical section on a queue core, as seen by the ghost log
pub ghost struct Sec { pub a: QueueState, pub b: QueueState, pub alen: nat, pub blen: nat, pub qsame: bool, pub appended: Option<BoxedJob>, pub waiters_kept: bool,
                       pub wb: Seq<WeakCondvar> /* the blocked sync callers registered when the section began */ }

/// Per-thread, per-queue ghost context
pub tracked struct QCtx {
    pub ghost holds: bool,          // this thread owns the queue's run token
    pub ghost parked: bool,         // holder published WaitingForUnpark and has not seen Running/Awoken since
    pub ghost current: Option<BoxedJob>, // job popped by this thread, neither finished nor pushed back
    pub ghost debt_idle: bool,      // this thread left the queue Idle and non-empty
    pub ghost debt_pending: bool,   // this thread made the queue Pending and has not yet pushed+kicked
    pub ghost latching: bool,       // jobs are polled with a DrainWaker (wake memory lives outside the state)
    pub ghost latch_parked: bool,   // this thread parked the queue (WaitingForWake / WaitingForPoll) while latching
    pub ghost poll_parked: bool,    // this thread parked the queue as WaitingForPoll (owned by a polling future)
    pub ghost nonblocking: bool,    // try_sync: no blocking primitive may be reached
    pub ghost unparked: bool,       // WakeThread: unpark() was called
    pub ghost ran: nat,             // number of times a job / closure was entered by this thread
    pub ghost appends: nat,         // number of append sections performed by this thread
    pub ghost kicks: nat,           // number of times this thread pushed the queue on the schedule and then called schedule_thread
    pub ghost log: Seq<Sec>,
    pub ghost v_order: bool,        // every queue effect so far kept the FIFO discipline
    pub ghost v_conserve: bool,     // ... and neither lost nor duplicated a job
    pub ghost v_take: bool,         // as a non-holder, this thread only ever took the run token from a free state and never changed a held state
    pub ghost v_hand: bool,         // as the holder, this thread never gave the queue up while a popped job was still in its hand
    pub ghost v_give: bool,         // as the holder, this thread only parked / released the queue the permitted ways (and never with a job in hand)
    pub ghost v_wake: bool,         // no section parked the queue over a remembered wake-up
}

pub open spec fn valid(c: QCtx) -> bool { c.v_order && c.v_conserve && c.v_take && c.v_hand && c.v_give && c.v_wake }

/// the context of a thread that is not involved with the queue
pub open spec fn fresh(c: QCtx) -> bool {
    !c.holds && !c.parked && c.current is None && !c.debt_idle && !c.debt_pending && !c.latching && !c.latch_parked && !c.poll_parked
    && !c.unparked && c.ran == 0 && c.appends == 0 && c.kicks == 0 && c.log.len() == 0 && valid(c)
}
pub open spec fn log_extends(new: Seq<Sec>, old: Seq<Sec>) -> bool {
    old.len() <= new.len() && forall|i: int| 0 <= i < old.len() ==> new[i] == old[i]
}
/// frame: what every function under contract preserves of the caller's context
pub open spec fn kept(n: QCtx, o: QCtx) -> bool {
    n.nonblocking == o.nonblocking && n.latching == o.latching && n.latch_parked == o.latch_parked && n.poll_parked == o.poll_parked && log_extends(n.log, o.log)
    && n.appends >= o.appends && n.ran >= o.ran && n.kicks >= o.kicks
}
pub open spec fn kept_counts(n: QCtx, o: QCtx) -> bool { kept(n, o) && n.appends == o.appends && n.ran == o.ran && n.unparked == o.unparked }
/// effect of schedule_thread on the caller's queue context: a push followed by the call pays the pending debt and counts as a kick
pub open spec fn after_schedule_thread(o: QCtx, appended: nat) -> QCtx {
    if appended == 0 { o } else { QCtx { debt_pending: false, kicks: o.kicks + 1, ..o } }
}
/// a thread that neither owns the queue nor owes it anything
pub open spec fn outsider(c: QCtx) -> bool { !c.holds && !c.parked && c.current is None && paid(c) && valid(c) && !c.latching && !c.latch_parked && !c.poll_parked }
/// the first critical section a function performed on the queue core
pub open spec fn first_sec(new: QCtx, old: QCtx) -> Sec { new.log[old.log.len() as int] }
pub open spec fn paid(c: QCtx) -> bool { !c.debt_idle && !c.debt_pending }

pub open spec fn is_append(a: Seq<BoxedJob>, b: Seq<BoxedJob>) -> bool { b.len() == a.len() + 1 && b.drop_last() =~= a }
pub open spec fn is_pop(a: Seq<BoxedJob>, b: Seq<BoxedJob>) -> bool { a.len() > 0 && b =~= a.skip(1) }
pub open spec fn is_push_front(a: Seq<BoxedJob>, b: Seq<BoxedJob>, j: BoxedJob) -> bool { b =~= seq![j] + a }

/// what a locker may assume about the core it sees (the interference of all other threads)
pub open spec fn learn(c: QCtx, a: JobQueueCore) -> bool {
    &&& c.holds ==> held(a.state)
    &&& c.holds && !c.parked ==> active(a.state)
}

pub open spec fn step_queue(c: QCtx, a: JobQueueCore, b: JobQueueCore) -> QCtx {
    let qa = a.queue@; let qb = b.queue@;
    if qb =~= qa { c }
    else if c.holds && c.current is Some && is_push_front(qa, qb, c.current->0) { QCtx { current: None, ..c } }
    // putting the job in hand back anywhere but at the front reorders it behind later operations
    else if is_append(qa, qb) { if c.holds && c.current == Some(qb.last()) { QCtx { v_order: false, current: None, ..c } } else { c } }
    else if c.holds && c.current is None && active(a.state) && is_pop(qa, qb) { QCtx { current: Some(qa[0]), ..c } }
    else if qb.len() == qa.len() || qb.len() == qa.len() + 1 { QCtx { v_order: false, ..c } }
    else { QCtx { v_order: false, v_conserve: false, ..c } }
}

pub open spec fn step_state(c: QCtx, a: JobQueueCore, b: JobQueueCore) -> QCtx {
    let s = a.state; let t = b.state;
    let c = if c.holds && active(s) { QCtx { parked: false, ..c } } else { c };
    if s == t { c }
    else if !c.holds {
        if free(s) && t is Running { QCtx { holds: true, parked: false, ..c } }
        else if s is Idle && t is Pending { c }
        else if s is WaitingForWake && t is Idle { c }
        else if s is Running && t is AwokenWhileRunning { c }
        else if s is WaitingForUnpark && t is Running { c }
        else { QCtx { v_take: false, ..c } }
    } else {
        if t is Panicked { QCtx { holds: false, ..c } }
        else if s is AwokenWhileRunning && t is Running { c }
        else if s is Running && t is WaitingForUnpark { QCtx { parked: true, ..c } }
        else if s is AwokenWhileRunning && (t is WaitingForUnpark || (t is WaitingForWake && !c.latching) || (t is WaitingForPoll && !c.latching)) { QCtx { v_wake: false, ..c } }
        else if c.current is Some && (t is Idle || t is WaitingForWake || t is WaitingForPoll) { QCtx { holds: false, v_hand: false, latch_parked: c.latching && !(t is Idle), poll_parked: c.latching && t is WaitingForPoll, ..c } }
        else if c.current is None && t is Idle { QCtx { holds: false, ..c } }
        else if c.current is None && t is WaitingForWake && (s is Running || c.latching) { QCtx { holds: false, latch_parked: c.latching, ..c } }
        else if c.current is None && t is WaitingForPoll && c.latching { QCtx { holds: false, latch_parked: true, poll_parked: true, ..c } }
        else { QCtx { v_give: false, ..c } }
    }
}

pub open spec fn step(c: QCtx, a: JobQueueCore, b: JobQueueCore) -> QCtx {
    let c1 = step_state(step_queue(c, a, b), a, b);
    let s = a.state; let t = b.state;
    let alen = a.queue@.len(); let blen = b.queue@.len();
    let was_idle_nonempty = s is Idle && alen > 0;
    // a holder putting its popped job back (push_front) into an empty queue is not an append
    let put_back = c.holds && c.current is Some && is_push_front(a.queue@, b.queue@, c.current->0);
    let appended_now = !put_back && is_append(a.queue@, b.queue@);
    QCtx {
        debt_idle: t is Idle && blen > 0 && ((c.debt_idle && was_idle_nonempty) || !was_idle_nonempty),
        debt_pending: c.debt_pending || (s is Idle && t is Pending),
        appends: if appended_now { c.appends + 1 } else { c.appends },
        log: c.log.push(Sec { a: s, b: t, alen: alen, blen: blen, qsame: a.queue@ =~= b.queue@,
            appended: if appended_now { Some(b.queue@.last()) } else { None },
            waiters_kept: live_waiters_kept(a.wake_blocked@, b.wake_blocked@), wb: a.wake_blocked@ }),
        ..c1
    }
}

// ------------------------------------------------------------------ lock shim (A1, A2)

#[verifier::reject_recursive_types(T)]
#[verifier::external_body]
pub struct Mutex<T> { t: core::marker::PhantomData<T> }

/// lock results are std `Result`s; poisoning is ignored (A2): `lock` always returns `Ok`
#[derive(Debug)]
pub struct Poison { pub p: () }
pub type LockResult<G> = Result<G, Poison>;

impl Mutex<JobQueueCore> {
    /// The single place where concurrency enters the proof: the value seen is arbitrary subject to
    /// `learn`; the ghost effect of the critical section is judged when the guard dies.
    #[verifier::external_body]
    pub fn lock<'a>(&'a self, Tracked(ctx): Tracked<&'a mut QCtx>) -> (r: LockResult<&'a mut JobQueueCore>)
        ensures
            r is Ok,
            learn(*old(ctx), *(r->Ok_0)),
            *final(ctx) == step(*old(ctx), *(r->Ok_0), *final(r->Ok_0)),
    { unimplemented!() }
}

pub struct JobQueue { pub core: Mutex<JobQueueCore> }

// ------------------------------------------------------------------ schedule (VecDeque<Arc<JobQueue>>)

pub tracked struct SCtx { pub ghost appended: nat, pub ghost left_empty: bool, pub ghost log: Seq<(Seq<Arc<JobQueue>>, Seq<Arc<JobQueue>>)> }   // left_empty: the last section on the schedule left it empty; log: (before, after) of every section of this thread on the schedule

/// identity of an Arc's allocation (what `Arc::ptr_eq` compares)
pub uninterp spec fn arc_id<T>(a: &Arc<T>) -> int;
pub open spec fn spec_arc_ptr_eq<T>(a: &Arc<T>, b: &Arc<T>) -> bool { arc_id(a) == arc_id(b) }
#[verifier::when_used_as_spec(spec_arc_ptr_eq)]
#[verifier::external_body]
pub fn arc_ptr_eq<T>(a: &Arc<T>, b: &Arc<T>) -> (r: bool)
    ensures r == spec_arc_ptr_eq(a, b),
{ unimplemented!() }

/// R21: `X.retain(|p| E)` for Vec / VecDeque. The closure is the repository's text; the extractor only states its value as the
/// closure's postcondition, so what is kept is decided by the predicate that is actually written.
pub trait SeqLike<T>: Sized {
    spec fn sview(&self) -> Seq<T>;
    fn retain_shim<F: Fn(&T) -> bool>(&mut self, f: F)
        requires
            forall|x: &T| f.requires((x,)),
        ensures
            final(self).sview().len() <= old(self).sview().len(),
            forall|i: int| 0 <= i < final(self).sview().len() ==> f.ensures((&(#[trigger] final(self).sview()[i]),), true) && old(self).sview().contains(final(self).sview()[i]),
            // an element is dropped only when the predicate answered `false` for it
            forall|j: int| 0 <= j < old(self).sview().len() ==> final(self).sview().contains(#[trigger] old(self).sview()[j]) || f.ensures((&old(self).sview()[j],), false);
}
impl<T> SeqLike<T> for Vec<T> {
    open spec fn sview(&self) -> Seq<T> { self@ }
    #[verifier::external_body]
    fn retain_shim<F: Fn(&T) -> bool>(&mut self, f: F) { unimplemented!() }
}
impl<T> SeqLike<T> for VecDeque<T> {
    open spec fn sview(&self) -> Seq<T> { self@ }
    #[verifier::external_body]
    fn retain_shim<F: Fn(&T) -> bool>(&mut self, f: F) { unimplemented!() }
}
/// every queue of `before` other than `q` is still in `after`
pub open spec fn others_kept(before: Seq<Arc<JobQueue>>, after: Seq<Arc<JobQueue>>, q: &Arc<JobQueue>) -> bool {
    forall|j: int| 0 <= j < before.len() && !spec_arc_ptr_eq(&(#[trigger] before[j]), q) ==> after.contains(before[j])
}
/// wake log: which wakers this thread has woken, and which waker it installed in a DrainWaker
pub tracked struct WCtx { pub ghost woken: Seq<Waker>, pub ghost installed: Option<Waker> }
/// notification log: how many `Condvar::notify_one` calls this thread made, and for which registered waiters
pub tracked struct NotifyCtx { pub ghost notified: nat, pub ghost who: Set<WeakCondvar> }
pub tracked struct G { pub tracked q: QCtx, pub tracked s: SCtx, pub tracked w: WCtx, pub tracked n: NotifyCtx }

pub type Schedule = VecDeque<Arc<JobQueue>>;

impl Mutex<Schedule> {
    #[verifier::external_body]
    pub fn lock<'a>(&'a self, Tracked(ctx): Tracked<&'a mut SCtx>) -> (r: LockResult<&'a mut Schedule>)
        ensures
            r is Ok,
            final(ctx).appended == old(ctx).appended + (if final(r->Ok_0)@.len() == (r->Ok_0)@.len() + 1 && final(r->Ok_0)@.drop_last() =~= (r->Ok_0)@ { 1nat } else { 0nat }),
            final(ctx).left_empty == (final(r->Ok_0)@.len() == 0),
            final(ctx).log == old(ctx).log.push(((r->Ok_0)@, final(r->Ok_0)@)),
    { unimplemented!() }
}

/// R23: `mem::drop(guard)` - the critical section ends here, with the value the guard has now
pub fn drop_guard__<T>(t: &mut T)
    ensures *final(t) == *old(t),
{}

// ------------------------------------------------------------------ result / flag cells
/// monotone cell protocol: once this thread has seen the cell set, it stays set until this thread clears it
pub tracked struct FlagCtx { pub ghost seen: bool }

impl<T> Mutex<Option<T>> {
    /// what values the cell may hold (fixed when the writer closure is built)
    pub uninterp spec fn holds(&self, v: T) -> bool;

    #[verifier::external_body]
    pub fn lock<'a>(&'a self, Tracked(ctx): Tracked<&'a mut FlagCtx>) -> (r: LockResult<&'a mut Option<T>>)
        ensures
            r is Ok,
            old(ctx).seen ==> (*(r->Ok_0)) is Some,
            (*(r->Ok_0)) matches Some(v) ==> self.holds(v),
            final(ctx).seen == (*final(r->Ok_0)) is Some,
    { unimplemented!() }
}

impl<T> Mutex<T> {
    /// the value the mutex was created with
    pub uninterp spec fn init_value(&self) -> T;
    #[verifier::external_body]
    pub fn new(v: T) -> (r: Self)
        ensures r.init_value() == v,
    { unimplemented!() }
}
impl Mutex<bool> {
    #[verifier::external_body]
    pub fn lock<'a>(&'a self) -> (r: LockResult<&'a mut bool>)
        ensures r is Ok,
    { unimplemented!() }
}

/// a mutex whose critical sections are recorded in a ghost log (before, after) for the calling thread
#[verifier::reject_recursive_types(T)]
#[verifier::external_body]
pub struct LogMutex<T> { t: core::marker::PhantomData<T> }
pub tracked struct LCtx<T> { pub ghost log: Seq<(T, T)> }
impl<T> LogMutex<T> {
    #[verifier::external_body]
    pub fn lock<'a>(&'a self, Tracked(ctx): Tracked<&'a mut LCtx<T>>) -> (r: LockResult<&'a mut T>)
        ensures r is Ok, final(ctx).log == old(ctx).log.push((*(r->Ok_0), *final(r->Ok_0))),
    { unimplemented!() }

    /// try_lock may fail (lock held elsewhere): then no section took place
    #[verifier::external_body]
    pub fn try_lock<'a>(&'a self, Tracked(ctx): Tracked<&'a mut LCtx<T>>) -> (r: LockResult<&'a mut T>)
        ensures
            r is Ok ==> final(ctx).log == old(ctx).log.push((*(r->Ok_0), *final(r->Ok_0))),
            r is Err ==> final(ctx).log == old(ctx).log,
    { unimplemented!() }

    /// the value the mutex was created with
    pub uninterp spec fn init_value(&self) -> T;
    #[verifier::external_body]
    pub fn new(v: T) -> (r: Self)
        ensures r.init_value() == v,
    { unimplemented!() }
}


// ------------------------------------------------------------------ abstract notification slot (L-notify, U-META)
/// abstract notification slot: a flag (result present / item present / closed) and a stored waker
pub ghost struct Slot2 { pub flag: bool, pub waker: Option<int> }
/// publisher section (contracts of signal / Signaller::drop / push / close / PipeStream::drop): set flag, take waker
pub open spec fn publish(s: Slot2) -> (Slot2, Option<int>) { (Slot2 { flag: true, waker: None }, s.waker) }
/// subscriber section (contracts of poll / poll_next / full-check / register_only_if_open): see flag, else store waker
pub open spec fn subscribe(s: Slot2, w: int) -> (Slot2, bool) { if s.flag { (s, true) } else { (Slot2 { waker: Some(w), ..s }, false) } }


// ------------------------------------------------------------------ jobs and user code (A5)

pub struct Context { pub waker: Waker }

impl DynJob {
    /// C01 / C15: a job is only ever entered by the thread that holds the queue's run token, owns the
    /// job (popped it and has not pushed it back) and has a live panic guard.
    #[verifier::external_body]
    pub fn run(&mut self, context: &mut Context, Tracked(q): Tracked<&mut QCtx>, Ghost(guarded): Ghost<bool>, Ghost(locks): Ghost<u64>) -> (r: Poll<()>)
        requires
            locks == 0,                                 // OBL C10 no_lock_held_while_running_job
            old(q).holds,                               // OBL C01,C14 run_requires_token
            !old(q).parked,                             // OBL C06 run_only_when_not_parked
            old(q).current == Some(Box::new(*old(self))),         // OBL C01,C02,C03 run_only_popped_job
            guarded,                                    // OBL C15 runner_is_guarded
        ensures
            final(self).id == old(self).id,
            *final(context) == *old(context),           // (a task context is a borrowed waker: polling cannot replace it)
            r is Ready ==> *final(q) == (QCtx { current: None, ran: old(q).ran + 1, ..*old(q) }),
            r is Pending ==> *final(q) == (QCtx { ran: old(q).ran + 1, ..*old(q) }),
    { unimplemented!() }
}

pub fn debug_assert_shim(b: bool)
    requires b,                                                                     // OBL C01,C03,C06,C07 repository_debug_assertion_holds
{}

/// `panic!(..)`: failing loudly is allowed behaviour, but never inside a critical section: unwinding with a guard alive poisons the
/// mutex, and every other thread that takes it (pool threads scanning the schedule, later callers) would panic as well (C15; A2 is
/// the assumption that this never happens)
#[verifier::external_body]
pub fn panic_shim(Ghost(locks): Ghost<u64>) -> !
    requires locks == 0,                                                            // OBL C15 panic_outside_critical_section
{ panic!() }

/// `other => panic!("Queue was in unexpected state ..")`: must be unreachable under the protocol
#[verifier::external_body]
pub fn unexpected_state_shim() -> !
    requires false,                                                                 // OBL C01,C03,C04,C06 unexpected_state_panic_is_unreachable
{ panic!() }

/// any `panic!` inside `sync_no_panic` (the variant Drop uses while the thread is already unwinding: a second panic aborts the process)
#[verifier::external_body]
pub fn never_panics_shim() -> !
    requires false,                                                                 // OBL C05,C15 syncnopanic_never_panics
{ panic!() }

} // verus!
