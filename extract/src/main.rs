//! vextract — mechanical extraction of function bodies from /repo into a Verus template.
//!
//! Usage: vextract --repo <dir> --tmpl <file.tmpl> --out <gen.rs> --map <gen.map.json>
//!
//! The template is a Verus source file in which directives (lines whose first non-blank
//! characters are `//@`) ask for text from the repository.  See DESIGN.md §2 for the list.
//! Exit codes: 0 ok; 2 = lost anchor / unsupported construct (the caller reports UNDECIDED).

use proc_macro2::{Span, TokenStream};
use std::collections::BTreeMap;
use std::fmt::Write as _;
use syn::punctuated::Punctuated;
use syn::spanned::Spanned;
use quote::ToTokens;
use syn::visit::{self, Visit};
use syn::{Expr, Stmt, Token};

thread_local! { static SOFT: std::cell::Cell<bool> = std::cell::Cell::new(false); }

/// outside a BODY: the whole unit is undecided (exit 2).  Inside a BODY: only that function is (it is emitted as an
/// assumed stub and reported in the map file), see `stubbed` below.
fn die(msg: &str) -> ! {
    if SOFT.with(|s| s.get()) {
        std::panic::panic_any(msg.to_string());
    }
    eprintln!("vextract: UNDECIDED: {}", msg);
    std::process::exit(2);
}

#[derive(Clone, Debug)]
struct Edit {
    start: usize,
    end: usize,
    text: String,
    /// priority for edits inserted at the same offset (lower first)
    prio: i32,
}

struct SourceFile {
    rel: String,
    text: String,
    ast: syn::File,
    line_starts: Vec<usize>,
}

impl SourceFile {
    fn load(repo: &str, rel: &str) -> SourceFile {
        let path = format!("{}/{}", repo, rel);
        let text = std::fs::read_to_string(&path).unwrap_or_else(|e| die(&format!("cannot read {}: {}", path, e)));
        let ast = syn::parse_file(&text).unwrap_or_else(|e| die(&format!("cannot parse {}: {}", path, e)));
        let mut line_starts = vec![0usize];
        for (i, b) in text.bytes().enumerate() {
            if b == b'\n' {
                line_starts.push(i + 1);
            }
        }
        SourceFile { rel: rel.to_string(), text, ast, line_starts }
    }
    fn from_text(rel: &str, text: String) -> Option<SourceFile> {
        let ast = syn::parse_file(&text).ok()?;
        let mut line_starts = vec![0usize];
        for (i, b) in text.bytes().enumerate() {
            if b == b'\n' {
                line_starts.push(i + 1);
            }
        }
        Some(SourceFile { rel: rel.to_string(), text, ast, line_starts })
    }
    fn off(&self, lc: proc_macro2::LineColumn) -> usize {
        let ls = self.line_starts[lc.line - 1];
        let line = &self.text[ls..];
        let mut byte = 0usize;
        for (n, (i, _)) in line.char_indices().enumerate() {
            if n == lc.column {
                byte = i;
                return ls + byte;
            }
            byte = i;
        }
        let _ = byte;
        ls + line.len().min(lc.column)
    }
    fn range(&self, sp: Span) -> (usize, usize) {
        (self.off(sp.start()), self.off(sp.end()))
    }
    fn line_of(&self, off: usize) -> usize {
        match self.line_starts.binary_search(&off) {
            Ok(i) => i + 1,
            Err(i) => i,
        }
    }
}

/// What to extract
struct FoundFn<'a> {
    sig: &'a syn::Signature,
    block: &'a syn::Block,
}

fn type_last_ident(ty: &syn::Type) -> Option<String> {
    match ty {
        syn::Type::Path(p) => p.path.segments.last().map(|s| s.ident.to_string()),
        syn::Type::Reference(r) => type_last_ident(&r.elem),
        _ => None,
    }
}

/// `spec` is `name`, `Type::name` or `Trait for Type::name`
fn find_fn<'a>(file: &'a syn::File, spec: &str) -> Vec<FoundFn<'a>> {
    let mut out = vec![];
    let (qual, name) = match spec.rfind("::") {
        Some(i) => (Some(&spec[..i]), &spec[i + 2..]),
        None => (None, spec),
    };
    let (want_trait, want_ty) = match qual {
        Some(q) => match q.find(" for ") {
            Some(i) => (Some(q[..i].trim().to_string()), Some(q[i + 5..].trim().to_string())),
            None => (None, Some(q.trim().to_string())),
        },
        None => (None, None),
    };
    fn walk<'a>(items: &'a [syn::Item], want_trait: &Option<String>, want_ty: &Option<String>, name: &str, out: &mut Vec<FoundFn<'a>>) {
        for it in items {
            match it {
                syn::Item::Fn(f) if want_ty.is_none() => {
                    if f.sig.ident == name {
                        out.push(FoundFn { sig: &f.sig, block: &f.block });
                    }
                }
                syn::Item::Impl(im) => {
                    if let Some(wt) = want_ty {
                        let ty = type_last_ident(&im.self_ty);
                        if ty.as_deref() != Some(wt.as_str()) {
                            continue;
                        }
                        let tr = im.trait_.as_ref().and_then(|(_, p, _)| p.segments.last().map(|s| s.ident.to_string()));
                        match (want_trait, &tr) {
                            (Some(a), Some(b)) if a == b => {}
                            (None, None) => {}
                            _ => continue,
                        }
                        for ii in &im.items {
                            if let syn::ImplItem::Fn(f) = ii {
                                let wasm_only = f.attrs.iter().any(|a| {
                                    a.path().is_ident("cfg") && {
                                        let t = a.meta.to_token_stream().to_string();
                                        t.contains("wasm32") && !t.contains("not")
                                    }
                                });
                                if f.sig.ident == name && !wasm_only {
                                    out.push(FoundFn { sig: &f.sig, block: &f.block });
                                }
                            }
                        }
                    }
                }
                syn::Item::Mod(m) => {
                    if let Some((_, items)) = &m.content {
                        // do not descend into #[cfg(test)] modules
                        let is_test = m.attrs.iter().any(|a| a.path().is_ident("cfg"));
                        if !is_test {
                            walk(items, want_trait, want_ty, name, out);
                        }
                    }
                }
                _ => {}
            }
        }
    }
    walk(&file.items, &want_trait, &want_ty, name, &mut out);
    out
}

/// R19: a call, from a function under contract, to a private helper function of the same file that is NOT under contract (no BODY
/// directive, no CALL rule, no shim of that name in the template) is replaced by the helper's body, with the parameters bound by `let`.
/// Only helpers without type parameters, `return`, `?` or `.await` are inlined, and only through `self.helper(..)`, `Self::helper(..)` or
/// `helper(..)`. The inlined text is put on the line of the call, so every line number of the file stays what it is in the repository.
/// Returns the rewritten file (or None when nothing was inlined) and the byte ranges of the inlined helpers in the ORIGINAL file.
fn inline_helpers(orig: &SourceFile, extra: &[SourceFile], func: &str, closure: Option<usize>, lift: &Option<String>, under_contract: &dyn Fn(&str) -> bool, notes: &mut Vec<String>) -> Option<(SourceFile, Vec<(usize, usize)>)> {
    struct Helper { sig: syn::Signature, block: syn::Block, span: (usize, usize), impl_ty: Option<String>, nested: bool }
    fn collect(src: &SourceFile, items: &[syn::Item], out: &mut BTreeMap<String, Vec<Helper>>) {
        for it in items {
            match it {
                syn::Item::Fn(f) => {
                    out.entry(f.sig.ident.to_string()).or_default().push(Helper { sig: f.sig.clone(), block: (*f.block).clone(), span: src.range(f.span()), impl_ty: None, nested: false });
                }
                syn::Item::Impl(im) if im.trait_.is_none() => {
                    let ty = type_last_ident(&im.self_ty);
                    for ii in &im.items {
                        if let syn::ImplItem::Fn(f) = ii {
                            out.entry(f.sig.ident.to_string()).or_default().push(Helper { sig: f.sig.clone(), block: f.block.clone(), span: src.range(f.span()), impl_ty: ty.clone(), nested: false });
                        }
                    }
                }
                syn::Item::Mod(m) => {
                    if let Some((_, items)) = &m.content {
                        if !m.attrs.iter().any(|a| a.path().is_ident("cfg")) { collect(src, items, out); }
                    }
                }
                _ => {}
            }
        }
    }
    struct Unfit(bool);
    impl<'ast> Visit<'ast> for Unfit {
        fn visit_expr_return(&mut self, _: &'ast syn::ExprReturn) { self.0 = true; }
        fn visit_expr_try(&mut self, _: &'ast syn::ExprTry) { self.0 = true; }
        fn visit_expr_await(&mut self, _: &'ast syn::ExprAwait) { self.0 = true; }
        fn visit_expr_closure(&mut self, _: &'ast syn::ExprClosure) { /* a `return` inside a closure belongs to the closure */ }
        fn visit_item(&mut self, _: &'ast syn::Item) {}
    }
    /// the first call (in source order) that can be inlined: (call span, helper name, argument spans, is_method)
    struct FindCall<'a> { src: &'a SourceFile, names: &'a dyn Fn(&str) -> bool, hit: Option<((usize, usize), String, Vec<(usize, usize)>, bool)>, recv: Option<(usize, usize)> }
    impl<'a, 'ast> Visit<'ast> for FindCall<'a> {
        fn visit_expr_method_call(&mut self, m: &'ast syn::ExprMethodCall) {
            visit::visit_expr_method_call(self, m);
            if self.hit.is_some() { return; }
            let recv_is_self = matches!(&*m.receiver, Expr::Path(p) if p.path.is_ident("self"));
            let name = m.method.to_string();
            if m.turbofish.is_none() && (self.names)(&name) {
                self.hit = Some((self.src.range(m.span()), name, m.args.iter().map(|a| self.src.range(a.span())).collect(), true));
                // a receiver other than `self` is bound to a name of its own and the helper's `self` is renamed to it
                self.recv = if recv_is_self { None } else { Some(self.src.range(m.receiver.span())) };
            }
        }
        fn visit_expr_call(&mut self, c: &'ast syn::ExprCall) {
            visit::visit_expr_call(self, c);
            if self.hit.is_some() { return; }
            if let Expr::Path(p) = &*c.func {
                let segs: Vec<String> = p.path.segments.iter().map(|s| s.ident.to_string()).collect();
                let plain = p.path.segments.iter().all(|s| s.arguments.is_empty());
                let name = segs.last().cloned().unwrap_or_default();
                if plain && (segs.len() == 1 || (segs.len() == 2 && segs[0] == "Self")) && (self.names)(&name) {
                    self.hit = Some((self.src.range(c.span()), name, c.args.iter().map(|a| self.src.range(a.span())).collect(), false));
                }
            }
        }
    }
    let mut cur: Option<SourceFile> = None;
    let mut regions = vec![];
    let fname = func.rsplit("::").next().unwrap_or(func).to_string();
    let fty: Option<String> = func.rfind("::").map(|i| { let q = &func[..i]; match q.find(" for ") { Some(j) => q[j + 5..].trim().to_string(), None => q.trim().to_string() } });
    for _round in 0..8 {
        let src: &SourceFile = cur.as_ref().unwrap_or(orig);
        let mut helpers = BTreeMap::new();
        collect(src, &src.ast.items, &mut helpers);
        // R19x: the small methods of the shared vocabulary types (QueueState) live in a file of their own: a method declared there that is
        // not under contract is a helper too, unless a function of that name exists in this file
        for ef in extra {
            let mut eh = BTreeMap::new();
            collect(ef, &ef.ast.items, &mut eh);
            for (k, v) in eh { if !helpers.contains_key(&k) { helpers.insert(k, v); } }
        }
        let found = find_fn(&src.ast, func);
        if found.len() != 1 { break; }
        // functions declared inside the body are helpers too (they shadow module-level functions of the same name)
        for st in &found[0].block.stmts {
            if let Stmt::Item(syn::Item::Fn(f)) = st {
                helpers.insert(f.sig.ident.to_string(), vec![Helper { sig: f.sig.clone(), block: (*f.block).clone(), span: src.range(f.span()), impl_ty: None, nested: true }]);
            }
        }
        let fit = |name: &str| -> bool {
            let nested = helpers.get(name).map(|v| v.len() == 1 && v[0].nested).unwrap_or(false);
            if name == fname || (!nested && under_contract(name)) { return false; }
            match helpers.get(name) {
                Some(v) if v.len() == 1 => {
                    let h = &v[0];
                    if h.sig.generics.params.iter().any(|g| !matches!(g, syn::GenericParam::Lifetime(_))) || h.sig.asyncness.is_some() || h.sig.unsafety.is_some() { return false; }
                    // (a method of another type is reached through a receiver, which gets a name of its own: see `self__` below)
                    if h.impl_ty.is_some() && h.impl_ty != fty && !h.sig.inputs.iter().any(|a| matches!(a, syn::FnArg::Receiver(_))) { return false; }
                    if !h.sig.inputs.iter().all(|a| match a { syn::FnArg::Receiver(_) => true, syn::FnArg::Typed(pt) => matches!(&*pt.pat, syn::Pat::Ident(pi) if pi.by_ref.is_none() && pi.subpat.is_none()) }) { return false; }
                    let mut u = Unfit(false);
                    u.visit_block(&h.block);
                    !u.0
                }
                _ => false,
            }
        };
        let mut fc = FindCall { src, names: &fit, hit: None, recv: None };
        // only calls inside the part of the function that is extracted (for a lifted closure: its body)
        match select_region(found[0].block, closure, lift) {
            Ok((Some(b), _)) => fc.visit_block(b),
            Ok((None, Some(e))) => fc.visit_expr(e),
            _ => break,
        }
        let recv_span = fc.recv;
        let ((cs, ce), name, args, is_method) = match fc.hit { Some(h) => h, None => break };
        let h = &helpers.get(&name).unwrap()[0];
        let has_recv = h.sig.inputs.iter().any(|a| matches!(a, syn::FnArg::Receiver(_)));
        let params: Vec<(String, bool)> = h.sig.inputs.iter().filter_map(|a| match a { syn::FnArg::Typed(pt) => match &*pt.pat { syn::Pat::Ident(pi) => Some((pi.ident.to_string(), pi.mutability.is_some())), _ => None }, _ => None }).collect();
        // `self.h(a)` needs a receiver parameter; `Self::h(self, a)` / `h(a)` pass everything explicitly
        let explicit: Vec<(usize, usize)> = if !is_method && has_recv { if args.is_empty() { break; } args[1..].to_vec() } else { args.clone() };
        if is_method != has_recv && is_method { break; }
        if !is_method && has_recv { let (a0s, a0e) = args[0]; if src.text[a0s..a0e].trim() != "self" { break; } }
        if explicit.len() != params.len() { break; }
        // (parenthesised: a bare block is not allowed everywhere an expression is, e.g. before the `else` of a `let .. else`)
        let mut t = String::from("({ ");
        // `R.h(..)` with a receiver other than `self`: only for `&self` / `&mut self` helpers of a non-generic type, `self` becomes `self__`
        let mut self_alias = false;
        if let Some((rs, re)) = recv_span {
            let recv_kind = h.sig.inputs.iter().find_map(|a| match a { syn::FnArg::Receiver(r) => Some((r.reference.is_some(), r.mutability.is_some())), _ => None });
            // which types of these files are `Copy` (a by-value `self` of such a type is a copy of the receiver)
            let copy_types: Vec<String> = {
                fn scan(items: &[syn::Item], out: &mut Vec<String>) {
                    for it in items {
                        let (attrs, name): (&[syn::Attribute], String) = match it {
                            syn::Item::Enum(e) => (&e.attrs, e.ident.to_string()),
                            syn::Item::Struct(st) => (&st.attrs, st.ident.to_string()),
                            _ => continue,
                        };
                        if attrs.iter().any(|a| a.path().is_ident("derive") && a.meta.to_token_stream().to_string().split(|c: char| !c.is_alphanumeric()).any(|w| w == "Copy")) { out.push(name); }
                    }
                }
                let mut v = vec![];
                scan(&src.ast.items, &mut v);
                for ef in extra { scan(&ef.ast.items, &mut v); }
                v
            };
            match (recv_kind, &h.impl_ty) {
                (Some((true, m)), Some(ty)) if !h.block.to_token_stream().to_string().contains("Self") => {
                    t.push_str(&format!("let self__ : &{}{} = &{}{}; ", if m { "mut " } else { "" }, ty, if m { "mut " } else { "" }, norm_ws(&src.text[rs..re])));
                    self_alias = true;
                }
                (Some((false, _)), Some(ty)) if copy_types.contains(ty) && !h.block.to_token_stream().to_string().contains("Self") => {
                    t.push_str(&format!("let self__ : {} = {}; ", ty, norm_ws(&src.text[rs..re])));
                    self_alias = true;
                }
                _ => break,
            }
        }
        for (k, (s, e)) in explicit.iter().enumerate() { t.push_str(&format!("let arg{}__ = {}; ", k, norm_ws(&src.text[*s..*e]))); }
        for (k, (p, m)) in params.iter().enumerate() { t.push_str(&format!("let {}{} = arg{}__; ", if *m { "mut " } else { "" }, p, k)); }
        for st in &h.block.stmts {
            let st_txt = st.to_token_stream().to_string();
            t.push_str(&if self_alias { replace_word(&st_txt, "self", "self__") } else { st_txt });
            t.push(' ');
        }
        t.push_str("})");
        // the call may span several lines: keep the line structure of the file (the replacement goes on the first line of the call)
        let newlines = src.text[cs..ce].matches('\n').count();
        let mut text = String::with_capacity(src.text.len() + t.len());
        text.push_str(&src.text[..cs]);
        text.push_str(&t);
        for _ in 0..newlines { text.push('\n'); }
        text.push_str(&src.text[ce..]);
        let line = src.line_of(cs);
        // the helper's range in the ORIGINAL file (S-cover: its lock sites are verified as part of the caller)
        let oh = { let mut oh = BTreeMap::new(); collect(orig, &orig.ast.items, &mut oh); oh };
        if !h.nested { if let Some(v) = oh.get(&name) { if v.len() == 1 { regions.push(v[0].span); } } }
        match SourceFile::from_text(&orig.rel, text) {
            Some(nf) => { notes.push(format!("R19 call to helper `{}` at {}:{} replaced by its body (helper not under contract)", name, orig.rel, line)); cur = Some(nf); }
            None => break,
        }
    }
    // a function declared inside the body has no contract: once its calls are inlined its text is blanked (line structure kept); if a call
    // is left, the body cannot be verified modularly (the callee's effect would be unknown), which is an unsupported construct, not a failure
    loop {
        let src: &SourceFile = cur.as_ref().unwrap_or(orig);
        let found = find_fn(&src.ast, func);
        if found.len() != 1 { break; }
        let mut item: Option<(String, (usize, usize))> = None;
        for st in &found[0].block.stmts {
            if let Stmt::Item(syn::Item::Fn(f)) = st { item = Some((f.sig.ident.to_string(), src.range(f.span()))); break; }
        }
        let (name, (is, ie)) = match item { Some(x) => x, None => break };
        struct Calls<'n> { name: &'n str, n: usize }
        impl<'n, 'ast> Visit<'ast> for Calls<'n> {
            fn visit_expr_path(&mut self, p: &'ast syn::ExprPath) { if p.path.is_ident(self.name) { self.n += 1; } }
            fn visit_item_fn(&mut self, _: &'ast syn::ItemFn) {}
        }
        let mut c = Calls { name: &name, n: 0 };
        c.visit_block(found[0].block);
        if c.n > 0 {
            die(&format!("{}: function `{}` declared inside {} is called in a way that cannot be inlined (no contract for it)", orig.rel, name, func));
        }
        let blank: String = src.text[is..ie].chars().map(|ch| if ch == '\n' { '\n' } else { ' ' }).collect();
        let text = format!("{}{}{}", &src.text[..is], blank, &src.text[ie..]);
        match SourceFile::from_text(&orig.rel, text) {
            Some(nf) => { notes.push(format!("R19 function `{}` declared inside {} removed after inlining its calls", name, func)); cur = Some(nf); }
            None => break,
        }
    }
    cur.map(|c| (c, regions))
}

/// is the value of this closure body a `bool` for syntactic reasons alone?
fn is_bool_expr(e: &Expr) -> bool {
    match e {
        Expr::Paren(p) => is_bool_expr(&p.expr),
        Expr::Unary(u) => matches!(u.op, syn::UnOp::Not(_)),
        Expr::Binary(b) => matches!(b.op, syn::BinOp::Eq(_) | syn::BinOp::Ne(_) | syn::BinOp::Lt(_) | syn::BinOp::Le(_) | syn::BinOp::Gt(_) | syn::BinOp::Ge(_) | syn::BinOp::And(_) | syn::BinOp::Or(_)),
        Expr::Lit(l) => matches!(l.lit, syn::Lit::Bool(_)),
        Expr::MethodCall(m) => { let n = m.method.to_string(); n.starts_with("is_") || n == "contains" || n == "eq" || n == "ne" }
        Expr::Block(b) => b.block.stmts.len() == 1 && matches!(&b.block.stmts[0], Stmt::Expr(x, None) if is_bool_expr(x)),
        _ => false,
    }
}

/// the identifiers bound by patterns (let, match arms, if-let, closure parameters, for) in a function body, in source order
fn collect_bindings(b: &syn::Block) -> Vec<String> {
    struct B(Vec<String>);
    impl<'ast> Visit<'ast> for B {
        fn visit_pat_ident(&mut self, p: &'ast syn::PatIdent) {
            self.0.push(p.ident.to_string());
            visit::visit_pat_ident(self, p);
        }
        fn visit_item(&mut self, _: &'ast syn::Item) {}
    }
    let mut v = B(vec![]);
    v.visit_block(b);
    v.0
}

fn replace_word(text: &str, old: &str, new: &str) -> String {
    let mut out = String::with_capacity(text.len());
    let bytes = text.as_bytes();
    let mut i = 0;
    while i < text.len() {
        if text[i..].starts_with(old) {
            let before_ok = i == 0 || !(bytes[i - 1].is_ascii_alphanumeric() || bytes[i - 1] == b'_' || bytes[i - 1] == b'$');
            let j = i + old.len();
            let after_ok = j >= text.len() || !(bytes[j].is_ascii_alphanumeric() || bytes[j] == b'_');
            // `x.name` is a field, `name(` after `::`/`.` a method: only a free-standing identifier is a local
            let field = i > 0 && bytes[i - 1] == b'.';
            if before_ok && after_ok && !field {
                out.push_str(new);
                i = j;
                continue;
            }
        }
        let ch = text[i..].chars().next().unwrap();
        out.push(ch);
        i += ch.len_utf8();
    }
    out
}

/// R25: the templates name locals of the repository's functions (in invariants, spliced ghost lines, statement anchors). When a function
/// binds exactly as many names as it did when the templates were written and the only differences are consistent renamings to names that
/// were not in use, the same renaming is applied to the template text of that body, so a renamed local is not a lost anchor.
fn rename_map(old: &[String], new: &[String]) -> Option<(Vec<(String, String)>, Vec<String>)> {
    if old.len() != new.len() || old == new { return None; }
    let mut map: BTreeMap<String, String> = BTreeMap::new();
    let mut ambiguous: Vec<String> = vec![];       // an old name bound several times that now has several names (un-shadowing), or kept in one place
    for (o, n) in old.iter().zip(new.iter()) {
        if o == n { continue; }
        if old.contains(n) { return None; }              // not a pure renaming (e.g. two names swapped)
        match map.get(o) { Some(prev) if prev != n => { if !ambiguous.contains(o) { ambiguous.push(o.clone()); } }, _ => { map.insert(o.clone(), n.clone()); } }
    }
    for (o, n) in old.iter().zip(new.iter()) { if o == n && map.contains_key(o) && !ambiguous.contains(o) { ambiguous.push(o.clone()); } }
    for a in &ambiguous { map.remove(a); }
    Some((map.into_iter().collect(), ambiguous))
}

fn mentions_word(text: &str, w: &str) -> bool { replace_word(text, w, "\u{1}") != text }

/// None when the template text of this body mentions a name whose renaming is ambiguous (then nothing is renamed: lost anchors as before)
fn rename_spec(spec: &BodySpec, map: &[(String, String)], ambiguous: &[String], old: &[String], newn: &[String]) -> Option<BodySpec> {
    let r = |t: &str| -> String { let mut x = t.to_string(); for (o, n) in map { x = replace_word(&x, o, n); } x };
    let mut s = spec.clone();
    // `let name` anchors are positional (the ord-th binding of that name): they follow the binding even when the name is ambiguous
    for e in s.after_let.iter_mut() {
        if e.0.starts_with('=') { continue; }
        let mut seen = 0usize;
        for (k, o) in old.iter().enumerate() {
            if *o == e.0 { if seen == e.1 { if newn[k] != *o { let cnt = newn[..k].iter().filter(|x| **x == newn[k]).count(); e.0 = newn[k].clone(); e.1 = cnt; } break; } seen += 1; }
        }
    }
    let free_text: Vec<&String> = s.loops.values().chain(std::iter::once(&s.prologue)).chain(std::iter::once(&s.epilogue))
        .chain(s.after_let.iter().map(|e| &e.3)).chain(s.before_stmt.iter().map(|e| &e.0)).chain(s.before_stmt.iter().map(|e| &e.2))
        .chain(s.after_stmt.iter().map(|e| &e.0)).chain(s.after_stmt.iter().map(|e| &e.2)).chain(s.replace.iter().map(|e| &e.0)).chain(s.replace.iter().map(|e| &e.1)).collect();
    if ambiguous.iter().any(|a| free_text.iter().any(|t| mentions_word(t, a))) { return None; }
    drop(free_text);
    for v in s.loops.values_mut() { *v = r(v); }
    s.prologue = r(&s.prologue);
    s.epilogue = r(&s.epilogue);
    for e in s.after_let.iter_mut() { e.3 = r(&e.3); }
    for e in s.before_stmt.iter_mut() { e.0 = r(&e.0); e.2 = r(&e.2); }
    for e in s.after_stmt.iter_mut() { e.0 = r(&e.0); e.2 = r(&e.2); }
    for e in s.replace.iter_mut() { e.0 = r(&e.0); e.1 = r(&e.1); }
    for v in s.closures.values_mut() { *v = r(v); }
    for v in s.rules.call.values_mut() { *v = r(v); }
    // a lock rule keyed by a local's name follows the local
    let keys: Vec<String> = s.rules.lock.keys().cloned().collect();
    for k in keys {
        if let Some((_, n)) = map.iter().find(|(o, _)| *o == k) {
            // (the key may also be a field name, e.g. `queue.core.lock()` next to a guard called `core`: keep the old key too)
            if let Some(v) = s.rules.lock.get(&k).cloned() { s.rules.lock.entry(n.clone()).or_insert(v); }
        }
    }
    for v in s.rules.lock.values_mut() { *v = r(v); }
    // a renamed local that the template declares as a parameter (a captured variable of a lifted closure): the body's name is an alias
    let mut alias = String::new();
    for (o, n) in map {
        if spec.tmpl_params.iter().any(|p| p == o) { alias.push_str(&format!("        let {} = {};\n", n, o)); }
    }
    if !alias.is_empty() { s.prologue = format!("{}{}", alias, s.prologue); }
    Some(s)
}

/// the part of a function that a `//@BODY` directive extracts: the whole body, or the body of its n-th closure and / or async block
fn select_region<'x>(fblock: &'x syn::Block, closure: Option<usize>, lift: &Option<String>) -> Result<(Option<&'x syn::Block>, Option<&'x Expr>), String> {
    if closure.is_none() && lift.is_none() { return Ok((Some(fblock), None)); }
    let mut fi = FindInner { want_closure: closure, want_async: None, nc: 0, na: 0, found_closure: None, found_async: None };
    fi.visit_block(fblock);
    let mut inner_block: Option<&syn::Block> = None;
    let mut inner_expr: Option<&Expr> = None;
    if closure.is_some() {
        let c = fi.found_closure.ok_or_else(|| format!("closure #{}", closure.unwrap()))?;
        match &*c.body {
            Expr::Block(b) => inner_block = Some(&b.block),
            other => inner_expr = Some(other),
        }
    }
    if let Some(a) = lift {
        let n: usize = a.parse().unwrap_or(0);
        let mut fa = FindInner { want_closure: None, want_async: Some(n), nc: 0, na: 0, found_closure: None, found_async: None };
        match (inner_block, inner_expr) {
            (Some(b), _) => fa.visit_block(b),
            (None, Some(e)) => fa.visit_expr(e),
            _ => fa.visit_block(fblock),
        }
        let ab = fa.found_async.ok_or_else(|| format!("async block #{}", n))?;
        inner_block = Some(&ab.block);
        inner_expr = None;
    }
    Ok((inner_block, inner_expr))
}

fn norm_ws(s: &str) -> String {
    // line comments are not part of the code that is compared
    let mut t = String::new();
    for l in s.lines() {
        let code = match l.find("//") {
            Some(i) => &l[..i],
            None => l,
        };
        t.push_str(code);
        t.push('\n');
    }
    t.split_whitespace().collect::<Vec<_>>().join(" ")
}

#[derive(Default, Clone)]
struct Rules {
    /// receiver key -> ghost argument text for `.lock()` / `.try_lock()`
    lock: BTreeMap<String, String>,
    /// callee name (method or last path segment) -> extra argument text
    call: BTreeMap<String, String>,
    /// panic message prefix -> shim call text
    panic: Vec<(String, String)>,
    /// macro name -> replacement function name (first argument kept)
    mac1: BTreeMap<String, String>,
    /// callee path (as written) -> replacement path
    path: BTreeMap<String, String>,
    /// replacement for closure literals that have no CLOSURE directive (opaque value); None = exit 2
    default_closure: Option<String>,
    /// R21: name of the shim that `X.retain(|p| E)` is rewritten to (None = `retain` is left alone)
    retain_shim: Option<String>,
}

#[derive(Default, Clone)]
struct BodySpec {
    file: String,
    func: String,
    params: Option<Vec<String>>,
    closure: Option<usize>,
    lift: Option<String>, // "async" : take the body of the n-th async block
    rules: Rules,
    loops: BTreeMap<usize, String>,
    prologue: String,
    epilogue: String,
    after_let: Vec<(String, usize, bool, String)>, // ident, ordinal, optional, text
    before_stmt: Vec<(String, usize, String)>,     // normalized prefix, ordinal, text
    after_stmt: Vec<(String, usize, String)>,
    closures: BTreeMap<usize, String>,
    optional_closures: Vec<usize>,
    before_opt: Vec<bool>,
    after_opt: Vec<bool>,
    optional_loops: Vec<usize>,
    replace: Vec<(String, String, bool)>, // original (normalized), replacement, optional
    keep_unsafe: bool,
    tmpl_line: usize,
    /// parameter names of the function as declared in the template (for lifted closures these are the captured variables)
    tmpl_params: Vec<String>,
}

struct Rewriter<'a> {
    src: &'a SourceFile,
    spec: &'a BodySpec,
    edits: Vec<Edit>,
    loop_no: usize,
    closure_no: usize,
    let_counts: BTreeMap<String, usize>,
    before_counts: Vec<usize>,
    after_counts: Vec<usize>,
    used_loops: Vec<usize>,
    used_closures: Vec<usize>,
    used_after_let: Vec<bool>,
    used_before: Vec<bool>,
    used_after: Vec<bool>,
    used_replace: Vec<usize>,
    /// closures that were consumed by the `.map(|x| ..);` rewrite (keyed by start offset)
    consumed_closures: Vec<usize>,
    notes: Vec<String>,
    skip_ranges: Vec<(usize, usize)>,
    /// lexical lockset: scopes of (guard variable, lock key)
    guard_scopes: Vec<Vec<(String, String)>>,
    /// names of the method calls enclosing the expression being visited
    call_stack: Vec<String>,
    /// closures kept as code whose value the verifier cannot see (no postcondition could be stated for them)
    unmodelled_closures: usize,
    /// `kind:condition` of every loop of the body, in order (S-shape: loop invariants are attached by ordinal and hold at the loop head)
    loop_heads: Vec<String>,
}

/// if `e` is `<recv>.lock()` / `.try_lock()` possibly followed by `.expect(..)` / `.unwrap()`, the lock's receiver key
fn lock_chain_key(e: &Expr) -> Option<String> {
    match e {
        Expr::MethodCall(m) => {
            let n = m.method.to_string();
            if (n == "lock" || n == "try_lock") && m.args.is_empty() {
                Some(recv_key(&m.receiver))
            } else if n == "expect" || n == "unwrap" {
                lock_chain_key(&m.receiver)
            } else {
                None
            }
        }
        Expr::Paren(p) => lock_chain_key(&p.expr),
        _ => None,
    }
}

fn lock_bit(key: &str) -> u64 {
    match key {
        "core" => 1,
        "schedule" => 2,
        "threads" => 4,
        "max_threads" => 8,
        "busy_rc" | "also_busy" | "is_busy" | "busy" => 16,
        "result" | "0" => 32,
        "ready_mutex" | "is_finished" => 64,
        "stream_core" => 128,
        "state" => 256,
        _ => 512,
    }
}

fn recv_key(e: &Expr) -> String {
    match e {
        Expr::Field(f) => match &f.member {
            syn::Member::Named(i) => i.to_string(),
            syn::Member::Unnamed(i) => format!("{}", i.index),
        },
        Expr::Path(p) => p.path.segments.last().map(|s| s.ident.to_string()).unwrap_or_default(),
        Expr::Paren(p) => recv_key(&p.expr),
        Expr::Reference(r) => recv_key(&r.expr),
        Expr::Unary(u) => recv_key(&u.expr),
        Expr::MethodCall(m) => format!("{}()", m.method),
        _ => String::new(),
    }
}

impl<'a> Rewriter<'a> {
    /// the closure's value becomes its postcondition: `|p| E` -> `|p| -> (keep__: bool) ensures keep__ == (E) { E }` (E must be usable in
    /// spec mode; if it is not, the body does not compile in the dialect and the function is stubbed - never a wrong verdict)
    fn annotate_bool_closure(&mut self, c: &syn::ExprClosure) {
        let (_, pe) = self.src.range(c.or2_token.span());
        let (bs, be) = self.src.range(c.body.span());
        let mut spec_text = norm_ws(&self.src.text[bs..be]);
        for (k, v) in &self.spec.rules.path { spec_text = spec_text.replace(k.as_str(), v.as_str()); }
        // R21b: when the parameters are mutable references (the driver learns this from the verifier's diagnostic and asks again), the
        // postcondition speaks about their value at entry: `*p` -> `*old(p)`
        if std::env::var("VEXTRACT_OLDPARAMS").map(|v| v.split(';').any(|f| f == self.spec.func)).unwrap_or(false) {
            for inp in c.inputs.iter() {
                if let syn::Pat::Ident(pi) = inp {
                    let name = pi.ident.to_string();
                    spec_text = spec_text.replace(&format!("*{}", name), &format!("*old({})", name));
                }
            }
        }
        self.edit(pe, bs, format!(" -> (keep__: bool) ensures keep__ == ({}) {{ ", spec_text), 0);
        self.edit(be, be, " }".to_string(), 1);
    }
    fn edit(&mut self, start: usize, end: usize, text: String, prio: i32) {
        self.edits.push(Edit { start, end, text, prio });
    }
    fn lockset(&self) -> u64 {
        let mut m = 0u64;
        for sc in &self.guard_scopes {
            for (_, k) in sc {
                m |= lock_bit(k);
            }
        }
        m
    }
    fn expand(&self, txt: &str) -> String {
        txt.replace("$LOCKS", &format!("{}u64", self.lockset()))
    }
    fn in_skip(&self, off: usize) -> bool {
        self.skip_ranges.iter().any(|(s, e)| off >= *s && off < *e)
    }
    fn text(&self, sp: Span) -> &str {
        let (s, e) = self.src.range(sp);
        &self.src.text[s..e]
    }

    fn try_replace_expr(&mut self, sp: Span) -> bool {
        let (s, e) = self.src.range(sp);
        let n = norm_ws(&self.src.text[s..e]);
        for (i, (orig, rep, _opt)) in self.spec.replace.iter().enumerate() {
            if *orig == n {
                self.used_replace[i] += 1;
                let rep = self.expand(rep);
                self.edits.push(Edit { start: s, end: e, text: rep, prio: 0 });
                self.skip_ranges.push((s, e));
                return true;
            }
        }
        false
    }

    fn handle_macro(&mut self, mac: &syn::Macro, whole: Span) {
        let name = mac.path.segments.last().map(|s| s.ident.to_string()).unwrap_or_default();
        let (ws, we) = self.src.range(whole);
        if let Some(shim) = self.spec.rules.mac1.get(&name).cloned() {
            // keep first argument (rewritten), drop the rest
            let args: Punctuated<Expr, Token![,]> = match mac.parse_body_with(Punctuated::parse_terminated) {
                Ok(a) => a,
                Err(_) => die(&format!("{}:{}: cannot parse arguments of {}!", self.src.rel, self.src.line_of(ws), name)),
            };
            let first = match args.first() {
                Some(f) => f,
                None => die(&format!("{}: {}! without arguments", self.src.rel, name)),
            };
            let (fs, fe) = self.src.range(first.span());
            self.edit(ws, fs, format!("{}(", shim), 0);
            self.edit(fe, we, ")".to_string(), 0);
            self.visit_expr(first);
            return;
        }
        if name == "panic" || name == "unreachable" || name == "unimplemented" || name == "todo" {
            let body = mac.tokens.to_string();
            let mut shim = self.expand("panic_shim(Ghost($LOCKS))");
            for (prefix, s) in &self.spec.rules.panic {
                if body.trim_start().trim_start_matches('"').starts_with(prefix.as_str()) {
                    shim = s.clone();
                    break;
                }
            }
            self.edit(ws, we, shim, 0);
            return;
        }
        if name == "vec" && mac.tokens.is_empty() {
            self.edit(ws, we, "Vec::new()".to_string(), 0);
            return;
        }
        if name == "format" || name == "println" || name == "eprintln" {
            self.edit(ws, we, "format_shim()".to_string(), 0);
            return;
        }
        if name == "matches" {
            // `matches!(e, pat)` is in the verifier's dialect as it is
            return;
        }
        die(&format!("{}:{}: unsupported macro {}!", self.src.rel, self.src.line_of(ws), name));
    }

    /// statement-position `X.map(|p| body);` (also `.ok()` chains are left to REPLACE)
    fn try_map_stmt(&mut self, e: &Expr, stmt_span: Span) -> bool {
        // `X.map(|p| body).ok();` on a Result: `if let Ok(p) = X { body; }`
        let (e, ctor) = match e {
            Expr::MethodCall(o) if o.method == "ok" && o.args.is_empty() => (&*o.receiver, "Ok"),
            other => (other, "Some"),
        };
        if let Expr::MethodCall(m) = e {
            if m.method == "map" && m.args.len() == 1 {
                if let Expr::Closure(c) = &m.args[0] {
                    if c.inputs.len() == 1 {
                        let pat = self.text(c.inputs[0].span()).to_string();
                        let (ss, se) = self.src.range(stmt_span);
                        let (rs, re) = self.src.range(m.receiver.span());
                        let (bs, be) = self.src.range(c.body.span());
                        self.edit(ss, rs, format!("if let {}({}) = ", ctor, pat), 0);
                        self.edit(re, bs, " { ".to_string(), 0);
                        self.edit(be, se, "; }".to_string(), 0);
                        let (cs, _) = self.src.range(c.span());
                        self.consumed_closures.push(cs);
                        self.notes.push(format!("R8 map-statement at {}:{}", self.src.rel, self.src.line_of(ss)));
                        self.visit_expr(&m.receiver);
                        self.visit_expr(&c.body);
                        return true;
                    }
                }
            }
        }
        false
    }

    /// R28: statement-position `X.iter().for_each(|p| B);` / `X.iter_mut().for_each(..)` / `X.into_iter().for_each(..)` /
    /// `X.drain(..).for_each(..)` with X a place expression (path / field chain) become loops of the dialect; the closure body stays the
    /// repository's text. The loop takes the next loop ordinal (its invariants come from `//@LOOP n` like any other loop's).
    fn try_foreach_stmt(&mut self, e: &Expr, stmt_span: Span) -> bool {
        fn is_place(e: &Expr) -> bool {
            match e { Expr::Path(_) => true, Expr::Field(f) => is_place(&f.base), _ => false }
        }
        let fe = match e { Expr::MethodCall(m) if m.method == "for_each" && m.args.len() == 1 => m, _ => return false };
        let c = match &fe.args[0] { Expr::Closure(c) if c.inputs.len() == 1 => c, _ => return false };
        let it = match &*fe.receiver { Expr::MethodCall(m) => m, _ => return false };
        let kind = it.method.to_string();
        let full_drain = kind == "drain" && it.args.len() == 1 && norm_ws(self.text(it.args[0].span())) == "..";
        if !((matches!(kind.as_str(), "iter" | "iter_mut" | "into_iter") && it.args.is_empty()) || full_drain) { return false; }
        if !is_place(&it.receiver) { return false; }
        let by_index = kind == "iter" || kind == "iter_mut";
        let simple_pat = matches!(&c.inputs[0], syn::Pat::Ident(pi) if pi.by_ref.is_none() && pi.subpat.is_none());
        if by_index && !simple_pat { return false; }
        // a `return` (or `?`) in the closure body leaves the closure, i.e. goes on with the next element: in a loop body it would leave the function
        struct HasReturn(bool);
        impl<'ast> Visit<'ast> for HasReturn {
            fn visit_expr_return(&mut self, _: &'ast syn::ExprReturn) { self.0 = true; }
            fn visit_expr_try(&mut self, _: &'ast syn::ExprTry) { self.0 = true; }
            fn visit_expr_closure(&mut self, _: &'ast syn::ExprClosure) {}
            fn visit_item(&mut self, _: &'ast syn::Item) {}
        }
        let mut hr = HasReturn(false);
        hr.visit_expr(&c.body);
        if hr.0 { return false; }
        let pat = self.text(c.inputs[0].span()).to_string();
        let recv = norm_ws(self.text(it.receiver.span()));
        let n = self.loop_no;
        self.loop_no += 1;
        self.loop_heads.push(format!("foreach:{}:{}", if kind == "iter_mut" { "iter" } else { kind.as_str() }, recv));
        let inv = self.spec.loops.get(&n).cloned().unwrap_or_default();
        if self.spec.loops.contains_key(&n) { self.used_loops.push(n); }
        let (ss, se) = self.src.range(stmt_span);
        let (rs, re) = self.src.range(it.receiver.span());
        let (bs, be) = self.src.range(c.body.span());
        if by_index {
            let m = if kind == "iter_mut" { "mut " } else { "" };
            self.edit(ss, rs, "{ let mut fe_i__: usize = 0; while fe_i__ < ".to_string(), 0);
            self.edit(re, bs, format!(".len()\n{}\n{{ let {} = &{}{}[fe_i__]; fe_i__ = fe_i__ + 1; ", inv, pat, m, recv), 0);
            self.edit(be, se, "; } }".to_string(), 0);
        } else if full_drain {
            self.edit(ss, rs, format!("for {} in take_all__(&mut ", pat), 0);
            self.edit(re, bs, format!(")\n{}\n{{ ", inv), 0);
            self.edit(be, se, "; }".to_string(), 0);
        } else {
            self.edit(ss, rs, format!("for {} in ", pat), 0);
            self.edit(re, bs, format!("\n{}\n{{ ", inv), 0);
            self.edit(be, se, "; }".to_string(), 0);
        }
        let (cs, _) = self.src.range(c.span());
        self.consumed_closures.push(cs);
        self.notes.push(format!("R28 `{}.{}().for_each(..)` at {}:{} rewritten as a loop", recv, kind, self.src.rel, self.src.line_of(ss)));
        self.visit_expr(&it.receiver);
        self.visit_expr(&c.body);
        true
    }

    /// R29: statement-position `X.get_or_insert_with(|| E);` / `X.get_or_insert(E);` (the returned reference is discarded): X keeps a value it
    /// already has, otherwise it becomes `Some(E)` - `{ let goi__ = &mut X; if goi__.is_none() { *goi__ = Some(E); } }` (X is evaluated once)
    fn try_get_or_insert_stmt(&mut self, e: &Expr, stmt_span: Span) -> bool {
        let m = match e { Expr::MethodCall(m) if (m.method == "get_or_insert_with" || m.method == "get_or_insert") && m.args.len() == 1 => m, _ => return false };
        let (ss, se) = self.src.range(stmt_span);
        let (rs, re) = self.src.range(m.receiver.span());
        if m.method == "get_or_insert_with" {
            let c = match &m.args[0] { Expr::Closure(c) if c.inputs.is_empty() => c, _ => return false };
            let (bs, be) = self.src.range(c.body.span());
            self.edit(ss, rs, "{ let goi__ = &mut ".to_string(), 0);
            self.edit(re, bs, "; if goi__.is_none() { *goi__ = Some(".to_string(), 0);
            self.edit(be, se, "); } }".to_string(), 0);
            let (cs, _) = self.src.range(c.span());
            self.consumed_closures.push(cs);
            self.visit_expr(&m.receiver);
            self.visit_expr(&c.body);
        } else {
            let (as_, ae) = self.src.range(m.args[0].span());
            let arg = self.src.text[as_..ae].to_string();
            if arg.contains(".lock(") || arg.contains("||") { return false; }
            self.edit(ss, rs, format!("{{ let goi_v__ = {}; let goi__ = &mut ", norm_ws(&arg)), 0);
            self.edit(re, se, "; if goi__.is_none() { *goi__ = Some(goi_v__); } }".to_string(), 0);
            self.visit_expr(&m.receiver);
        }
        self.notes.push(format!("R29 `{}` statement at {}:{} rewritten as a conditional assignment", m.method, self.src.rel, self.src.line_of(ss)));
        true
    }

    fn process_one_stmt(&mut self, block: &syn::Block, i: usize, n: usize, st: &Stmt) {
        {
            let (ss, se) = self.src.range(st.span());
            // BEFORE / AFTER anchors by normalized statement prefix
            let ntext = norm_ws(&self.src.text[ss..se]);
            for k in 0..self.spec.before_stmt.len() {
                let (ref pre, ord, ref txt) = self.spec.before_stmt[k];
                if anchor_matches(&ntext, pre) {
                    if self.before_counts[k] == ord {
                        let t = self.expand(txt);
                        self.edits.push(Edit { start: ss, end: ss, text: format!("{}\n", t), prio: -5 });
                        self.used_before[k] = true;
                    }
                    self.before_counts[k] += 1;
                }
            }
            for k in 0..self.spec.after_stmt.len() {
                let (ref pre, ord, ref txt) = self.spec.after_stmt[k];
                if anchor_matches(&ntext, pre) {
                    if self.after_counts[k] == ord {
                        let t = self.expand(txt);
                        self.edits.push(Edit { start: se, end: se, text: format!("\n{}", t), prio: 5 });
                        self.used_after[k] = true;
                    }
                    self.after_counts[k] += 1;
                }
            }
            // R5: loop statement followed by a bare block statement
            let is_loop = matches!(st, Stmt::Expr(Expr::While(_), None) | Stmt::Expr(Expr::Loop(_), None) | Stmt::Expr(Expr::ForLoop(_), None));
            if is_loop && i + 1 < n {
                if let Stmt::Expr(Expr::Block(_), _) = &block.stmts[i + 1] {
                    self.edits.push(Edit { start: se, end: se, text: ";".to_string(), prio: 1 });
                }
            }
            // R26: the type annotation of a `let` with an initialiser is dropped: the templates re-declare std types as shims (guards are
            // `&mut` borrows, `Mutex` is a shim, ...), so an annotation can name a type that does not exist here, and it is redundant
            if let Stmt::Local(l) = st {
                if let syn::Pat::Type(pt) = &l.pat {
                    let (ts, te) = self.src.range(pt.ty.span());
                    // (kept where inference needs it: no initialiser, or an initialiser whose type is chosen by the annotation)
                    let chosen_by_annotation = match l.init.as_ref().map(|i| &*i.expr) {
                        None => true,
                        Some(Expr::MethodCall(m)) => matches!(m.method.to_string().as_str(), "collect" | "into" | "parse" | "sum" | "product" | "try_into"),
                        Some(Expr::Call(c)) => matches!(&*c.func, Expr::Path(p) if p.path.segments.last().map(|s| s.ident == "default" || s.ident == "from" || s.ident == "new").unwrap_or(false)),
                        _ => false,
                    };
                    if !chosen_by_annotation || self.src.text[ts..te].contains("MutexGuard") {
                        let (_, pe) = self.src.range(pt.pat.span());
                        self.edits.push(Edit { start: pe, end: te, text: String::new(), prio: 0 });
                        self.notes.push(format!("R26 type annotation of a `let` dropped at {}:{}", self.src.rel, self.src.line_of(ts)));
                    }
                }
            }
            // AFTER-LET
            if let Stmt::Local(l) = st {
                let mut names = vec![];
                collect_pat_idents(&l.pat, &mut names);
                // `=Type`: a `let <name> = Type { .. }` / `Type::new(..)` under ANY name (a binding that is a wildcard `_` drops the value at
                // once and does not count)
                if !names.is_empty() {
                    if let Some(init) = &l.init {
                        let (is, ie) = self.src.range(init.expr.span());
                        let itxt = norm_ws(&self.src.text[is..ie]);
                        for k in 0..self.spec.after_let.len() {
                            let (ref id, o, _opt, ref txt) = self.spec.after_let[k];
                            if let Some(ty) = id.strip_prefix('=') {
                                let starts = itxt.starts_with(ty) && itxt[ty.len()..].chars().next().map(|ch| !(ch.is_alphanumeric() || ch == '_')).unwrap_or(true);
                                if starts {
                                    let c = self.let_counts.entry(id.clone()).or_insert(0);
                                    let ord = *c;
                                    *c += 1;
                                    if o == ord {
                                        self.edits.push(Edit { start: se, end: se, text: format!("\n{}", txt), prio: 6 });
                                        self.used_after_let[k] = true;
                                    }
                                }
                            }
                        }
                    }
                }
                for name in names {
                    let c = self.let_counts.entry(name.clone()).or_insert(0);
                    let ord = *c;
                    *c += 1;
                    for k in 0..self.spec.after_let.len() {
                        let (ref id, o, _opt, ref txt) = self.spec.after_let[k];
                        if *id == name && o == ord {
                            self.edits.push(Edit { start: se, end: se, text: format!("\n{}", txt), prio: 6 });
                            self.used_after_let[k] = true;
                        }
                    }
                }
            }
        }
    }
}

/// statement anchors: `prefix text` (statement starts with it) or `~text` (statement contains it, and is not a block/loop/if that merely encloses it)
fn anchor_matches(stmt: &str, pat: &str) -> bool {
    if let Some(sub) = pat.strip_prefix('~') {
        let sub = sub.trim();
        stmt.contains(sub) && !stmt.starts_with("if ") && !stmt.starts_with("while ") && !stmt.starts_with("loop") && !stmt.starts_with("match ") && !stmt.starts_with("for ") && !stmt.starts_with('{') && !stmt.starts_with("let ")
    } else {
        stmt.starts_with(pat)
    }
}

fn collect_pat_idents(p: &syn::Pat, out: &mut Vec<String>) {
    match p {
        syn::Pat::Ident(i) => out.push(i.ident.to_string()),
        syn::Pat::Type(t) => collect_pat_idents(&t.pat, out),
        syn::Pat::Tuple(t) => t.elems.iter().for_each(|e| collect_pat_idents(e, out)),
        syn::Pat::TupleStruct(t) => t.elems.iter().for_each(|e| collect_pat_idents(e, out)),
        syn::Pat::Reference(r) => collect_pat_idents(&r.pat, out),
        _ => {}
    }
}

impl<'a, 'ast> Visit<'ast> for Rewriter<'a> {
    fn visit_block(&mut self, b: &'ast syn::Block) {
        self.guard_scopes.push(vec![]);
        // visit statement by statement so that anchors see the lexical lockset at their position
        let n = b.stmts.len();
        for (i, st) in b.stmts.iter().enumerate() {
            self.process_one_stmt(b, i, n, st);
            self.visit_stmt(st);
            // a `let` that binds a lock guard keeps the lock to the end of this block
            if let Stmt::Local(l) = st {
                if let Some(init) = &l.init {
                    if let Some(k) = lock_chain_key(&init.expr) {
                        let mut names = vec![];
                        collect_pat_idents(&l.pat, &mut names);
                        if let Some(nm) = names.first() {
                            self.guard_scopes.last_mut().unwrap().push((nm.clone(), k));
                        }
                    }
                }
            }
        }
        self.guard_scopes.pop();
    }

    fn visit_stmt(&mut self, st: &'ast Stmt) {
        let (ss, _) = self.src.range(st.span());
        if self.in_skip(ss) {
            return;
        }
        // R1: `use ...;` inside a body is dropped (names resolve to the shims)
        if let Stmt::Item(syn::Item::Use(u)) = st {
            let t = u.tree.to_token_stream().to_string();
            if !(t.starts_with("std") || t.starts_with("core") || t.starts_with("futures")) {
                return; // `use self::Enum::*` and the like stay
            }
            let (s, e) = self.src.range(st.span());
            self.edit(s, e, String::new(), 0);
            self.skip_ranges.push((s, e));
            return;
        }
        // R1: statements guarded by #[cfg(desync_verif)] are verification hooks, not part of the code
        let attrs: &[syn::Attribute] = match st {
            Stmt::Expr(Expr::Call(c), _) => &c.attrs,
            Stmt::Expr(Expr::MethodCall(c), _) => &c.attrs,
            Stmt::Expr(Expr::Block(c), _) => &c.attrs,
            Stmt::Local(l) => &l.attrs,
            Stmt::Macro(m) => &m.attrs,
            _ => &[],
        };
        if attrs.iter().any(|a| a.path().is_ident("cfg") && a.meta.to_token_stream().to_string().contains("desync_verif")) {
            let (s, e) = self.src.range(st.span());
            self.edit(s, e, String::new(), 0);
            self.skip_ranges.push((s, e));
            return;
        }
        // whole-statement REPLACE
        if self.try_replace_expr(st.span()) {
            return;
        }
        match st {
            Stmt::Expr(e, Some(_)) => {
                if self.try_map_stmt(e, st.span()) {
                    return;
                }
                if self.try_foreach_stmt(e, st.span()) {
                    return;
                }
                if self.try_get_or_insert_stmt(e, st.span()) {
                    return;
                }
            }
            Stmt::Macro(m) => {
                // statement macro: span without the trailing semicolon handling
                let whole = m.mac.span();
                self.handle_macro(&m.mac, whole);
                return;
            }
            _ => {}
        }
        visit::visit_stmt(self, st);
    }

    fn visit_expr(&mut self, e: &'ast Expr) {
        let (es, _) = self.src.range(e.span());
        if self.in_skip(es) {
            return;
        }
        if self.try_replace_expr(e.span()) {
            return;
        }
        match e {
            Expr::Macro(m) => {
                self.handle_macro(&m.mac, m.span());
                return;
            }
            Expr::MethodCall(m) => {
                let name = m.method.to_string();
                if (name == "lock" || name == "try_lock") && m.args.is_empty() {
                    let key = recv_key(&m.receiver);
                    match self.spec.rules.lock.get(&key) {
                        Some(arg) => {
                            let (_, pe) = self.src.range(m.paren_token.span.close());
                            self.edit(pe - 1, pe - 1, arg.clone(), 0);
                        }
                        None => die(&format!(
                            "{}:{}: new lock site: receiver `{}` (key `{}`) has no ghost context in the spec of {}",
                            self.src.rel,
                            self.src.line_of(es),
                            norm_ws(self.text(m.receiver.span())),
                            key,
                            self.spec.func
                        )),
                    }
                } else if name == "retain" && m.args.len() == 1 && self.spec.rules.retain_shim.is_some() && matches!(&m.args[0], Expr::Closure(c) if c.inputs.len() == 1 && c.capture.is_none() && matches!(c.output, syn::ReturnType::Default)) {
                    // R21: `X.retain(|p| E)` -> `X.shim(|p| -> (keep__: bool) ensures keep__ == (E) { E })`: the predicate stays the
                    // repository's text, and its value becomes visible to the contract of the shim
                    if let Expr::Closure(c) = &m.args[0] {
                        let shim = self.spec.rules.retain_shim.clone().unwrap();
                        let (rs, re) = self.src.range(m.receiver.span());
                        let (cs, _) = self.src.range(c.span());
                        let (_, pe) = self.src.range(c.or2_token.span());
                        let (ms, me) = self.src.range(m.method.span());
                        self.edit(ms, me, shim.clone(), 0);
                        let _ = (re, pe);
                        self.annotate_bool_closure(c);
                        self.consumed_closures.push(cs);
                        self.notes.push(format!("R21 retain at {}:{} rewritten to {} with the predicate's value as the closure's postcondition", self.src.rel, self.src.line_of(rs), shim));
                    }
                } else if let Some(arg) = self.spec.rules.call.get(&name) {
                    let arg = self.expand(arg);
                    let (_, pe) = self.src.range(m.paren_token.span.close());
                    let sep = if m.args.is_empty() { "" } else { ", " };
                    self.edit(pe - 1, pe - 1, format!("{}{}", sep, arg), 0);
                }
            }
            Expr::Call(c) => {
                if let Expr::Path(p) = &*c.func {
                    let full = p.path.segments.iter().map(|s| s.ident.to_string()).collect::<Vec<_>>().join("::");
                    let last = p.path.segments.last().map(|s| s.ident.to_string()).unwrap_or_default();
                    if (full == "mem::drop" || full == "std::mem::drop" || full == "drop") && c.args.len() == 1 {
                        if let Expr::Path(ap) = &c.args[0] {
                            if let Some(id) = ap.path.get_ident() {
                                let id = id.to_string();
                                let was_guard = self.guard_scopes.iter().any(|sc| sc.iter().any(|(n, _)| *n == id));
                                for sc in self.guard_scopes.iter_mut() {
                                    sc.retain(|(n, _)| *n != id);
                                }
                                if !was_guard {
                                    // dropping any other value by name: `drop_value__(x)` (a shim that consumes the value and does nothing else;
                                    // `core::mem::drop` itself has no specification in the installed vstd). What the value's destructor does is
                                    // what it would do at the end of its scope: outside the function's contract either way
                                    let (fs, fe) = self.src.range(p.path.span());
                                    self.edit(fs, fe, "drop_value__".to_string(), 0);
                                }
                                if was_guard {
                                    // R23: dropping a lock guard by name ends the critical section and does nothing else; the guards of the
                                    // lock shims are `&mut` borrows, and a generic `drop<T>(T)` would let the verifier assume the callee
                                    // may still write through it
                                    let (fs, fe) = self.src.range(p.path.span());
                                    self.edit(fs, fe, "drop_guard__".to_string(), 0);
                                    self.notes.push(format!("R23 drop of guard `{}` at {}:{}", id, self.src.rel, self.src.line_of(fs)));
                                }
                            }
                        }
                    }
                    if let Some(np) = self.spec.rules.path.get(&full) {
                        let (fs, fe) = self.src.range(p.path.span());
                        self.edit(fs, fe, np.clone(), 0);
                    }
                    let hit = self.spec.rules.call.get(&full).or_else(|| if p.path.segments.len() > 1 || true { self.spec.rules.call.get(&last) } else { None });
                    if let Some(arg) = hit {
                        let arg = self.expand(arg);
                        let (_, pe) = self.src.range(c.paren_token.span.close());
                        let sep = if c.args.is_empty() { "" } else { ", " };
                        self.edit(pe - 1, pe - 1, format!("{}{}", sep, arg), 0);
                    }
                }
            }
            Expr::If(i) => {
                if let Expr::Let(l) = &*i.cond {
                    if let Some(k) = lock_chain_key(&l.expr) {
                        let mut names = vec![];
                        collect_pat_idents(&l.pat, &mut names);
                        self.visit_expr(&i.cond);
                        self.guard_scopes.push(vec![(names.first().cloned().unwrap_or_default(), k)]);
                        self.visit_block(&i.then_branch);
                        self.guard_scopes.pop();
                        if let Some((_, e)) = &i.else_branch {
                            self.visit_expr(e);
                        }
                        return;
                    }
                }
            }
            Expr::Assign(a) => {
                if let (Expr::Path(lp), Some(k)) = (&*a.left, lock_chain_key(&a.right)) {
                    if let Some(id) = lp.path.get_ident() {
                        let id = id.to_string();
                        for sc in self.guard_scopes.iter_mut() {
                            sc.retain(|(n, _)| *n != id);
                        }
                        visit::visit_expr(self, e);
                        if let Some(sc) = self.guard_scopes.last_mut() {
                            sc.push((id, k));
                        }
                        return;
                    }
                }
            }
            Expr::Closure(c) => {
                let (cs, ce) = self.src.range(c.span());
                if self.consumed_closures.contains(&cs) {
                    visit::visit_expr(self, e);
                    return;
                }
                let n = self.closure_no;
                self.closure_no += 1;
                match self.spec.closures.get(&n) {
                    Some(rep) => {
                        self.used_closures.push(n);
                        if rep == "KEEP" {
                            visit::visit_expr(self, e);
                        } else {
                            self.edit(cs, ce, rep.clone(), 0);
                            self.notes.push(format!("R9 closure #{} at {}:{} made opaque", n, self.src.rel, self.src.line_of(cs)));
                        }
                        return;
                    }
                    None if self.spec.rules.default_closure.is_some()
                        && matches!(self.call_stack.last().map(|s| s.as_str()), Some("map") | Some("and_then") | Some("unwrap_or_else") | Some("map_err") | Some("filter") | Some("ok_or_else") | Some("map_or")) => {
                        // a combinator closure is ordinary code of the enclosing function: it stays (Verus checks it as exec code)
                        self.notes.push(format!("closure #{} at {}:{} kept (combinator argument)", n, self.src.rel, self.src.line_of(cs)));
                        // R18: a `_` parameter gets a name (Verus accepts only variables as closure parameters); nothing can refer to it
                        for (k, inp) in c.inputs.iter().enumerate() {
                            if let syn::Pat::Wild(w) = inp {
                                let (ws, we) = self.src.range(w.span());
                                self.edit(ws, we, format!("unused{}__", k), 0);
                                self.notes.push(format!("R18 closure #{} parameter `_` named", n));
                            }
                        }
                        let predicate_position = matches!(self.call_stack.last().map(|s| s.as_str()), Some("filter"));
                        if matches!(c.output, syn::ReturnType::Default) && (predicate_position || is_bool_expr(&c.body)) {
                            self.annotate_bool_closure(c);
                            self.notes.push(format!("R21 closure #{} at {}:{}: its (boolean) value is stated as its postcondition", n, self.src.rel, self.src.line_of(cs)));
                        } else {
                            self.unmodelled_closures += 1;
                            self.notes.push(format!("closure #{} at {}:{} has no postcondition: its value is unknown to the verifier (failures in this function are not believed)", n, self.src.rel, self.src.line_of(cs)));
                        }
                        visit::visit_expr(self, e);
                        return;
                    }
                    None if self.spec.rules.default_closure.is_some() => {
                        let rep = self.spec.rules.default_closure.clone().unwrap();
                        self.edit(cs, ce, rep, 0);
                        self.notes.push(format!("R9 closure #{} at {}:{} made opaque (no directive: default)", n, self.src.rel, self.src.line_of(cs)));
                        return;
                    }
                    None => die(&format!(
                        "{}:{}: closure #{} in {} has no CLOSURE directive",
                        self.src.rel,
                        self.src.line_of(cs),
                        n,
                        self.spec.func
                    )),
                }
            }
            Expr::Match(mm) if mm.arms.iter().any(|a| a.guard.is_some()) => {
                // the installed Verus is incomplete on `match` arms with an `if` guard over `&mut` state (a trivially correct function fails:
                // see DESIGN.md 9). R27: `P if G => B` becomes `P => if G { B } else { E }` where E is the body of the arm the value falls
                // through to - only when that arm is unambiguous: the first later arm that can match a value of P's variant, unguarded and
                // binding nothing. Otherwise the function is marked and its failures are not believed.
                fn heads(p: &syn::Pat, out: &mut Vec<String>) -> bool {     // variant names a pattern can match; false = cannot tell
                    match p {
                        syn::Pat::Or(o) => o.cases.iter().all(|c| heads(c, out)),
                        syn::Pat::Path(pp) => { out.push(pp.path.segments.last().map(|s| s.ident.to_string()).unwrap_or_default()); true }
                        syn::Pat::TupleStruct(ts) => { out.push(ts.path.segments.last().map(|s| s.ident.to_string()).unwrap_or_default()); true }
                        syn::Pat::Struct(st) => { out.push(st.path.segments.last().map(|s| s.ident.to_string()).unwrap_or_default()); true }
                        syn::Pat::Ident(pi) if pi.subpat.is_none() => { out.push(pi.ident.to_string()); true }   // a unit variant imported by name, or a binding
                        syn::Pat::Paren(pp) => heads(&pp.pat, out),
                        _ => false,
                    }
                }
                fn binds(p: &syn::Pat) -> bool { let mut v = vec![]; collect_pat_idents(p, &mut v); v.iter().any(|n| n.chars().next().map(|c| c.is_lowercase() || c == '_').unwrap_or(false)) }
                let (s0, _) = self.src.range(mm.span());
                // special case: the FIRST arm is `_ if G => B` (nothing else guarded): `if G { B } else { match e { the other arms } }`
                if mm.arms.len() >= 2 && matches!(mm.arms[0].pat, syn::Pat::Wild(_)) && mm.arms[0].guard.is_some() && mm.arms.iter().skip(1).all(|a| a.guard.is_none()) {
                    let a0 = &mm.arms[0];
                    let (gs1, ge1) = self.src.range(a0.guard.as_ref().unwrap().1.span());
                    let (bs1, be1) = self.src.range(a0.body.span());
                    let gtxt = norm_ws(&self.src.text[gs1..ge1]);
                    let btxt = norm_ws(&self.src.text[bs1..be1]);
                    let untouched = |t: &str| !(t.contains(".lock(") || t.contains(".try_lock(") || t.contains("!(") || t.contains("|| {") || t.contains("async") || t.contains(".await")
                        || self.spec.rules.call.keys().any(|c| t.contains(&format!("{}(", c))) || self.spec.rules.path.keys().any(|c| t.contains(c.as_str())));
                    if untouched(&gtxt) && untouched(&btxt) {
                        let (ms, me) = self.src.range(mm.span());
                        let (a0s, a0e) = self.src.range(a0.span());
                        // end of the first arm including its comma
                        let mut arm_end = a0e;
                        while arm_end < me && self.src.text.as_bytes()[arm_end].is_ascii_whitespace() { arm_end += 1; }
                        if arm_end < me && self.src.text.as_bytes()[arm_end] == b',' { arm_end += 1; }
                        self.edit(ms, ms, format!("if {} {{ {} }} else {{ ", gtxt, btxt), -3);
                        self.edit(a0s, arm_end, String::new(), 0);
                        self.edit(me, me, " }".to_string(), 3);
                        self.notes.push(format!("R27 leading `_ if G` arm at {}:{} rewritten as if/else around the match", self.src.rel, self.src.line_of(a0s)));
                        // the remaining arms are visited as usual; the removed arm's text is not
                        self.visit_expr(&mm.expr);
                        for a in mm.arms.iter().skip(1) { self.visit_pat(&a.pat); self.visit_expr(&a.body); }
                        return;
                    }
                }
                let mut plan: Vec<(usize, usize)> = vec![];   // (guarded arm, fall-through arm)
                let mut ok = true;
                for (k, a) in mm.arms.iter().enumerate() {
                    if a.guard.is_none() { continue; }
                    let mut hk = vec![];
                    if !heads(&a.pat, &mut hk) || hk.len() != 1 { ok = false; break; }
                    let mut target = None;
                    for (j, b) in mm.arms.iter().enumerate().skip(k + 1) {
                        let wild = matches!(b.pat, syn::Pat::Wild(_));
                        let mut hb = vec![];
                        let known = heads(&b.pat, &mut hb);
                        if wild || (known && hb.contains(&hk[0])) { if b.guard.is_some() || (!wild && binds(&b.pat)) { ok = false; } else { target = Some(j); } break; }
                        if !known { ok = false; break; }
                    }
                    match target { Some(j) if ok => plan.push((k, j)), _ => { ok = false; break; } }
                }
                // the guard and the duplicated fall-through body are copied as text: they must not contain anything the rewriter would touch
                if ok {
                    for (k, j) in &plan {
                        let g = mm.arms[*k].guard.as_ref().unwrap();
                        let (s1, e1) = self.src.range(g.1.span());
                        let (s2, e2) = self.src.range(mm.arms[*j].body.span());
                        for t in [&self.src.text[s1..e1], &self.src.text[s2..e2]] {
                            if t.contains(".lock(") || t.contains(".try_lock(") || t.contains('!') && t.contains("!(") || t.contains("||") && t.contains("|| {") || t.contains("async") || t.contains(".await")
                                || self.spec.rules.call.keys().any(|c| t.contains(&format!("{}(", c))) || self.spec.rules.path.keys().any(|c| t.contains(c.as_str())) { ok = false; }
                        }
                    }
                }
                if ok {
                    for (k, j) in plan {
                        let a = &mm.arms[k];
                        let (gs, ge) = { let g = a.guard.as_ref().unwrap(); let (s1, _) = self.src.range(g.0.span()); let (_, e1) = self.src.range(g.1.span()); (s1, e1) };
                        let gtxt = { let g = a.guard.as_ref().unwrap(); let (s1, e1) = self.src.range(g.1.span()); self.src.text[s1..e1].to_string() };
                        let (bs, be) = self.src.range(a.body.span());
                        let (es, ee) = self.src.range(mm.arms[j].body.span());
                        let else_txt = norm_ws(&self.src.text[es..ee]);
                        self.edit(gs, ge, String::new(), 0);                                   // drop ` if G`
                        self.edit(bs, bs, format!("{{ if {} {{ ", norm_ws(&gtxt)), -2);       // `=> { if G { B } else { E } }`
                        self.edit(be, be, format!(" }} else {{ {} }} }}", else_txt), 2);
                        self.notes.push(format!("R27 guarded arm at {}:{} rewritten as if/else (falls through to the arm at line {})", self.src.rel, self.src.line_of(gs), self.src.line_of(es)));
                    }
                } else {
                    self.unmodelled_closures += 1;
                    self.notes.push(format!("match with a guarded arm at {}:{}: the verifier is incomplete on guards and the arm cannot be rewritten (failures in this function are not believed)", self.src.rel, self.src.line_of(s0)));
                }
            }
            Expr::Async(a) => {
                // R24: an `async` block that is not the one being lifted is a value: nothing inside it runs when the enclosing function
                // runs (it runs when, and if, it is polled), so for the function's contract it is an opaque future
                let (s0, e0) = self.src.range(a.span());
                self.edit(s0, e0, "opaque_async_value()".to_string(), 0);
                self.notes.push(format!("R24 async block at {}:{} is an opaque value (its body does not run at call time)", self.src.rel, self.src.line_of(s0)));
                return;
            }
            Expr::Await(a) => {
                // R10: `e.await` -> `await_shim(e)`
                let (bs, _) = self.src.range(a.base.span());
                let (_, be) = self.src.range(a.base.span());
                let (_, ae) = self.src.range(a.span());
                self.edit(bs, bs, "await_shim(".to_string(), -1);
                let extra = self.spec.rules.call.get("await").map(|a| format!(", {}", a)).unwrap_or_default();
                self.edit(be, ae, format!("{})", extra), 0);
            }
            Expr::Unsafe(u) if !self.spec.keep_unsafe => {
                let (us, _) = self.src.range(u.unsafe_token.span());
                let (bs, _) = self.src.range(u.block.span());
                self.edit(us, bs, String::new(), 0);
            }
            Expr::While(w) => {
                let n = self.loop_no;
                self.loop_no += 1;
                self.loop_heads.push(format!("while:{}", norm_ws(self.text(w.cond.span()))));
                if let Some(inv) = self.spec.loops.get(&n) {
                    let (bs, _) = self.src.range(w.body.span());
                    self.edit(bs, bs, format!("\n{}\n", inv), 0);
                    self.used_loops.push(n);
                }
            }
            Expr::Loop(l) => {
                let n = self.loop_no;
                self.loop_no += 1;
                self.loop_heads.push("loop".to_string());
                if let Some(inv) = self.spec.loops.get(&n) {
                    let (bs, _) = self.src.range(l.body.span());
                    self.edit(bs, bs, format!("\n{}\n", inv), 0);
                    self.used_loops.push(n);
                }
            }
            Expr::ForLoop(l) => {
                let n = self.loop_no;
                self.loop_no += 1;
                self.loop_heads.push(format!("for:{} in {}", norm_ws(self.text(l.pat.span())), norm_ws(self.text(l.expr.span()))));
                let inv = self.spec.loops.get(&n).cloned().unwrap_or_default();
                if self.spec.loops.contains_key(&n) {
                    self.used_loops.push(n);
                }
                // R28 (for-loop form): `for p in X.iter() {` / `for p in X.iter_mut() {` with X a place expression and p a plain name -> the same
                // index loop the `for_each` form becomes (same loop head, same invariants; the index is advanced before the body, so `continue`
                // and `break` keep their meaning)
                {
                    fn is_place(e: &Expr) -> bool { match e { Expr::Path(_) => true, Expr::Field(f) => is_place(&f.base), _ => false } }
                    if let (Expr::MethodCall(m), syn::Pat::Ident(pi)) = (&*l.expr, &*l.pat) {
                        if (m.method == "iter" || m.method == "iter_mut") && m.args.is_empty() && is_place(&m.receiver) && pi.by_ref.is_none() && pi.subpat.is_none() {
                            let recv = norm_ws(self.text(m.receiver.span()));
                            self.loop_heads.pop();
                            self.loop_heads.push(format!("foreach:iter:{}", recv));
                            let (fs, _) = self.src.range(l.for_token.span());
                            let (bs, _) = self.src.range(l.body.span());
                            let (_, le) = self.src.range(l.span());
                            let mt = if m.method == "iter_mut" { "mut " } else { "" };
                            self.edit(fs, bs + 1, format!("{{ let mut fe_i__: usize = 0; while fe_i__ < {}.len()\n{}\n{{ let {} = &{}{}[fe_i__]; fe_i__ = fe_i__ + 1;", recv, inv, pi.ident, mt, recv), 0);
                            self.edit(le, le, " }".to_string(), 4);
                            self.notes.push(format!("R28 for-loop over {}.{}() rewritten as an index loop at {}:{}", recv, m.method, self.src.rel, self.src.line_of(fs)));
                            self.visit_block(&l.body);
                            return;
                        }
                    }
                }
                // R15: `for &(ref a, ref b) in X.iter() {` -> index loop (Verus has no ref patterns)
                let mut fields: Vec<String> = vec![];
                let mut ok = false;
                if let syn::Pat::Reference(r) = &*l.pat {
                    if let syn::Pat::Tuple(t) = &*r.pat {
                        ok = true;
                        for el in &t.elems {
                            match el {
                                syn::Pat::Ident(pi) if pi.by_ref.is_some() => fields.push(pi.ident.to_string()),
                                _ => ok = false,
                            }
                        }
                    }
                }
                let mut recv_txt = String::new();
                if let Expr::MethodCall(m) = &*l.expr {
                    if m.method == "iter" && m.args.is_empty() {
                        recv_txt = self.text(m.receiver.span()).to_string();
                    } else { ok = false; }
                } else { ok = false; }
                if ok {
                    let (fs, _) = self.src.range(l.for_token.span());
                    let (bs, _) = self.src.range(l.body.span());
                    let mut t = format!("let mut idx__: usize = 0;\nwhile idx__ < {}.len()\n{}\n{{ let elem__ = &{}[idx__];", recv_txt, inv, recv_txt);
                    for (k, f) in fields.iter().enumerate() {
                        t.push_str(&format!(" let {} = &elem__.{};", f, k));
                    }
                    t.push_str(" idx__ = idx__ + 1;");
                    self.edit(fs, bs + 1, t, 0);
                    self.notes.push(format!("R15 for-loop over {}.iter() rewritten as an index loop at {}:{}", recv_txt, self.src.rel, self.src.line_of(fs)));
                    self.visit_block(&l.body);
                    return;
                } else if !inv.is_empty() {
                    let (bs, _) = self.src.range(l.body.span());
                    self.edit(bs, bs, format!("\n{}\n", inv), 0);
                }
            }
            _ => {}
        }
        if let Expr::MethodCall(m) = e {
            self.visit_expr(&m.receiver);
            self.call_stack.push(m.method.to_string());
            for a in &m.args {
                self.visit_expr(a);
            }
            self.call_stack.pop();
            return;
        }
        visit::visit_expr(self, e);
    }
}

/// find the n-th closure / async block (pre-order) inside a block
struct FindInner<'ast> {
    want_closure: Option<usize>,
    want_async: Option<usize>,
    nc: usize,
    na: usize,
    found_closure: Option<&'ast syn::ExprClosure>,
    found_async: Option<&'ast syn::ExprAsync>,
}
impl<'ast> Visit<'ast> for FindInner<'ast> {
    fn visit_expr_closure(&mut self, c: &'ast syn::ExprClosure) {
        if Some(self.nc) == self.want_closure && self.found_closure.is_none() {
            self.found_closure = Some(c);
        }
        self.nc += 1;
        visit::visit_expr_closure(self, c);
    }
    fn visit_expr_async(&mut self, a: &'ast syn::ExprAsync) {
        if Some(self.na) == self.want_async && self.found_async.is_none() {
            self.found_async = Some(a);
        }
        self.na += 1;
        visit::visit_expr_async(self, a);
    }
}

struct Out {
    text: String,
    /// per output line: origin string
    origins: Vec<String>,
}
impl Out {
    fn push(&mut self, s: &str, origin: &str) {
        for (i, part) in s.split('\n').enumerate() {
            if i > 0 {
                self.text.push('\n');
                self.origins.push(origin.to_string());
            }
            self.text.push_str(part);
        }
        if self.origins.is_empty() {
            self.origins.push(origin.to_string());
        }
    }
    fn set_last_origin(&mut self, origin: &str) {
        if let Some(l) = self.origins.last_mut() {
            *l = origin.to_string();
        }
    }
}

fn apply_edits(src: &SourceFile, start: usize, end: usize, mut edits: Vec<Edit>, out: &mut Out) {
    edits.sort_by(|a, b| (a.start, a.prio, a.end).cmp(&(b.start, b.prio, b.end)));
    let mut pos = start;
    let emit_src = |from: usize, to: usize, out: &mut Out| {
        // emit original text line by line so that each output line gets its repo origin
        let mut p = from;
        while p < to {
            let nl = src.text[p..to].find('\n').map(|i| p + i + 1).unwrap_or(to);
            let seg = &src.text[p..nl];
            let origin = format!("repo:{}:{}", src.rel, src.line_of(p));
            out.set_last_origin(&origin);
            out.push(seg, &origin);
            p = nl;
        }
    };
    for e in edits {
        if e.start < pos {
            if e.start == e.end && e.start >= start {
                // insertion inside an already replaced range: drop
                continue;
            }
            die(&format!("{}:{}: overlapping rewrites (internal)", src.rel, src.line_of(e.start)));
        }
        if e.end > end {
            continue;
        }
        emit_src(pos, e.start, out);
        let origin = format!("splice:{}:{}", src.rel, src.line_of(e.start));
        out.push(&e.text, &origin);
        pos = e.end;
    }
    emit_src(pos, end, out);
}

fn parse_kv(line: &str) -> BTreeMap<String, String> {
    // key=value pairs separated by spaces; value may be quoted with "..."
    let mut m = BTreeMap::new();
    let mut rest = line.trim();
    while !rest.is_empty() {
        let eq = match rest.find('=') {
            Some(i) => i,
            None => break,
        };
        let key = rest[..eq].trim().to_string();
        let after = &rest[eq + 1..];
        let (val, next) = if after.starts_with('"') {
            let close = after[1..].find('"').map(|i| i + 1).unwrap_or(after.len() - 1);
            (after[1..close].to_string(), &after[(close + 1).min(after.len())..])
        } else {
            let sp = after.find(' ').unwrap_or(after.len());
            (after[..sp].to_string(), &after[sp..])
        };
        m.insert(key, val);
        rest = next.trim_start();
    }
    m
}

fn split_arrow(s: &str) -> (String, String) {
    match s.find("=>") {
        Some(i) => (s[..i].trim().to_string(), s[i + 2..].trim().to_string()),
        None => die(&format!("directive needs `=>`: {}", s)),
    }
}

fn main() {
    std::panic::set_hook(Box::new(|_| {}));
    let args: Vec<String> = std::env::args().collect();
    let mut repo = "/repo".to_string();
    let mut tmpl = String::new();
    let mut outp = String::new();
    let mut mapp = String::new();
    let mut i = 1;
    while i < args.len() {
        match args[i].as_str() {
            "--repo" => { repo = args[i + 1].clone(); i += 2; }
            "--tmpl" => { tmpl = args[i + 1].clone(); i += 2; }
            "--out" => { outp = args[i + 1].clone(); i += 2; }
            "--map" => { mapp = args[i + 1].clone(); i += 2; }
            "--dropscan" => {
                dropscan(&repo, &args[i + 1..]);
                return;
            }
            "--bindscan" => {
                bindscan(&repo, &args[i + 1..]);
                return;
            }
            "--fnscan" => {
                fnscan(&repo, &args[i + 1..]);
                return;
            }
            "--unsafescan" => {
                unsafescan(&repo, &args[i + 1..]);
                return;
            }
            "--lockscan" => {
                lockscan(&repo, &args[i + 1..]);
                return;
            }
            _ => die(&format!("unknown argument {}", args[i])),
        }
    }
    let tmpl_text = std::fs::read_to_string(&tmpl).unwrap_or_else(|e| die(&format!("cannot read template {}: {}", tmpl, e)));
    let lines: Vec<&str> = tmpl_text.lines().collect();
    // R25: names bound by every function under contract when the templates were written (`func\tn1 n2 ...` per line; specs/bindings.txt)
    let pinned_bindings: BTreeMap<String, Vec<String>> = std::env::var("VEXTRACT_BINDINGS").ok().and_then(|p| std::fs::read_to_string(p).ok())
        .map(|t| t.lines().filter_map(|l| { let mut it = l.splitn(2, '\t'); let f = it.next()?.to_string(); let ns = it.next().unwrap_or("").split_whitespace().map(|x| x.to_string()).collect(); Some((f, ns)) }).collect())
        .unwrap_or_default();
    let mut bindings_out: Vec<String> = vec![];
    // last path segment of every function under contract in this unit (R19 never inlines these)
    let contract_names: std::collections::BTreeSet<String> = lines.iter().filter_map(|l| l.trim().strip_prefix("//@BODY ")).filter_map(|r| parse_kv(r).get("fn").cloned())
        .map(|f| f.rsplit("::").next().unwrap_or("").to_string()).collect();
    let mut out = Out { text: String::new(), origins: vec![] };
    let mut unit_rules = Rules::default();
    let mut files: BTreeMap<String, SourceFile> = BTreeMap::new();
    let mut notes: Vec<String> = vec![];
    let mut bodies: Vec<String> = vec![];
    // shape of every extracted body: `func[#closure/async]\tloops` (the driver compares the loop count with the pinned one: invariants are
    // attached to loops by ordinal, so a body with MORE loops than when the invariants were written cannot be judged)
    let mut shapes: Vec<String> = vec![];
    let mut extracted_sites: Vec<String> = vec![];
    let mut stubbed: Vec<String> = vec![];
    let mut new_lock_sites: Vec<String> = vec![];

    let mut ln = 0usize;
    while ln < lines.len() {
        let line = lines[ln];
        let t = line.trim_start();
        if !t.starts_with("//@") {
            out.push(line, &format!("tmpl:{}", ln + 1));
            out.push("\n", &format!("tmpl:{}", ln + 1));
            ln += 1;
            continue;
        }
        let d = &t[3..];
        if let Some(r) = d.strip_prefix("UNIT-LOCK ") {
            let (k, v) = split_arrow(r);
            unit_rules.lock.insert(k, v);
            ln += 1;
        } else if let Some(r) = d.strip_prefix("UNIT-CALL ") {
            let (k, v) = split_arrow(r);
            unit_rules.call.insert(k, v);
            ln += 1;
        } else if let Some(r) = d.strip_prefix("UNIT-PANIC ") {
            let (k, v) = split_arrow(r);
            unit_rules.panic.push((k.trim_matches('"').to_string(), v));
            ln += 1;
        } else if let Some(r) = d.strip_prefix("UNIT-DEFAULT-CLOSURE ") {
            let (_, v) = split_arrow(r);
            unit_rules.default_closure = Some(v);
            ln += 1;
        } else if let Some(r) = d.strip_prefix("UNIT-RETAIN ") {
            unit_rules.retain_shim = Some(r.trim().to_string());
            ln += 1;
        } else if let Some(r) = d.strip_prefix("UNIT-PATH ") {
            let (k, v) = split_arrow(r);
            unit_rules.path.insert(k, v);
            ln += 1;
        } else if let Some(r) = d.strip_prefix("UNIT-MACRO ") {
            let (k, v) = split_arrow(r);
            unit_rules.mac1.insert(k, v);
            ln += 1;
        } else if let Some(r) = d.strip_prefix("CONSTS ") {
            // every module-level `const` of the file is copied (bodies may refer to them)
            let kv = parse_kv(r);
            let rel = kv.get("file").unwrap_or_else(|| die("CONSTS needs file=")).clone();
            let src = files.entry(rel.clone()).or_insert_with(|| SourceFile::load(&repo, &rel));
            for it in &src.ast.items {
                if let syn::Item::Const(c) = it {
                    let (ks, _) = src.range(c.const_token.span());
                    let (_, e) = src.range(c.span());
                    out.push("pub ", &format!("tmpl:{}", ln + 1));
                    apply_edits(src, ks, e, vec![], &mut out);
                    out.push("\n", &format!("tmpl:{}", ln + 1));
                    notes.push(format!("const {} copied from {}", c.ident, rel));
                }
            }
            ln += 1;
        } else if let Some(r) = d.strip_prefix("ITEM ") {
            let kv = parse_kv(r);
            let rel = kv.get("file").unwrap_or_else(|| die("ITEM needs file=")).clone();
            let src = files.entry(rel.clone()).or_insert_with(|| SourceFile::load(&repo, &rel));
            let name = kv.get("name").unwrap_or_else(|| die("ITEM needs name=")).clone();
            let mut found = None;
            for it in &src.ast.items {
                match it {
                    syn::Item::Enum(e) if e.ident == name => found = Some((e.span(), e.attrs.clone(), e.vis.span(), e.enum_token.span())),
                    syn::Item::Struct(s) if s.ident == name => found = Some((s.span(), s.attrs.clone(), s.vis.span(), s.struct_token.span())),
                    _ => {}
                }
            }
            // private named fields are made `pub` (the generated file is one flat module)
            let mut field_edits: Vec<Edit> = vec![];
            for it in &src.ast.items {
                if let syn::Item::Struct(st) = it {
                    if st.ident == name {
                        if let syn::Fields::Named(nf) = &st.fields {
                            for f in &nf.named {
                                if matches!(f.vis, syn::Visibility::Inherited) {
                                    if let Some(id) = &f.ident {
                                        let (fs, _) = src.range(id.span());
                                        field_edits.push(Edit { start: fs, end: fs, text: "pub ".to_string(), prio: 0 });
                                    }
                                }
                            }
                        }
                    }
                }
            }
            let (sp, attrs, _vis, kw) = found.unwrap_or_else(|| die(&format!("ITEM {} not found in {}", name, rel)));
            let (_s, e) = src.range(sp);
            let (ks, _) = src.range(kw);
            // drop doc comments/attrs; emit derives + pub + item text from keyword
            let mut derives: Vec<String> = vec![];
            for a in &attrs {
                if a.path().is_ident("derive") {
                    let ts: TokenStream = a.parse_args().unwrap_or_default();
                    for d in ts.to_string().split(',') {
                        let d = d.trim();
                        if !d.is_empty() {
                            derives.push(d.to_string());
                        }
                    }
                }
            }
            if let Some(extra) = kv.get("derive") {
                for d in extra.split(',') {
                    if !derives.iter().any(|x| x == d) {
                        derives.push(d.to_string());
                    }
                }
            }
            if let Some(drop) = kv.get("underive") {
                for d in drop.split(',') {
                    derives.retain(|x| x != d);
                }
            }
            out.push(&format!("#[derive({})]\npub ", derives.join(", ")), &format!("tmpl:{}", ln + 1));
            let mut edits = field_edits;
            // `pub (super)` / `pub (crate)` inside the item -> `pub`
            let body = &src.text[ks..e];
            let mut search = 0;
            while let Some(p) = body[search..].find("pub (") {
                let abs = ks + search + p;
                if let Some(close) = src.text[abs..e].find(')') {
                    edits.push(Edit { start: abs, end: abs + close + 1, text: "pub".to_string(), prio: 0 });
                }
                search += p + 5;
            }
            apply_edits(src, ks, e, edits, &mut out);
            out.push("\n", &format!("tmpl:{}", ln + 1));
            notes.push(format!("ITEM {} copied from {}", name, rel));
            ln += 1;
        } else if let Some(r) = d.strip_prefix("BODY ") {
            // collect sub-directives until //@END
            let kv = parse_kv(r);
            let mut spec = BodySpec::default();
            spec.tmpl_line = ln + 1;
            spec.file = kv.get("file").unwrap_or_else(|| die("BODY needs file=")).clone();
            spec.func = kv.get("fn").unwrap_or_else(|| die("BODY needs fn=")).clone();
            spec.params = kv.get("params").map(|p| if p.is_empty() { vec![] } else { p.split(',').map(|s| s.trim().to_string()).collect() });
            spec.closure = kv.get("closure").map(|c| c.parse().unwrap());
            spec.lift = kv.get("async").cloned();
            spec.keep_unsafe = kv.get("keep_unsafe").is_some();
            spec.rules = unit_rules.clone();
            {
                // the template's own declaration of this function precedes the directive: `fn name(<params>)` (ghost parameters skipped)
                let mut k = ln;
                while k > 0 && !(lines[k].contains("fn ") && lines[k].contains('(') && !lines[k].trim_start().starts_with("//")) { k -= 1; }
                let decl: String = lines[k..ln].join(" ");
                // the parameter list is the first `(` after `fn name` that is not inside the generics `<..>` (`->` is not a bracket)
                let open = decl.find("fn ").and_then(|f| {
                    let b = decl.as_bytes(); let mut i = f + 3; let mut angle = 0i32;
                    while i < b.len() {
                        if b[i] == b'-' && i + 1 < b.len() && b[i + 1] == b'>' { i += 2; continue; }
                        match b[i] { b'<' => angle += 1, b'>' => angle -= 1, b'(' if angle == 0 => return Some(i), _ => {} }
                        i += 1;
                    }
                    None
                });
                if let Some(open) = open {
                    let mut depth = 0i32; let mut cur = String::new(); let mut parts: Vec<String> = vec![];
                    let cs: Vec<char> = decl[open..].chars().collect();
                    let mut k = 0;
                    while k < cs.len() {
                        let ch = cs[k];
                        if ch == '-' && k + 1 < cs.len() && cs[k + 1] == '>' { cur.push_str("->"); k += 2; continue; }
                        match ch {
                            '(' | '<' | '[' => { depth += 1; if depth > 1 { cur.push(ch); } }
                            ')' | '>' | ']' => { depth -= 1; if depth == 0 { parts.push(cur.clone()); break; } cur.push(ch); }
                            ',' if depth == 1 => { parts.push(cur.clone()); cur.clear(); }
                            _ => cur.push(ch),
                        }
                        k += 1;
                    }
                    for p in parts {
                        let p = p.trim();
                        if p.starts_with("Tracked(") || p.starts_with("Ghost(") { continue; }
                        if let Some(c) = p.find(':') {
                            let name = p[..c].trim().trim_start_matches("mut ").trim();
                            if !name.is_empty() && name.chars().all(|ch| ch.is_alphanumeric() || ch == '_') { spec.tmpl_params.push(name.to_string()); }
                        }
                    }
                }
            }
            ln += 1;
            let mut cur: Option<(String, String)> = None; // (kind+arg, accumulated text)
            let mut pending_replace: Option<(String, bool)> = None;
            let mut flush = |cur: &mut Option<(String, String)>, spec: &mut BodySpec, pending_replace: &mut Option<(String, bool)>| {
                if let Some((k, txt)) = cur.take() {
                    let txt = txt.trim_end_matches('\n').to_string();
                    let mut it = k.splitn(2, ' ');
                    let kind = it.next().unwrap();
                    let arg = it.next().unwrap_or("").trim();
                    match kind {
                        "LOOP" => {
                            let mut it = arg.split_whitespace();
                            let n: usize = it.next().unwrap_or("").parse().unwrap_or_else(|_| die("LOOP needs ordinal"));
                            if it.next() == Some("optional") {
                                spec.optional_loops.push(n);
                            }
                            spec.loops.insert(n, txt);
                        }
                        "PROLOGUE" => spec.prologue = txt,
                        "EPILOGUE" => spec.epilogue = txt,
                        "AFTER-LET" => {
                            let mut p = arg.split_whitespace();
                            let id = p.next().unwrap_or_else(|| die("AFTER-LET needs ident")).to_string();
                            let mut ord = 0usize;
                            let mut opt = false;
                            for w in p {
                                if w == "optional" { opt = true; } else if let Ok(n) = w.parse() { ord = n; }
                            }
                            spec.after_let.push((id, ord, opt, txt));
                        }
                        "BEFORE" | "AFTER" => {
                            // arg: [#n] prefix text
                            let (arg, opt) = match arg.strip_prefix("optional ") { Some(a) => (a.trim(), true), None => (arg, false) };
                            let (ord, pre) = if arg.starts_with('#') {
                                let sp = arg.find(' ').unwrap_or(arg.len());
                                (arg[1..sp].parse().unwrap_or(0), arg[sp..].trim())
                            } else { (0usize, arg) };
                            if kind == "BEFORE" { spec.before_stmt.push((norm_ws(pre), ord, txt)); spec.before_opt.push(opt); } else { spec.after_stmt.push((norm_ws(pre), ord, txt)); spec.after_opt.push(opt); }
                        }
                        "REPLACE" => { *pending_replace = Some((norm_ws(&txt), arg == "optional")); }
                        "WITH" => {
                            let (orig, opt) = pending_replace.take().unwrap_or_else(|| die("WITH without REPLACE"));
                            spec.replace.push((orig, txt, opt));
                        }
                        _ => die(&format!("unknown block directive {}", kind)),
                    }
                }
            };
            loop {
                if ln >= lines.len() {
                    die(&format!("BODY at template line {} has no //@END", spec.tmpl_line));
                }
                let l = lines[ln];
                let lt = l.trim_start();
                if let Some(dd) = lt.strip_prefix("//@") {
                    flush(&mut cur, &mut spec, &mut pending_replace);
                    if dd.starts_with("END") {
                        ln += 1;
                        break;
                    } else if let Some(r) = dd.strip_prefix("LOCK ") {
                        let (k, v) = split_arrow(r);
                        spec.rules.lock.insert(k, v);
                    } else if let Some(r) = dd.strip_prefix("CALL ") {
                        let (k, v) = split_arrow(r);
                        if v == "NONE" { spec.rules.call.remove(&k); } else { spec.rules.call.insert(k, v); }
                    } else if let Some(r) = dd.strip_prefix("MACRO ") {
                        let (k, v) = split_arrow(r);
                        spec.rules.mac1.insert(k, v);
                    } else if let Some(r) = dd.strip_prefix("PATH ") {
                        let (k, v) = split_arrow(r);
                        spec.rules.path.insert(k, v);
                    } else if let Some(r) = dd.strip_prefix("PANIC ") {
                        let (k, v) = split_arrow(r);
                        spec.rules.panic.insert(0, (k.trim_matches('"').to_string(), v));
                    } else if let Some(r) = dd.strip_prefix("CLOSURE ") {
                        let (k, v) = split_arrow(r);
                        let mut it = k.split_whitespace();
                        let n: usize = it.next().unwrap_or("").parse().unwrap_or_else(|_| die("CLOSURE needs ordinal"));
                        if it.next() == Some("optional") {
                            spec.optional_closures.push(n);
                        }
                        spec.closures.insert(n, v);
                    } else {
                        cur = Some((dd.trim().to_string(), String::new()));
                    }
                } else if let Some((_, ref mut txt)) = cur {
                    txt.push_str(l);
                    txt.push('\n');
                } else if !lt.is_empty() {
                    die(&format!("template line {}: text outside a block directive inside BODY", ln + 1));
                }
                ln += 1;
            }
            let indent0 = line[..line.len() - t.len()].to_string();
            files.entry(spec.file.clone()).or_insert_with(|| SourceFile::load(&repo, &spec.file));
            let saved_text_len = out.text.len();
            let saved_orig_len = out.origins.len();
            SOFT.with(|s| s.set(true));
            let res = std::panic::catch_unwind(std::panic::AssertUnwindSafe(|| {
                let base = files.get(&spec.file).unwrap();
                // R19: helpers of the same file that are not under contract are inlined (line numbers stay those of the repository)
                let under_contract = |name: &str| -> bool {
                    contract_names.contains(name) || spec.rules.call.contains_key(name) || tmpl_text.contains(&format!("fn {}(", name)) || tmpl_text.contains(&format!("fn {}<", name))
                };
                let extra_files: Vec<SourceFile> = ["src/scheduler/queue_state.rs", "src/scheduler/job_queue.rs"].iter().filter(|f| **f != spec.file.as_str() && std::path::Path::new(&format!("{}/{}", repo, f)).exists()).map(|f| SourceFile::load(&repo, f)).collect();
                let inl = inline_helpers(base, &extra_files, &spec.func, spec.closure, &spec.lift, &under_contract, &mut notes);
                let src: &SourceFile = match &inl { Some((f, _)) => f, None => base };
            let found = find_fn(&src.ast, &spec.func);
            if found.len() != 1 {
                die(&format!("anchor lost: {} matches {} functions named `{}`", spec.file, found.len(), spec.func));
            }
            let f = &found[0];
            // R25: consistent renaming of locals -> the same renaming of the template text of this body
            // (the bindings of the function as written in the repository: locals of helpers inlined by R19 are not the function's own)
            let now_bound = { let fb = find_fn(&base.ast, &spec.func); if fb.len() == 1 { collect_bindings(fb[0].block) } else { collect_bindings(f.block) } };
            let bkey = format!("{}::{}", spec.file, spec.func);
            if !bindings_out.iter().any(|l: &String| l.starts_with(&format!("{}\t", bkey))) { bindings_out.push(format!("{}\t{}", bkey, now_bound.join(" "))); }
            let mut r25_map: Vec<(String, String)> = vec![];
            let spec: BodySpec = match pinned_bindings.get(&bkey).and_then(|old| rename_map(old, &now_bound).and_then(|(map, amb)| rename_spec(&spec, &map, &amb, old, &now_bound).map(|s| (s, map)))) {
                Some((renamed, map)) => {
                    r25_map = map.clone();
                    notes.push(format!("R25 locals of {} renamed consistently ({}): the template text of this body is renamed with them", spec.func, map.iter().map(|(o, n)| format!("{}->{}", o, n)).collect::<Vec<_>>().join(", ")));
                    renamed
                }
                None => spec.clone(),
            };
            // signature check: parameter names in order
            if let Some(want) = &spec.params {
                let mut have = vec![];
                for inp in &f.sig.inputs {
                    match inp {
                        syn::FnArg::Receiver(_) => have.push("self".to_string()),
                        syn::FnArg::Typed(pt) => {
                            let mut ids = vec![];
                            collect_pat_idents(&pt.pat, &mut ids);
                            have.push(ids.join("_"));
                        }
                    }
                }
                if &have != want {
                    die(&format!("signature of {} changed: parameters {:?}, spec expects {:?}", spec.func, have, want));
                }
            }
            // choose the region
            let (region_block, region_expr) = select_region(f.block, spec.closure, &spec.lift).unwrap_or_else(|what| die(&format!("anchor lost: {} of {}", what, spec.func)));
            let mut rw = Rewriter {
                src,
                spec: &spec,
                edits: vec![],
                loop_no: 0,
                closure_no: 0,
                let_counts: BTreeMap::new(),
                before_counts: vec![0; spec.before_stmt.len()],
                after_counts: vec![0; spec.after_stmt.len()],
                used_loops: vec![],
                used_closures: vec![],
                used_after_let: vec![false; spec.after_let.len()],
                used_before: vec![false; spec.before_stmt.len()],
                used_after: vec![false; spec.after_stmt.len()],
                used_replace: vec![0; spec.replace.len()],
                consumed_closures: vec![],
                notes: vec![],
                skip_ranges: vec![],
                guard_scopes: vec![],
                call_stack: vec![],
                unmodelled_closures: 0,
                loop_heads: vec![],
            };
            let (rs, re);
            if let Some(b) = region_block {
                rw.visit_block(b);
                let (s, e) = src.range(b.span());
                rs = s + 1; // inside the braces
                re = e - 1;
            } else {
                let e = region_expr.unwrap();
                rw.visit_expr(e);
                let (s, en) = src.range(e.span());
                rs = s;
                re = en;
            }
            // anchors must all be used
            for (n, _) in &spec.loops {
                if !rw.used_loops.contains(n) && !spec.optional_loops.contains(n) {
                    die(&format!("anchor lost: loop #{} of {}", n, spec.func));
                }
            }
            for (n, _) in &spec.closures {
                if !rw.used_closures.contains(n) && !spec.optional_closures.contains(n) {
                    die(&format!("anchor lost: closure #{} of {}", n, spec.func));
                }
            }
            for (k, u) in rw.used_after_let.iter().enumerate() {
                if !u && !spec.after_let[k].2 {
                    die(&format!("anchor lost: `let {}` #{} in {}", spec.after_let[k].0, spec.after_let[k].1, spec.func));
                }
            }
            for (k, u) in rw.used_before.iter().enumerate() {
                if !u && !spec.before_opt[k] {
                    die(&format!("anchor lost: statement `{}` in {}", spec.before_stmt[k].0, spec.func));
                }
            }
            for (k, u) in rw.used_after.iter().enumerate() {
                if !u && !spec.after_opt[k] {
                    die(&format!("anchor lost: statement `{}` in {}", spec.after_stmt[k].0, spec.func));
                }
            }
            for (k, u) in rw.used_replace.iter().enumerate() {
                if *u != 1 && !(spec.replace[k].2 && *u == 0) {
                    die(&format!("anchor lost: REPLACE text `{}` matched {} times in {}", spec.replace[k].0, u, spec.func));
                }
            }
            let edits = rw.edits.clone();
            notes.extend(rw.notes.iter().cloned());
            let indent = &line[..line.len() - t.len()];
            if std::env::var("VEXTRACT_STUB").map(|v| v.split(';').any(|f| f == spec.func)).unwrap_or(false) {
                die(&format!("{} does not compile in the verifier's dialect on this tree (see the first run)", spec.func));
            }
            out.push(&format!("{}{{ // BODY-OF {}", indent, spec.func), &format!("tmpl:{}", spec.tmpl_line));
            if rw.unmodelled_closures > 0 {
                out.push(&format!("\n        // UNMODELLED-CLOSURE {}", spec.func), &format!("tmpl:{}", spec.tmpl_line));
            }
            if std::env::var("VEXTRACT_TWIN").is_ok() {
                out.push(&format!("\n        assert(false); // TWIN {}", spec.func), &format!("tmpl:{}", spec.tmpl_line));
            }
            if !spec.prologue.is_empty() {
                out.push(&format!("\n{}", spec.prologue), &format!("tmpl:{}", spec.tmpl_line));
            }
            // R20: a private fieldless enum declared at module level in the same file, mentioned by the body and unknown to the template, is
            // copied into the body (the same text as in the repository, comments dropped)
            if region_block.is_some() {
                let body_text = &src.text[rs..re];
                for it in &src.ast.items {
                    if let syn::Item::Enum(en) = it {
                        let name = en.ident.to_string();
                        let fieldless = en.variants.iter().all(|v| matches!(v.fields, syn::Fields::Unit)) && en.generics.params.is_empty();
                        let mentioned = body_text.match_indices(&name).any(|(i, _)| {
                            let before = body_text[..i].chars().last().map(|c| c.is_alphanumeric() || c == '_').unwrap_or(false);
                            let after = body_text[i + name.len()..].chars().next().map(|c| c.is_alphanumeric() || c == '_').unwrap_or(false);
                            !before && !after
                        });
                        if fieldless && mentioned && !tmpl_text.contains(&format!("enum {}", name)) {
                            let (es, ee) = src.range(en.span());
                            let txt: String = norm_ws(&src.text[es..ee]);
                            let txt = match txt.find("enum ") { Some(i) => txt[i..].to_string(), None => txt };
                            out.push(&format!("\n        {}", txt), &format!("tmpl:{}", spec.tmpl_line));
                            notes.push(format!("R20 enum {} of {} copied into the body of {}", name, spec.file, spec.func));
                        }
                    }
                }
            }
            if region_block.is_none() {
                out.push("\n", &format!("tmpl:{}", spec.tmpl_line));
            }
            apply_edits(src, rs, re, edits, &mut out);
            if !spec.epilogue.is_empty() {
                out.push(&format!("\n{}\n", spec.epilogue), &format!("tmpl:{}", spec.tmpl_line));
            }
            out.push("}\n", &format!("tmpl:{}", spec.tmpl_line));
            let bl = src.line_of(rs);
            let el = src.line_of(re);
            // (loop heads are compared with the pinned ones under the R25 renaming: a renamed loop variable is not a re-shaped loop)
            let heads: Vec<String> = rw.loop_heads.iter().map(|h| { let mut t = h.clone(); for (o, n) in &r25_map { t = replace_word(&t, n, o); } t }).collect();
            shapes.push(format!("{}{}\t{}", spec.func, if spec.closure.is_some() || spec.lift.is_some() { format!("#{:?}/{:?}", spec.closure, spec.lift) } else { String::new() }, heads.join(" || ")));
            bodies.push(format!("{}::{} ({}:{}-{}){}", spec.file, spec.func, spec.file, bl, el,
                if spec.closure.is_some() || spec.lift.is_some() { format!(" [closure={:?} async={:?}]", spec.closure, spec.lift) } else { String::new() }));
            match &inl {
                None => extracted_sites.push(format!("{}:{}:{}", spec.file, rs, re)),
                Some((_, helper_regions)) => {
                    // offsets of the rewritten text mean nothing in the repository's file: the whole function and the inlined helpers count
                    let of = find_fn(&base.ast, &spec.func);
                    if of.len() == 1 {
                        match select_region(of[0].block, spec.closure, &spec.lift) {
                            Ok((Some(b), _)) => { let (s0, e0) = base.range(b.span()); extracted_sites.push(format!("{}:{}:{}", spec.file, s0, e0)); }
                            Ok((None, Some(e))) => { let (s0, e0) = base.range(e.span()); extracted_sites.push(format!("{}:{}:{}", spec.file, s0, e0)); }
                            _ => {}
                        }
                    }
                    for (hs, he) in helper_regions { extracted_sites.push(format!("{}:{}:{}", spec.file, hs, he)); }
                }
            }
            }));
            SOFT.with(|s| s.set(false));
            if let Err(e) = res {
                let msg = e.downcast_ref::<String>().cloned().unwrap_or_else(|| "internal error".to_string());
                out.text.truncate(saved_text_len);
                out.origins.truncate(saved_orig_len);
                out.push(&format!("{}{{ proof {{ assume(false); }} panic_shim(Ghost(0u64)) }} // STUBBED {}\n", indent0, spec.func), &format!("tmpl:{}", spec.tmpl_line));
                stubbed.push(format!("{}::{}: {}", spec.file, spec.func, msg));
                // the whole function counts as a region so that S-cover can still be evaluated
                let src = files.get(&spec.file).unwrap();
                let found = find_fn(&src.ast, &spec.func);
                if found.len() == 1 {
                    let (s0, e0) = src.range(found[0].block.span());
                    extracted_sites.push(format!("{}:{}:{}", spec.file, s0, e0));
                    // ... except for lock sites on a structure this function's contract knows nothing about (no lock rule for the receiver):
                    // a function that starts taking a lock it did not take when its contract was written is a NEW, unverified critical
                    // section on that structure; the units that reason about that lock lose their rely condition (S-cover)
                    struct Locks<'s> { src: &'s SourceFile, out: Vec<(usize, String)> }
                    impl<'s, 'ast> Visit<'ast> for Locks<'s> {
                        fn visit_expr_method_call(&mut self, m: &'ast syn::ExprMethodCall) {
                            if (m.method == "lock" || m.method == "try_lock") && m.args.is_empty() {
                                let (ms, _) = self.src.range(m.method.span());
                                self.out.push((ms, recv_key(&m.receiver)));
                            }
                            visit::visit_expr_method_call(self, m);
                        }
                    }
                    let mut lk = Locks { src, out: vec![] };
                    lk.visit_block(found[0].block);
                    for (off, key) in lk.out {
                        if !spec.rules.lock.contains_key(&key) {
                            new_lock_sites.push(format!("{}:{} ({} in {})\t{}", spec.file, src.line_of(off), key, spec.func, key));
                        }
                    }
                }
            }
        } else {
            die(&format!("template line {}: unknown directive `{}`", ln + 1, d));
        }
    }
    std::fs::write(&outp, &out.text).unwrap_or_else(|e| die(&format!("cannot write {}: {}", outp, e)));
    // map file
    let mut j = String::new();
    j.push_str("{\n \"origins\": [");
    for (i, o) in out.origins.iter().enumerate() {
        if i > 0 { j.push(','); }
        let _ = write!(j, "\"{}\"", o.replace('\\', "\\\\").replace('"', "\\\""));
    }
    j.push_str("],\n \"bodies\": [");
    for (i, b) in bodies.iter().enumerate() {
        if i > 0 { j.push(','); }
        let _ = write!(j, "\"{}\"", b.replace('\\', "\\\\").replace('"', "\\\""));
    }
    j.push_str("],\n \"bindings\": [");
    for (i, b) in bindings_out.iter().enumerate() {
        if i > 0 { j.push(','); }
        let _ = write!(j, "\"{}\"", b.replace('\\', "\\\\").replace('"', "\\\"").replace('\t', "\\t"));
    }
    j.push_str("],\n \"shapes\": [");
    for (i, b) in shapes.iter().enumerate() {
        if i > 0 { j.push(','); }
        let _ = write!(j, "\"{}\"", b.replace('\\', "\\\\").replace('"', "\\\"").replace('\t', "\\t"));
    }
    j.push_str("],\n \"regions\": [");
    for (i, b) in extracted_sites.iter().enumerate() {
        if i > 0 { j.push(','); }
        let _ = write!(j, "\"{}\"", b);
    }
    j.push_str("],\n \"new_lock_sites\": [");
    for (i, b) in new_lock_sites.iter().enumerate() {
        if i > 0 { j.push(','); }
        let _ = write!(j, "\"{}\"", b.replace('\\', "\\\\").replace('"', "\\\"").replace('\t', "\\t"));
    }
    j.push_str("],\n \"stubbed\": [");
    for (i, b) in stubbed.iter().enumerate() {
        if i > 0 { j.push(','); }
        let _ = write!(j, "\"{}\"", b.replace('\\', "\\\\").replace('"', "\\\""));
    }
    j.push_str("],\n \"notes\": [");
    for (i, b) in notes.iter().enumerate() {
        if i > 0 { j.push(','); }
        let _ = write!(j, "\"{}\"", b.replace('\\', "\\\\").replace('"', "\\\""));
    }
    j.push_str("]\n}\n");
    if !mapp.is_empty() {
        std::fs::write(&mapp, j).unwrap_or_else(|e| die(&format!("cannot write {}: {}", mapp, e)));
    }
}

/// --unsafescan file...: every `unsafe` block with its enclosing fn, closure depth, the call(s) the enclosing closure is handed to, and the
/// calls of the enclosing fn that textually end before the site.
/// A closure that is bound by `let name = <closure>;` is attributed to every call it is passed to by name (`a|b`, sorted); if the name is used
/// in any other way the attribution is `?`.
fn unsafescan(repo: &str, files: &[String]) {
    /// per fn: (end offset, callee) of every call, and for every ident passed as a direct argument the callees / other uses
    struct Pre<'a> { src: &'a SourceFile, blocks: Vec<usize>, calls: Vec<(usize, String, Vec<usize>)>, arg_uses: Vec<(String, String)>, path_uses: std::collections::HashMap<String, usize> }
    impl<'a, 'ast> Visit<'ast> for Pre<'a> {
        fn visit_expr_call(&mut self, c: &'ast syn::ExprCall) {
            let name = if let Expr::Path(p) = &*c.func { p.path.segments.last().map(|s| s.ident.to_string()).unwrap_or_default() } else { String::new() };
            let (_, e) = self.src.range(c.span());
            self.calls.push((e, name.clone(), self.blocks.clone()));
            for a in c.args.iter() { if let Expr::Path(p) = a { if let Some(id) = p.path.get_ident() { self.arg_uses.push((id.to_string(), name.clone())); } } }
            visit::visit_expr_call(self, c);
        }
        fn visit_expr_method_call(&mut self, m: &'ast syn::ExprMethodCall) {
            let (_, e) = self.src.range(m.span());
            self.calls.push((e, m.method.to_string(), self.blocks.clone()));
            for a in m.args.iter() { if let Expr::Path(p) = a { if let Some(id) = p.path.get_ident() { self.arg_uses.push((id.to_string(), m.method.to_string())); } } }
            visit::visit_expr_method_call(self, m);
        }
        fn visit_expr_path(&mut self, p: &'ast syn::ExprPath) {
            if let Some(id) = p.path.get_ident() { *self.path_uses.entry(id.to_string()).or_insert(0) += 1; }
        }
        fn visit_block(&mut self, b: &'ast syn::Block) {
            let (s, _) = self.src.range(b.span());
            self.blocks.push(s);
            visit::visit_block(self, b);
            self.blocks.pop();
        }
        fn visit_expr_closure(&mut self, c: &'ast syn::ExprClosure) {
            // a closure body runs at another time: its calls never precede a site outside it
            let (s, _) = self.src.range(c.span());
            self.blocks.push(s);
            visit::visit_expr_closure(self, c);
            self.blocks.pop();
        }
    }
    struct V<'a> { src: &'a SourceFile, fns: Vec<String>, pres: Vec<(Vec<(usize, String, Vec<usize>)>, Vec<(String, String)>, std::collections::HashMap<String, usize>)>, blocks: Vec<usize>,
                   calls: Vec<String>, closure_depth: usize, closure_call: Vec<String>, let_closure: Option<(usize, String)> }
    impl<'a> V<'a> {
        fn enter_fn(&mut self, name: String, block: &syn::Block) {
            let mut p = Pre { src: self.src, blocks: vec![], calls: vec![], arg_uses: vec![], path_uses: Default::default() };
            p.visit_block(block);
            self.pres.push((p.calls, p.arg_uses, p.path_uses));
            self.fns.push(name);
        }
        fn leave_fn(&mut self) { self.fns.pop(); self.pres.pop(); }
    }
    impl<'a, 'ast> Visit<'ast> for V<'a> {
        fn visit_expr_unsafe(&mut self, u: &'ast syn::ExprUnsafe) {
            let (s, e) = self.src.range(u.span());
            let txt = norm_ws(&self.src.text[s..e]);
            // calls that end before the site and whose enclosing blocks all enclose the site too (a call in a sibling branch does not precede it)
            let chain = self.blocks.clone();
            let before: Vec<String> = self.pres.last().map(|p| p.0.iter()
                .filter(|(end, _, bl)| *end <= s && bl.len() <= chain.len() && bl.iter().zip(chain.iter()).all(|(a, b)| a == b))
                .map(|(_, n, _)| n.clone()).collect()).unwrap_or_default();
            println!("{}\t{}\t{}\t{}\t{}\t{}\t{}", self.src.rel, self.src.line_of(s), self.fns.last().cloned().unwrap_or_default(), self.closure_depth,
                self.closure_call.last().cloned().unwrap_or_default(), txt, before.join(","));
            visit::visit_expr_unsafe(self, u);
        }
        fn visit_expr_call(&mut self, c: &'ast syn::ExprCall) {
            let name = if let Expr::Path(p) = &*c.func { p.path.segments.last().map(|s| s.ident.to_string()).unwrap_or_default() } else { String::new() };
            self.calls.push(name);
            visit::visit_expr_call(self, c);
            self.calls.pop();
        }
        fn visit_expr_method_call(&mut self, m: &'ast syn::ExprMethodCall) {
            self.calls.push(m.method.to_string());
            visit::visit_expr_method_call(self, m);
            self.calls.pop();
        }
        fn visit_block(&mut self, b: &'ast syn::Block) {
            let (s, _) = self.src.range(b.span());
            self.blocks.push(s);
            visit::visit_block(self, b);
            self.blocks.pop();
        }
        fn visit_local(&mut self, l: &'ast syn::Local) {
            if let (syn::Pat::Ident(pi), Some(init)) = (&l.pat, &l.init) {
                if let Expr::Closure(c) = &*init.expr {
                    let (cs, _) = self.src.range(c.span());
                    self.let_closure = Some((cs, pi.ident.to_string()));
                }
            }
            visit::visit_local(self, l);
        }
        fn visit_expr_closure(&mut self, c: &'ast syn::ExprClosure) {
            self.closure_depth += 1;
            let (cs, _) = self.src.range(c.span());
            let call = match self.let_closure.take() {
                Some((at, name)) if at == cs => {
                    // bound to a name: the calls it is handed to by that name; any other use of the name makes the attribution unknown
                    let (_, arg_uses, path_uses) = self.pres.last().cloned().unwrap_or_default();
                    let mut cs: Vec<String> = arg_uses.iter().filter(|(id, _)| *id == name).map(|(_, callee)| callee.clone()).collect();
                    let n_args = cs.len();
                    cs.sort(); cs.dedup();
                    if n_args == 0 || path_uses.get(&name).cloned().unwrap_or(0) != n_args { "?".to_string() } else { cs.join("|") }
                }
                other => {
                    self.let_closure = other;
                    // the nearest enclosing call that is not a combinator on the closure's own result
                    self.calls.iter().rev().find(|n| *n != "boxed" && *n != "detach").cloned().unwrap_or_default()
                }
            };
            self.closure_call.push(call);
            self.blocks.push(cs);
            visit::visit_expr_closure(self, c);
            self.blocks.pop();
            self.closure_call.pop();
            self.closure_depth -= 1;
        }
        fn visit_impl_item_fn(&mut self, f: &'ast syn::ImplItemFn) {
            self.enter_fn(f.sig.ident.to_string(), &f.block);
            visit::visit_impl_item_fn(self, f);
            self.leave_fn();
        }
        fn visit_item_fn(&mut self, f: &'ast syn::ItemFn) {
            self.enter_fn(f.sig.ident.to_string(), &f.block);
            visit::visit_item_fn(self, f);
            self.leave_fn();
        }
        fn visit_item_impl(&mut self, i: &'ast syn::ItemImpl) {
            if i.unsafety.is_some() {
                let (s, e) = self.src.range(i.span());
                let hdr = norm_ws(&self.src.text[s..e]);
                println!("{}\t{}\t<impl>\t0\t\t{}\t", self.src.rel, self.src.line_of(s), hdr);
            }
            visit::visit_item_impl(self, i);
        }
        fn visit_item_mod(&mut self, m: &'ast syn::ItemMod) {
            if m.attrs.iter().any(|a| a.path().is_ident("cfg")) { return; }
            visit::visit_item_mod(self, m);
        }
    }
    for f in files {
        let src = SourceFile::load(repo, f);
        let mut v = V { src: &src, fns: vec![], pres: vec![], blocks: vec![], calls: vec![], closure_depth: 0, closure_call: vec![], let_closure: None };
        v.visit_file(&src.ast);
    }
}

/// --bindscan file...: `file::Qualified::name \t bound names` of every function (the key format of specs/bindings.txt)
fn bindscan(repo: &str, files: &[String]) {
    fn walk(src: &SourceFile, items: &[syn::Item]) {
        for it in items {
            match it {
                syn::Item::Fn(f) => println!("{}::{}\t{}", src.rel, f.sig.ident, collect_bindings(&f.block).join(" ")),
                syn::Item::Impl(im) => {
                    let ty = type_last_ident(&im.self_ty).unwrap_or_default();
                    let tr = im.trait_.as_ref().and_then(|(_, p, _)| p.segments.last().map(|s| s.ident.to_string()));
                    for ii in &im.items {
                        if let syn::ImplItem::Fn(f) = ii {
                            let q = match &tr { Some(t) => format!("{} for {}::{}", t, ty, f.sig.ident), None => format!("{}::{}", ty, f.sig.ident) };
                            println!("{}::{}\t{}", src.rel, q, collect_bindings(&f.block).join(" "));
                        }
                    }
                }
                syn::Item::Mod(m) => { if let Some((_, items)) = &m.content { if !m.attrs.iter().any(|a| a.path().is_ident("cfg")) { walk(src, items); } } }
                _ => {}
            }
        }
    }
    for f in files { let src = SourceFile::load(repo, f); walk(&src, &src.ast.items); }
}

/// --fnscan file...: every function (free, inherent or trait-impl method; not inside cfg'd modules) with a fingerprint of its text
/// (signature + body, comments and white space ignored): `file \t qualified name \t line \t fnv64 hex \t length`
fn fnscan(repo: &str, files: &[String]) {
    fn fnv(s: &str) -> u64 { let mut h: u64 = 0xcbf29ce484222325; for b in s.bytes() { h ^= b as u64; h = h.wrapping_mul(0x100000001b3); } h }
    fn emit(src: &SourceFile, qual: &str, sig: &syn::Signature, whole: Span) {
        let (s, e) = src.range(whole);
        let t = norm_ws(&src.text[s..e]);
        // attributes / doc comments in front of the fn are not part of the fingerprint
        let t = match t.find(&format!("fn {}", sig.ident)) { Some(i) => t[i..].to_string(), None => t };
        println!("{}\t{}\t{}\t{:016x}\t{}", src.rel, qual, src.line_of(s), fnv(&t), t.len());
    }
    fn walk(src: &SourceFile, items: &[syn::Item]) {
        for it in items {
            match it {
                syn::Item::Fn(f) => emit(src, &f.sig.ident.to_string(), &f.sig, f.span()),
                syn::Item::Impl(im) => {
                    let ty = type_last_ident(&im.self_ty).unwrap_or_default();
                    let tr = im.trait_.as_ref().and_then(|(_, p, _)| p.segments.last().map(|s| s.ident.to_string()));
                    for ii in &im.items {
                        if let syn::ImplItem::Fn(f) = ii {
                            let q = match &tr { Some(t) => format!("{} for {}::{}", t, ty, f.sig.ident), None => format!("{}::{}", ty, f.sig.ident) };
                            emit(src, &q, &f.sig, f.span());
                        }
                    }
                }
                syn::Item::Mod(m) => {
                    if let Some((_, items)) = &m.content {
                        if !m.attrs.iter().any(|a| a.path().is_ident("cfg")) { walk(src, items); }
                    }
                }
                _ => {}
            }
        }
    }
    for f in files {
        let src = SourceFile::load(repo, f);
        walk(&src, &src.ast.items);
    }
}

/// --dropscan file...: field order of every struct and the body of every `impl Drop`
fn dropscan(repo: &str, files: &[String]) {
    for f in files {
        let src = SourceFile::load(repo, f);
        for it in &src.ast.items {
            match it {
                syn::Item::Struct(st) => {
                    let mut names = vec![];
                    if let syn::Fields::Named(nf) = &st.fields {
                        for fl in &nf.named {
                            if let Some(id) = &fl.ident { names.push(id.to_string()); }
                        }
                    }
                    println!("STRUCT\t{}\t{}\t{}", src.rel, st.ident, names.join(","));
                }
                syn::Item::Impl(im) => {
                    if let Some((_, p, _)) = &im.trait_ {
                        if p.segments.last().map(|s| s.ident == "Drop").unwrap_or(false) {
                            let ty = type_last_ident(&im.self_ty).unwrap_or_default();
                            for ii in &im.items {
                                if let syn::ImplItem::Fn(fun) = ii {
                                    let (s, e) = src.range(fun.block.span());
                                    println!("DROP\t{}\t{}\t{}", src.rel, ty, norm_ws(&src.text[s..e]));
                                }
                            }
                        }
                    }
                }
                _ => {}
            }
        }
    }
}

/// --lockscan file...: list every `.lock()` / `.try_lock()` call with byte offset and receiver key
fn lockscan(repo: &str, files: &[String]) {
    struct V<'a> { src: &'a SourceFile, fns: Vec<String> }
    impl<'a, 'ast> Visit<'ast> for V<'a> {
        fn visit_expr_method_call(&mut self, m: &'ast syn::ExprMethodCall) {
            let name = m.method.to_string();
            if (name == "lock" || name == "try_lock") && m.args.is_empty() {
                let (s, _) = self.src.range(m.method.span());
                println!("{}\t{}\t{}\t{}\t{}", self.src.rel, s, self.src.line_of(s), recv_key(&m.receiver), self.fns.last().cloned().unwrap_or_default());
            }
            visit::visit_expr_method_call(self, m);
        }
        fn visit_impl_item_fn(&mut self, f: &'ast syn::ImplItemFn) {
            self.fns.push(f.sig.ident.to_string());
            visit::visit_impl_item_fn(self, f);
            self.fns.pop();
        }
        fn visit_item_fn(&mut self, f: &'ast syn::ItemFn) {
            self.fns.push(f.sig.ident.to_string());
            visit::visit_item_fn(self, f);
            self.fns.pop();
        }
        fn visit_macro(&mut self, mac: &'ast syn::Macro) {
            if let Ok(args) = mac.parse_body_with(Punctuated::<Expr, Token![,]>::parse_terminated) {
                for a in args.iter() {
                    self.visit_expr(a);
                }
            }
        }
        fn visit_item_mod(&mut self, m: &'ast syn::ItemMod) {
            if m.attrs.iter().any(|a| a.path().is_ident("cfg")) { return; }
            visit::visit_item_mod(self, m);
        }
    }
    for f in files {
        let src = SourceFile::load(repo, f);
        let mut v = V { src: &src, fns: vec![] };
        v.visit_file(&src.ast);
    }
}
