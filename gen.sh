#!/bin/sh
# usage: gen.sh <unit> [repo]   -> writes gen/<unit>.rs
exec ./check --gen "$@"
