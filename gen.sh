#!/bin/sh
# usage: gen.sh <unit> [repo]
U=$1; R=${2:-/repo}
cat specs/prelude.rs specs/$U.tmpl > gen/$U.full.tmpl && extract/target/release/vextract --repo $R --tmpl gen/$U.full.tmpl --out gen/$U.rs --map gen/$U.map.json
