#!/usr/bin/env python3
"""self-made mutants (sanity sweep of the checks; the independent ones are under /verif/seeded).
usage: tools/mutants.py [name-substring]   -> prints which properties raise VIOLATION / UNDECIDED per mutant"""
import subprocess, sys, os, json
WT = "/tmp/wtm"
M = [
 ("requeue_back", "src/scheduler/job_queue.rs", "core.queue.push_front(job);", "core.queue.push_back(job);", "C01 C02"),
 ("dequeue_when_parked", "src/scheduler/job_queue.rs", "            QueueState::WaitingForUnpark    => None,\n\n            other", "            other", "C01"),
 ("drain_park_from_awoken", "src/scheduler/job_queue.rs", "QueueState::AwokenWhileRunning  => QueueState::Running,\n                            other                           => other", "QueueState::AwokenWhileRunning  => QueueState::WaitingForWake,\n                            other                           => other", "C06"),
 ("drain_no_idle", "src/scheduler/job_queue.rs", "                    if core.state.is_running() {\n                        core.state = QueueState::Idle;\n                    }\n                    done = true;", "                    done = true;", "C03"),
 ("rojn_no_recheck", "src/scheduler/job_queue.rs", "                                    QueueState::WaitingForUnpark    => (),\n", "                                    QueueState::WaitingForUnpark    => { thread::park(); break; },\n", "C06"),
 ("wakequeue_running_noop", "src/scheduler/wake_queue.rs", "QueueState::Running             => queue_core.state = QueueState::AwokenWhileRunning", "QueueState::Running             => queue_core.state = QueueState::Running", "C06"),
 ("wakequeue_no_resched", "src/scheduler/wake_queue.rs", "        core.reschedule_queue(queue, Arc::clone(core));", "        if false { core.reschedule_queue(queue, Arc::clone(core)); }", "C03 C06"),
 ("wakethread_no_unpark", "src/scheduler/wake_thread.rs", "        thread.unpark();", "        if false { thread.unpark(); }", "C06"),
 ("claim_waitingforwake", "src/scheduler/core.rs", "            QueueState::Pending |\n            QueueState::Idle    => {", "            QueueState::Pending | QueueState::WaitingForWake |\n            QueueState::Idle    => {", "C01"),
 ("resched_no_pending", "src/scheduler/core.rs", "                        core.state = QueueState::Pending;\n                        true", "                        true", "C03"),
 ("resched_no_push", "src/scheduler/core.rs", "            self.schedule.lock().expect(\"Schedule lock\").push_back(queue.clone());\n            self.schedule_thread(core);", "            self.schedule_thread(core);", "C03"),
 ("nexttorun_takes_wfw", "src/scheduler/core.rs", "                QueueState::Pending |\n                QueueState::WaitingForPoll(_) => {", "                QueueState::Pending | QueueState::WaitingForWake |\n                QueueState::WaitingForPoll(_) => {", "C01"),
 ("spawn_le", "src/scheduler/core.rs", "if threads.len() < max_threads {", "if threads.len() <= max_threads {", "C17"),
 ("dormant_trylock", "src/scheduler/core.rs", "if let Ok(mut busy) = busy_rc.lock() {", "if let Ok(mut busy) = busy_rc.try_lock() {", "C03 C10"),
 ("poolloop_clear_outside", "src/scheduler/core.rs", "                                if job_data.is_none() {\n                                    *busy = false;\n                                }\n", "", "C03"),
 ("reap_skip", "src/scheduler/core.rs", "                    dead_threads.push((is_busy, dead_thread));\n", "                    dead_threads.push((is_busy, dead_thread));\n                    thread_num += 1;\n", "C15"),
 ("sched_push_front", "src/scheduler/desync_scheduler.rs", "            core.queue.push_back(job);\n\n            match core.state {", "            core.queue.push_front(job);\n\n            match core.state {", "C02"),
 ("sched_accept_panicked", "src/scheduler/desync_scheduler.rs", "                QueueState::Panicked => ScheduleState::Panicked,\n", "", "C15"),
 ("immediate_no_resched", "src/scheduler/desync_scheduler.rs", "        // Not running any more\n        self.reschedule_queue(queue);", "        // Not running any more", "C03"),
 ("sync_idle_nonempty_immediate", "src/scheduler/desync_scheduler.rs", "                QueueState::Pending             => { core.state = QueueState::Running; RunAction::DrainOnThisThread },\n                QueueState::Idle                => { \n                    core.state = QueueState::Running;\n                    if core.queue.len() == 0 {\n                        RunAction::Immediate \n                    } else {\n                        RunAction::DrainOnThisThread\n                    } \n                }\n            }\n        };\n\n        match run_action {\n            RunAction::Immediate            => self.sync_immediate(queue, job),", "                QueueState::Pending             => { core.state = QueueState::Running; RunAction::DrainOnThisThread },\n                QueueState::Idle                => { \n                    core.state = QueueState::Running;\n                    RunAction::Immediate \n                }\n            }\n        };\n\n        match run_action {\n            RunAction::Immediate            => self.sync_immediate(queue, job),", "C02 C04"),
 ("sync_wfw_drain", "src/scheduler/desync_scheduler.rs", "                QueueState::WaitingForWake      => RunAction::WaitForBackground,\n                QueueState::WaitingForUnpark    => RunAction::WaitForBackground,\n                QueueState::WaitingForPoll(_)   => RunAction::WaitForBackground,\n                QueueState::AwokenWhileRunning  => RunAction::WaitForBackground,\n                QueueState::Panicked            => RunAction::Panic,\n                QueueState::Pending             => { core.state = QueueState::Running; RunAction::DrainOnThisThread },\n                QueueState::Idle                => { \n                    core.state = QueueState::Running;\n                    if core.queue.len() == 0 {\n                        RunAction::Immediate \n                    } else {\n                        RunAction::DrainOnThisThread\n                    } \n                }\n            }\n        };\n\n        match run_action {\n            RunAction::Immediate            => self.sync_immediate(queue, job),\n            RunAction::DrainOnThisThread    => self.sync_drain(queue, job),\n            RunAction::WaitForBackground    => self.sync_background(queue, job),\n            RunAction::Panic                => panic!", "                QueueState::WaitingForWake      => { core.state = QueueState::Running; RunAction::DrainOnThisThread },\n                QueueState::WaitingForUnpark    => RunAction::WaitForBackground,\n                QueueState::WaitingForPoll(_)   => RunAction::WaitForBackground,\n                QueueState::AwokenWhileRunning  => RunAction::WaitForBackground,\n                QueueState::Panicked            => RunAction::Panic,\n                QueueState::Pending             => { core.state = QueueState::Running; RunAction::DrainOnThisThread },\n                QueueState::Idle                => { \n                    core.state = QueueState::Running;\n                    if core.queue.len() == 0 {\n                        RunAction::Immediate \n                    } else {\n                        RunAction::DrainOnThisThread\n                    } \n                }\n            }\n        };\n\n        match run_action {\n            RunAction::Immediate            => self.sync_immediate(queue, job),\n            RunAction::DrainOnThisThread    => self.sync_drain(queue, job),\n            RunAction::WaitForBackground    => self.sync_background(queue, job),\n            RunAction::Panic                => panic!", "C01 C04"),
 ("background_exit_on_result", "src/scheduler/desync_scheduler.rs", "            while !*ready {\n                // Use the condition variable", "            while !*ready && result.lock().unwrap().is_none() {\n                // Use the condition variable", "C04 C14"),
 ("steal_no_guard", "src/scheduler/desync_scheduler.rs", "                        let _active = ActiveQueue { queue: &*queue };\n\n                        // We're now running the queue", "                        // We're now running the queue", "C15"),
 ("trysync_d1", "src/scheduler/desync_scheduler.rs", "                    if core.queue.len() == 0 {\n                        core.state = QueueState::Running;\n                        RunAction::Immediate \n                    } else {\n                        RunAction::Busy", "                    core.state = QueueState::Running;\n                    if core.queue.len() == 0 {\n                        RunAction::Immediate \n                    } else {\n                        RunAction::Busy", "C09 C03"),
 ("trysync_pending_runs", "src/scheduler/desync_scheduler.rs", "                QueueState::Pending             => RunAction::Busy,", "                QueueState::Pending             => { core.state = QueueState::Running; RunAction::Immediate },", "C09 C02"),
 ("syncnopanic_panics", "src/scheduler/desync_scheduler.rs", "            RunAction::Panic                => true\n", "            RunAction::Panic                => panic!(\"panicked queue\")\n", "C15"),
 ("despawn_off_by_one", "src/scheduler/desync_scheduler.rs", "            while threads.len() > max_threads {", "            while threads.len() > max_threads + 1 {", "C17"),
 ("future_sync_lazy_slot", "src/scheduler/desync_scheduler.rs", "        self.schedule_job_desync(queue, Box::new(signal_job));\n\n        // The actual job is run", "        if false { self.schedule_job_desync(queue, Box::new(signal_job)); }\n\n        // The actual job is run", "C02 C08"),
 ("signaljob_signal_before_done", "src/scheduler/desync_scheduler.rs", "                done_recv.await.ok();\n                send.signal(());", "                send.signal(());\n                done_recv.await.ok();", "C08 C01"),
 ("take_leaves_some", "src/scheduler/scheduler_future.rs", "            FutureResultState::Some(value)          => { Some(value) }", "            FutureResultState::Some(value)          => { *self = FutureResultState::None; Some(value) }", "C07"),
 ("signal_no_waker_take", "src/scheduler/scheduler_future.rs", "            // Retrieve the waker\n            future_result.waker.take()\n        };", "            // Retrieve the waker\n            future_result.waker.clone()\n        };", "C07"),
 ("cancel_overwrites", "src/scheduler/scheduler_future.rs", "            if future_result.result.is_none() {\n                // Mark the future as canceled", "            if true {\n                // Mark the future as canceled", "C07"),
 ("wakewith_drops_when_woken", "src/scheduler/scheduler_future.rs", "                Woken                           => { *new_state = Woken; Some(new_waker) },", "                Woken                           => { *new_state = Woken; let _ = new_waker; None::<task::Waker> },", "C06"),
 ("drainwaker_no_latch", "src/scheduler/scheduler_future.rs", "                NotWoken                    => { *new_state = Woken; None },", "                NotWoken                    => { *new_state = NotWoken; None },", "C06"),
 ("poll_waker_after_unlock", "src/scheduler/scheduler_future.rs", "                    SchedulerAction::Panic              => { future_result.waker = Some(context.waker().clone()); }", "                    SchedulerAction::Panic              => { }", "C07"),
 ("poll_accept_panicked", "src/scheduler/scheduler_future.rs", "                        QueueState::Panicked                    => SchedulerAction::Panic,", "                        QueueState::Panicked                    => SchedulerAction::WaitForCompletion,", "C15"),
 ("drainqueue_state_before_waker", "src/scheduler/scheduler_future.rs", "                            self.result.lock().expect(\"Scheduler future result\").waker = Some(context.waker().clone());\n                            self.queue.core.lock().expect(\"JobQueue core lock\").state = QueueState::WaitingForPoll(self.id);", "                            self.queue.core.lock().expect(\"JobQueue core lock\").state = QueueState::WaitingForPoll(self.id);\n                            self.result.lock().expect(\"Scheduler future result\").waker = Some(context.waker().clone());", "C06 C07"),
 ("drainqueue_no_guard", "src/scheduler/scheduler_future.rs", "        let _active     = ActiveQueue { queue: &*self.queue };\n        let mut result;", "        let mut result;", "C15"),
 ("syncfuture_finish_on_pending", "src/scheduler/sync_future.rs", "                        // Future is still running\n                        result = Poll::Pending;\n                        WaitingForFuture(future)", "                        // Future is still running\n                        result = Poll::Pending;\n                        self.task_finished.take().map(|finished| finished.send(()));\n                        WaitingForFuture(future)", "C08 C01"),
 ("futurejob_forget_pending", "src/scheduler/future_job.rs", "                    self.action = JobState::WaitingForFuture(action);\n", "", "C03 C06"),
 ("job_not_taken", "src/scheduler/job.rs", "        let action = self.action.take();", "        let action = self.action.take(); self.action = None;", ""),
 ("unsafejob_no_ready", "src/scheduler/unsafe_job.rs", "            (*is_finished.lock().unwrap()) = true;\n", "", "C04"),
 ("guard_no_panicked", "src/scheduler/active_queue.rs", "if thread::panicking() {", "if false {", "C15"),
 ("pipe_notify_separate", "src/pipe.rs", "                                stream_core.pending.push_back(next_item);\n                                stream_core.notify.take()\n                            };", "                                stream_core.pending.push_back(next_item);\n                                None::<task::Waker>\n                            };", "C12"),
 ("pipe_push_front", "src/pipe.rs", "stream_core.pending.push_back(next_item);", "stream_core.pending.push_front(next_item);", "C12"),
 ("pipe_close_no_flag", "src/pipe.rs", "                                stream_core.closed = true;\n                                stream_core.notify.take()", "                                stream_core.notify.take()", "C12"),
 ("pipe_d4", "src/pipe.rs", "                            if stream_core.closed {\n                                return false;\n                            }\n", "", "C16"),
 ("pollnext_no_backpressure_release", "src/pipe.rs", "                // Stream not ready\n                let notify_backpressure = core.backpressure_release_notify.take();", "                // Stream not ready\n                let notify_backpressure = None;", "C12"),
 ("pipestream_drop_no_close", "src/pipe.rs", "        core.closed = true;\n\n        // Wake the stream to finish closing it", "        // Wake the stream to finish closing it", "C16"),
 ("pipewaker_clone", "src/pipe.rs", "let context = arc_self.context.lock().unwrap().take();", "let context = arc_self.context.lock().unwrap().clone();", "C11"),
 ("pipein_skip_on_pending", "src/pipe.rs", "                    // Stop polling when the stream stops generating new events\n                    Poll::Ready(None)   => return false,\n", "                    // Stop polling when the stream stops generating new events\n                    Poll::Ready(None)   => return true,\n", "C11"),
 ("pipectx_keep_pollfn", "src/pipe.rs", "                        if !keep_polling {\n", "                        if false {\n", "C11 C16"),
 ("desync_drop_no_sync", "src/desync.rs", "            sync(&self.queue, move || {\n                let data = data.0;\n                mem::drop(unsafe { Box::from_raw(data) });\n            });", "            let data = data.0;\n            mem::drop(unsafe { Box::from_raw(data) });", "C05 C14"),
 ("desync_deref_outside", "src/desync.rs", "        desync(&self.queue, move || {\n            let data = data.0;\n            job(unsafe { &mut *data });\n        })", "        let d = data.0; let r = unsafe { &mut *d }; let _ = r;\n        desync(&self.queue, move || {\n            let data = data.0;\n            job(unsafe { &mut *data });\n        })", "C14"),
 # ---- session 4: the code that moved from "assumed" to "verified"
 ("s4_notify_nobody", "src/scheduler/core.rs", "                    if let Some(cond_var) = cond_var.upgrade() {\n                        cond_var.notify_one();\n                    }", "                    if let Some(cond_var) = cond_var.upgrade() {\n                        let _ = cond_var;\n                    }", "C04 C13"),
 ("s4_waiters_cleared", "src/scheduler/core.rs", "            core.wake_blocked.retain(|cond_var| cond_var.strong_count() > 0);", "            core.wake_blocked.retain(|cond_var| cond_var.strong_count() > 1);", "C04"),
 ("s4_global_desync_twice", "src/scheduler/desync_scheduler.rs", "pub fn desync<TFn: 'static+Send+FnOnce() -> ()>(queue: &Arc<JobQueue>, job: TFn) {\n    scheduler().desync(queue, job)", "pub fn desync<TFn: 'static+Send+FnOnce() -> ()>(queue: &Arc<JobQueue>, job: TFn) {\n    scheduler().desync(queue, || ());\n    scheduler().desync(queue, job)", "C02 C03"),
 ("s4_global_trysync_blocks", "src/scheduler/desync_scheduler.rs", "    scheduler().try_sync(queue, job)", "    Ok(scheduler().sync(queue, job))", "C09"),
 ("s4_job_new_empty", "src/scheduler/job.rs", "        Job { action: Some(action) }", "        Job { action: { let _ = action; None } }", "C03"),
 ("s4_thread_loop_skips", "src/scheduler/scheduler_thread.rs", "                    (*job)();", "                    if false { (*job)(); }", "C03 C10"),
 ("s4_thread_catches_panics", "src/scheduler/scheduler_thread.rs", "                    (*job)();", "                    std::panic::catch_unwind(std::panic::AssertUnwindSafe(|| (*job)())).ok();", "C03 C10 C15"),
 ("s4_unsafejob_no_pair", "src/scheduler/unsafe_job.rs", "on_finish: Some((on_finish, is_finished)) }", "on_finish: { let _ = (on_finish, is_finished); None } }", "C04 C14"),
 ("s4_desync_new_two_queues", "src/desync.rs", "        let queue = queue();\n", "        let _spare = queue();\n        let queue = queue();\n", "C05"),
 ("s4_reap_join_locked", "src/scheduler/core.rs", "        let mut dead_threads = vec![];\n\n        // Collate the dead threads into a vec\n        {\n", "        let mut dead_threads = vec![];\n\n        // Collate the dead threads into a vec\n        let _keep = self.max_threads.lock().expect(\"Max threads lock\");\n        {\n", "C10 C15"),
 ("s4_nexttorun_takes_panicked", "src/scheduler/core.rs", "                QueueState::Pending |\n                QueueState::WaitingForPoll(_) => {", "                QueueState::Pending | QueueState::Panicked |\n                QueueState::WaitingForPoll(_) => {", "C15"),
 ("s4_detach_releases", "src/scheduler/scheduler_future.rs", "        // Nothing to do, this just drops the future\n", "        // Nothing to do, this just drops the future\n        self.queue.core.lock().expect(\"JobQueue core lock\").state = QueueState::Idle;\n", "C01 C07"),
 ("s4_pool_waker_other_queue", "src/scheduler/core.rs", "let waker       = Arc::new(WakeQueue(Arc::clone(&work), Arc::clone(&work_core)));", "let waker       = Arc::new(WakeQueue(Arc::new(JobQueue::new()), Arc::clone(&work_core)));", "C03 C06"),
 ("s4_sync_waker_other_queue", "src/scheduler/job_queue.rs", "let waker       = Arc::new(WakeThread(Arc::clone(queue), thread::current()));", "let waker       = Arc::new(WakeThread(Arc::new(JobQueue::new()), thread::current()));", "C04 C06"),
]
PROPS = ["C%02d" % i for i in range(1, 18)]
# usage: tools/mutants.py [name-substring] [-j N] [--all]     (default: only the properties each mutant is expected to break, 6 at a time)
import concurrent.futures
args = [a for a in sys.argv[1:]]
J = 6
if "-j" in args:
    J = int(args[args.index("-j") + 1]); del args[args.index("-j"):args.index("-j") + 2]
ALLP = "--all" in args
args = [a for a in args if a != "--all"]
sel = args[0] if args else ""
os.makedirs("/tmp/gen_mut", exist_ok=True)

def run_one(m):
    (name, f, old, new, expect) = m
    wt = "/tmp/mut_" + name
    subprocess.run(["git", "-C", "/repo", "worktree", "remove", "--force", wt], stdout=subprocess.DEVNULL, stderr=subprocess.DEVNULL)
    subprocess.run(["git", "-C", "/repo", "worktree", "add", "-q", "--detach", wt, "HEAD"], check=True)
    try:
        p = os.path.join(wt, f)
        s = open(p).read()
        if s.count(old) < 1:
            return name, None, "PATTERN NOT FOUND"
        open(p, "w").write(s.replace(old, new, 1))
        viol, und = [], []
        exp = expect.split()
        for P in (PROPS if ALLP else exp):
            r = subprocess.run(["./check", P, "--repo", wt], cwd="/verif", stdout=subprocess.PIPE, stderr=subprocess.PIPE, text=True, env=dict(os.environ, VERIF_GEN="/tmp/gen_mut_" + name))
            if r.returncode == 1: viol.append(P)
            elif r.returncode == 2: und.append(P + ":" + r.stdout.strip().split("\n")[-1][:140])
        missed = [e for e in exp if e not in viol]
        extra = [v for v in viol if v not in exp]
        line = "%-34s expect=%-10s VIOLATION=%s %s%s" % (name, expect, ",".join(viol) or "-", ("MISSED=" + ",".join(missed) + " ") if missed else "", ("UNDECIDED=" + str(und[:1]) + ("(+%d)" % (len(und) - 1) if len(und) > 1 else "")) if und else "")
        return name, {"violations": viol, "undecided": und, "expected": exp}, line
    finally:
        subprocess.run(["git", "-C", "/repo", "worktree", "remove", "--force", wt], stdout=subprocess.DEVNULL, stderr=subprocess.DEVNULL)
        subprocess.run(["rm", "-rf", "/tmp/gen_mut_" + name])

results = {}
with concurrent.futures.ThreadPoolExecutor(max_workers=J) as ex:
    for name, res, line in ex.map(run_one, [m for m in M if not sel or sel in m[0]]):
        print(line if res is not None else "%-34s %s" % (name, line), flush=True)
        if res is not None:
            results[name] = res
json.dump(results, open("/tmp/gen_mut/mutants_result.json", "w"), indent=1)
n_missed = sum(1 for r in results.values() if any(e not in r["violations"] for e in r["expected"]))
print("mutants: %d run, %d with an expected property not reported as a violation" % (len(results), n_missed))
