#!/usr/bin/env python3
"""tools/pin.py : (re)writes specs/pins.json — the fingerprints of the functions of /repo that are NOT under contract and whose assumed
behaviour some property relies on (S-pin).  Run by hand, after reading the functions, never by a check."""
import json, subprocess, sys
sys.path.insert(0, "/verif")
from specs.table import PINNED, LOCK_FILES
files = sorted(set(f for (f, q, props, why) in PINNED))
out = subprocess.run(["/verif/extract/target/release/vextract", "--repo", "/repo", "--fnscan"] + files, stdout=subprocess.PIPE, text=True, check=True).stdout
have = {}
for l in out.splitlines():
    f, q, line, h, n = l.split("\t")
    have.setdefault((f, q), []).append(h)
pins = []
for (f, q, props, why) in PINNED:
    hs = have.get((f, q))
    if not hs:
        print("NOT FOUND", f, q); sys.exit(1)
    pins.append({"file": f, "fn": q, "fingerprints": sorted(hs), "properties": props, "assumed": why})
json.dump({"commit": subprocess.run(["git", "-C", "/repo", "rev-parse", "HEAD"], stdout=subprocess.PIPE, text=True).stdout.strip(), "pins": pins}, open("/verif/specs/pins.json", "w"), indent=1)
print("pinned", len(pins), "functions")
