#!/usr/bin/env python3
"""tools/pin.py : (re)writes specs/pins.json — the fingerprints of the functions of /repo that are NOT under contract and whose assumed
behaviour some property relies on (S-pin).  Run by hand, after reading the functions, never by a check."""
import json, subprocess, sys
ROOT = __import__("os").path.dirname(__import__("os").path.dirname(__import__("os").path.abspath(__file__)))
sys.path.insert(0, ROOT)
from specs.table import PINNED, LOCK_FILES
files = sorted(set(f for (f, q, props, why) in PINNED))
out = subprocess.run([ROOT + "/extract/target/release/vextract", "--repo", "/repo", "--fnscan"] + files, stdout=subprocess.PIPE, text=True, check=True).stdout
have = {}
for l in out.splitlines():
    f, q, line, h, n = l.split("\t")
    have.setdefault((f, q), []).append(h)
pins = []
for (f, q, props, why) in PINNED:
    hs = have.get((f, q))
    if not hs:
        print("NOT FOUND", f, q); sys.exit(1)
    pins.append({"file": f, "fn": q, "fingerprints": sorted(hs), "properties": props, "assumed": why})
# shape of every body under contract on the pinned tree: the head (`kind:condition`) of each loop, in order (loop invariants are attached by
# ordinal and must hold at the loop head)
from specs.table import UNITS
shapes = {}
bindings = []
for u in UNITS:
    r = subprocess.run([ROOT + "/check", "--gen", u, "/repo"], stdout=subprocess.PIPE, stderr=subprocess.PIPE, text=True, env=dict(__import__("os").environ, VERIF_GEN="/tmp/gen_pin"))
    m = json.load(open("/tmp/gen_pin/%s.map.json" % u))
    shapes[u] = {x.split("\t")[0]: [h for h in x.split("\t")[1].split(" || ") if h] for x in m.get("shapes", [])}
    bindings.extend(m.get("bindings", []))
open(ROOT + "/specs/bindings.txt", "w").write("\n".join(sorted(set(bindings))) + "\n")
json.dump({"commit": subprocess.run(["git", "-C", "/repo", "rev-parse", "HEAD"], stdout=subprocess.PIPE, text=True).stdout.strip(), "pins": pins, "loops": shapes}, open(ROOT + "/specs/pins.json", "w"), indent=1)
print("pinned", len(pins), "functions")
