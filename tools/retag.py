#!/usr/bin/env python3
"""one-off maintenance tool: splits multi-conjunct untagged contract lines (requires/ensures/invariant) into one conjunct per
line and tags the conjuncts that carry a property by pattern, so that a failing conjunct is attributed precisely."""
import re, sys
RULES = [
    (r"\bvalid\(", "C01,C02,C03,C06", "sections_valid"),
    (r"^!(final\()?g\)?\.q\.holds$|^!g\.q\.holds$|==> !g\.q\.holds$", "C03", "no_token_leak"),
    (r"\.q\.holds", "C01", "holds_token"),
    (r"\bpaid\(", "C03", "debt_paid"),
    (r"\boutsider\(", "C01,C03", "outsider"),
    (r"^guarded$", "C15", "runner_is_guarded"),
    (r"\.q\.current", "C01,C03", "job_in_hand"),
    (r"\.q\.parked", "C06", "not_parked"),
    (r"\.q\.nonblocking", "C09", "nonblocking"),
    (r"\.q\.appends", "C02", "appends_once"),
]
def split_top(s):
    out, depth, cur = [], 0, ""
    for ch in s:
        if ch in "([{": depth += 1
        if ch in ")]}": depth -= 1
        if ch == "," and depth == 0:
            out.append(cur.strip()); cur = ""
        else:
            cur += ch
    if cur.strip(): out.append(cur.strip())
    return out
def main(path):
    lines = open(path).read().split("\n")
    out, fn, inblock = [], "", False
    for l in lines:
        m = re.match(r"\s*// OBLFN \S+ (\S+)", l)
        if m: fn = m.group(1).split("::")[-1].replace("#", "_")
        st = l.strip()
        if re.match(r"^(requires|ensures|invariant_except_break|invariant)\b(?!_)", st):
            inblock = True
            rest = re.sub(r"^(requires|ensures|invariant_except_break|invariant)\s*", "", st)
            if rest:
                ind = re.match(r"\s*", l).group(0)
                kw = st[:len(st) - len(rest)].strip()
                out.append(ind + kw)
                l = ind + "    " + rest
                st = l.strip()
            else:
                out.append(l); continue
        elif st.startswith("//@") or st.startswith("{") or st.startswith("pub fn") or st.startswith("fn ") or st == "":
            inblock = False
        if inblock and st.rstrip().endswith(";"):
            inblock = False
            out.append(l); continue
        if inblock and "// OBL" not in l and not st.startswith("//") and st and "forall" not in st and "({" not in st and "&&&" not in st and "})" not in st and not st.startswith("||"):
            ind = re.match(r"\s*", l).group(0)
            code = st.rstrip(",")
            if code.count("(") != code.count(")"):
                out.append(l); continue
            parts = split_top(code)
            if parts:
                for p in parts:
                    tag = ""
                    for (pat, props, name) in RULES:
                        if re.search(pat, p):
                            tag = "   // OBL %s %s_%s" % (props, fn, name)
                            break
                    out.append("%s%s,%s" % (ind, p, tag))
                continue
        out.append(l)
    open(path, "w").write("\n".join(out))
for p in sys.argv[1:]:
    main(p)
