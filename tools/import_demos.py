#!/usr/bin/env python3
"""tools/import_demos.py : copies the demonstration tests of the saved seeded changes (written by the sub-agents: public API only, each passes on
the unchanged crate and fails with its seed) into the replay crate as tests/s_<seed>.rs, keeps those that build and pass on /repo in the
replay crate's dependency set, and writes specs/demos.json {property: [test, ...]}. Run by hand after saving seeds; never by a check."""
import json, os, glob, subprocess, shutil, re
ROOT = os.path.dirname(os.path.dirname(os.path.abspath(__file__)))
tests = os.path.join(ROOT, "replay", "tests")
for f in glob.glob(os.path.join(tests, "s_*.rs")):
    os.remove(f)
cand = []
for mf in sorted(glob.glob(os.path.join(ROOT, "seeded", "*", "meta.json"))):
    d = os.path.dirname(mf)
    meta = json.load(open(mf))
    demo = os.path.join(d, "seed_demo.rs")
    if not os.path.exists(demo):
        continue
    name = "s_" + re.sub(r"[^A-Za-z0-9]", "_", meta["id"])
    shutil.copy(demo, os.path.join(tests, name + ".rs"))
    cand.append((name, meta["breaks_property"], meta["id"]))
env = dict(os.environ, RUSTFLAGS="--cfg desync_verif", CARGO_NET_OFFLINE="true")
demos, dropped = {}, []
for (name, prop, sid) in cand:
    ok = True
    for attempt in range(2):     # must pass twice on the unchanged crate
        r = subprocess.run(["cargo", "test", "--offline", "--test", name, "--", "--test-threads", "1"], cwd=os.path.join(ROOT, "replay"), env=env, stdout=subprocess.PIPE, stderr=subprocess.PIPE, text=True, timeout=600)
        if r.returncode != 0:
            ok = False
            why = (r.stdout + r.stderr).strip().splitlines()[-1][:160] if (r.stdout + r.stderr).strip() else "?"
            break
    if ok:
        demos.setdefault(prop, []).append({"test": name, "seed": sid})
    else:
        os.remove(os.path.join(tests, name + ".rs"))
        dropped.append((sid, why))
    print(("kept   " if ok else "DROPPED"), sid, flush=True)
json.dump({"demos": demos, "dropped": dropped}, open(os.path.join(ROOT, "specs", "demos.json"), "w"), indent=1)
print({p: len(v) for p, v in sorted(demos.items())}, "dropped:", dropped)
