#!/usr/bin/env python3
"""harmless edits (behaviour-preserving): every check must stay quiet (exit 0), at worst UNDECIDED (exit 2), never VIOLATION"""
import subprocess, sys, os
WT = "/tmp/wtb"
B = [
 ("rename_local_done", "src/scheduler/job_queue.rs", [("let mut done = false;", "let mut finished = false;"), ("while !done {", "while !finished {"), ("                    done = true;\n                } else if", "                    finished = true;\n                } else if"), ("                    // Will restart when we get re-scheduled\n                    done = true;", "                    // Will restart when we get re-scheduled\n                    finished = true;")]),
 ("expect_message", "src/scheduler/scheduler_future.rs", [('self.queue.core.lock().expect("JobQueue core lock").state = QueueState::WaitingForPoll(self.id);', 'self.queue.core.lock().expect("queue core").state = QueueState::WaitingForPoll(self.id);')]),
 ("extra_comment_and_let", "src/scheduler/desync_scheduler.rs", [("        // Call the function to get the result\n        let result = job();", "        // Call the function to get the result (runs on the calling thread)\n        let _started = std::time::Instant::now();\n        let result = job();")]),
 ("remove_debug_assert", "src/scheduler/desync_scheduler.rs", [('        debug_assert!(queue.core.lock().expect("JobQueue core lock").state.is_running());\n\n        // Set the queue as active\n        let _active = ActiveQueue { queue: &*queue };\n\n        // Call the function', '        // Set the queue as active\n        let _active = ActiveQueue { queue: &*queue };\n\n        // Call the function')]),
 ("match_arm_order", "src/scheduler/wake_thread.rs", [("                QueueState::WaitingForWake      => queue_core.state = QueueState::Idle,\n                QueueState::WaitingForUnpark    => queue_core.state = QueueState::Running,", "                QueueState::WaitingForUnpark    => queue_core.state = QueueState::Running,\n                QueueState::WaitingForWake      => queue_core.state = QueueState::Idle,")]),
 ("explicit_drop_guard", "src/scheduler/core.rs", [("            self.schedule.lock().expect(\"Schedule lock\").push_back(queue.clone());\n            self.schedule_thread(core);", "            { let mut schedule = self.schedule.lock().expect(\"Schedule lock\"); schedule.push_back(queue.clone()); }\n            self.schedule_thread(core);")]),
 ("pipe_depth_const", "src/pipe.rs", [("const PIPE_BACKPRESSURE_COUNT: usize = 5;", "const PIPE_BACKPRESSURE_COUNT: usize = 8;")]),
 ("if_let_instead_of_map", "src/scheduler/scheduler_future.rs", [("        // If we retrieved a waker from the result, wake it up\n        waker.map(|waker| waker.wake());", "        // If we retrieved a waker from the result, wake it up\n        if let Some(waker) = waker { waker.wake(); }")]),
]
PROPS = ["C%02d" % i for i in range(1, 18)]
sel = sys.argv[1] if len(sys.argv) > 1 else ""
for (name, f, edits) in B:
    if sel and sel not in name: continue
    subprocess.run(["git", "-C", "/repo", "worktree", "remove", "--force", WT], stdout=subprocess.DEVNULL, stderr=subprocess.DEVNULL)
    subprocess.run(["git", "-C", "/repo", "worktree", "add", "-q", "--detach", WT, "HEAD"], check=True)
    p = os.path.join(WT, f); s = open(p).read(); ok = True
    for (old, new) in edits:
        if old not in s: print("%-24s PATTERN NOT FOUND: %s" % (name, old[:40])); ok = False; break
        s = s.replace(old, new, 1)
    if not ok: continue
    open(p, "w").write(s)
    b = subprocess.run(["cargo", "build", "--offline"], cwd=WT, stdout=subprocess.PIPE, stderr=subprocess.PIPE, text=True)
    if b.returncode != 0: print("%-24s DOES NOT COMPILE" % name); continue
    viol, und = [], []
    for P in PROPS:
        r = subprocess.run(["./check", P, "--repo", WT], cwd="/verif", stdout=subprocess.PIPE, stderr=subprocess.PIPE, text=True, env=dict(os.environ, VERIF_GEN="/tmp/gen_benign"))
        if r.returncode == 1: viol.append(P)
        elif r.returncode == 2: und.append(P)
    print("%-24s VIOLATION=%s UNDECIDED=%s" % (name, ",".join(viol) or "-", ",".join(und) or "-"), flush=True)
subprocess.run(["rm", "-rf", WT + "/target"]); subprocess.run(["git", "-C", "/repo", "worktree", "remove", "--force", WT], stdout=subprocess.DEVNULL, stderr=subprocess.DEVNULL)
