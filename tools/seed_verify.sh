#!/bin/bash
# usage: tools/seed_verify.sh <ID> [srcdir]  — confirms a seeded change (suite passes, demo fails with / passes without) and runs all checks on it
ID=$1; SRC=${2:-/tmp/seed/$ID/out}; TAG=${3:-$ID}; WT=/tmp/sv_$TAG
git -C /repo worktree remove --force $WT 2>/dev/null
git -C /repo worktree add -q --detach $WT HEAD || exit 1
cp $SRC/seed_demo.rs $WT/tests/seed_demo.rs
cd $WT
echo "== demo WITHOUT change"
DEMO_CLEAN=$(cargo nextest run --offline --test seed_demo --no-fail-fast 2>&1 | grep -E "Summary" | tail -1); echo "$DEMO_CLEAN"
git apply $SRC/patch.diff || { echo "PATCH DOES NOT APPLY"; exit 1; }
echo "== suite WITH change (excluding demo)"
SUITE=$(cargo nextest run --workspace --no-fail-fast --tool-config-file pb:/w/lib/nextest.toml --profile pb --test-threads 8 --offline -E 'not binary(seed_demo)' 2>&1 | grep -E "Summary|FAIL \[" | sort -u); echo "$SUITE"
echo "== demo WITH change"
DEMO_MUT=$(cargo nextest run --offline --test seed_demo --no-fail-fast 2>&1 | grep -E "Summary" | tail -1); echo "$DEMO_MUT"
rm -f tests/seed_demo.rs
cd ${VROOT:-/verif}
echo "== checks on the changed tree"
RES=""
for P in C01 C02 C03 C04 C05 C06 C07 C08 C09 C10 C11 C12 C13 C14 C15 C16 C17; do
  OUT=$(VERIF_GEN=/tmp/gen_seed_$TAG ./check $P --repo $WT 2>&1); RC=$?
  if [ $RC -eq 1 ]; then RES="$RES $P:VIOLATION"; echo "$OUT" | grep -E "^  obligation|^VIOLATION" | head -6; fi
  if [ $RC -eq 2 ]; then RES="$RES $P:UNDECIDED"; echo "$OUT" | head -2; fi
done
echo "RESULT $TAG:$RES"
echo "$DEMO_CLEAN" > /tmp/sv_$TAG.demo_clean; echo "$SUITE" > /tmp/sv_$TAG.suite; echo "$DEMO_MUT" > /tmp/sv_$TAG.demo_mut; echo "$RES" > /tmp/sv_$TAG.res
rm -rf $WT/target
git -C /repo worktree remove --force $WT
