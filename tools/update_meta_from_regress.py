#!/usr/bin/env python3
"""tools/update_meta_from_regress.py <regress log> : brings the verdict recorded for the SEEDED property in each seeded/<id>/meta.json
(`checks_on_changed_tree`) up to date with a finished tools/regress.sh run (the thorough tier's self-test reads it). Hand-run, never by a check."""
import sys, re, json, os
ROOT = os.path.dirname(os.path.dirname(os.path.abspath(__file__)))
n = 0
for l in open(sys.argv[1]):
    m = re.match(r"RESULT seed (\S+):(.*) expected\[(C\d+)\]", l)
    if not m:
        continue
    sid, res, exp = m.group(1), m.group(2), m.group(3)
    verdict = "VIOLATION" if exp + ":VIOLATION" in res else ("UNDECIDED" if exp + ":UNDECIDED" in res else "OK")
    p = os.path.join(ROOT, "seeded", sid, "meta.json")
    if not os.path.exists(p):
        continue
    meta = json.load(open(p))
    old = meta.get("checks_on_changed_tree", "")
    toks = [t for t in old.split() if not t.startswith(exp + ":")]
    new = " ".join(sorted(toks + ["%s:%s" % (exp, verdict)])) if verdict != "OK" else " ".join(toks)
    if new != old:
        meta["checks_on_changed_tree"] = new
        meta["checks_on_changed_tree_note"] = "verdict for the seeded property refreshed from tools/regress.sh (%s)" % os.path.basename(os.path.dirname(sys.argv[1]) or sys.argv[1])
        json.dump(meta, open(p, "w"), indent=1)
        n += 1
        print("updated", sid, ":", old, "->", new)
print(n, "metas updated")
