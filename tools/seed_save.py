#!/usr/bin/env python3
"""tools/seed_save.py <ID> <breaks> <needs...> : copies a confirmed seeded change into /verif/seeded/<ID>/ with meta.json"""
import sys, os, json, shutil
sid = sys.argv[1]; breaks = sys.argv[2]; needs = sys.argv[3]
src = "/tmp/seed/%s/out" % sid.split("-")[0] if len(sys.argv) < 5 else sys.argv[4]
dst = "/verif/seeded/%s" % sid
os.makedirs(dst, exist_ok=True)
for f in ["patch.diff", "seed_demo.rs", "notes.md"]:
    if os.path.exists(os.path.join(src, f)):
        shutil.copy(os.path.join(src, f), os.path.join(dst, f))
def rd(p):
    return open(p).read().strip() if os.path.exists(p) else ""
base = "/tmp/sv_%s" % sid
meta = {
    "id": sid, "breaks_property": breaks, "needs_to_manifest": needs,
    "author": "independent sub-agent given only the property text and a scratch worktree",
    "confirmed_by_me": {
        "command": "tools/seed_verify.sh %s (scratch worktree of /repo HEAD; removed afterwards)" % sid,
        "demo_without_change": rd(base + ".demo_clean"),
        "existing_suite_with_change": rd(base + ".suite"),
        "demo_with_change": rd(base + ".demo_mut"),
    },
    "checks_on_changed_tree": rd(base + ".res"),
}
json.dump(meta, open(os.path.join(dst, "meta.json"), "w"), indent=1)
print(json.dumps(meta, indent=1)[:600])
