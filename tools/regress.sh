#!/bin/bash
# regression of the checks: the unchanged tree (all 17 must be OK), every saved seeded change (must give the verdict recorded in its
# meta.json or better) and every saved behaviour-preserving refactoring (must never give a VIOLATION).  usage: tools/regress.sh [jobs]
# Seeds are only re-checked here (their demos were confirmed against the real crate when they were saved: tools/seed_verify.sh).
cd /verif
J=${1:-4}
echo "== unchanged tree"
for P in C01 C02 C03 C04 C05 C06 C07 C08 C09 C10 C11 C12 C13 C14 C15 C16 C17; do VERIF_GEN=/tmp/gen_regress ./check $P --repo /repo 2>&1 | tail -1 | awk '{print $1,$2}'; done | sort | uniq -c
one() {
  kind=$1; id=$2; patch=$3; tag=$(echo "$kind-$id" | tr '/' '_'); WT=/tmp/rg_$tag
  git -C /repo worktree remove --force $WT 2>/dev/null
  git -C /repo worktree add -q --detach $WT HEAD || { echo "RESULT $kind $id: WORKTREE FAILED"; return; }
  if ! git -C $WT apply $patch 2>/dev/null; then echo "RESULT $kind $id: PATCH DOES NOT APPLY"; git -C /repo worktree remove --force $WT; return; fi
  RES=""
  for P in C01 C02 C03 C04 C05 C06 C07 C08 C09 C10 C11 C12 C13 C14 C15 C16 C17; do
    VERIF_GEN=/tmp/gen_rg_$tag ./check $P --repo $WT >/dev/null 2>&1; RC=$?
    [ $RC -eq 1 ] && RES="$RES $P:VIOLATION"; [ $RC -eq 2 ] && RES="$RES $P:UNDECIDED"
  done
  EXP=""; [ "$kind" = seed ] && EXP=" expected[$(python3 -c "import json;print(json.load(open('/verif/seeded/$id/meta.json'))['breaks_property'])" 2>/dev/null)]"
  echo "RESULT $kind $id:${RES:- all OK}$EXP"
  git -C /repo worktree remove --force $WT; rm -rf /tmp/gen_rg_$tag
}
export -f one
echo "== seeds and benign refactorings ($J at a time)"
( for d in seeded/*/; do id=$(basename $d); echo "seed $id /verif/seeded/$id/patch.diff"; done
  for f in benign/*/*.diff; do echo "benign $(basename $(dirname $f))/$(basename $f .diff) /verif/$f"; done ) | xargs -P $J -L 1 bash -c 'one $0 $1 $2'
