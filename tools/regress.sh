#!/bin/bash
# regression of the checks: unchanged tree (all 17 must be OK) + every saved seed (must give the verdict recorded in its meta.json or better)
cd /verif
echo "== unchanged tree"
for P in C01 C02 C03 C04 C05 C06 C07 C08 C09 C10 C11 C12 C13 C14 C15 C16 C17; do VERIF_GEN=/tmp/gen_regress ./check $P --repo /repo 2>&1 | tail -1 | awk '{print $1,$2}'; done | sort | uniq -c
echo "== seeds"
for d in seeded/*/; do id=$(basename $d); tools/seed_verify.sh ${id%%-*} /verif/seeded/$id $id 2>&1 | grep -E "^RESULT"; done
