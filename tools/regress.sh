#!/bin/bash
# regression of the checks: the unchanged tree (all 17 must be OK), every saved seeded change (the check of the property it was written to
# break must give the verdict recorded in its meta.json or better) and every saved behaviour-preserving refactoring (all 17 checks; must
# never give a VIOLATION).  usage: tools/regress.sh [jobs] [all]   ("all": run all 17 checks on the seeds too)
# Seeds are only re-checked here (their demos were confirmed against the real crate when they were saved: tools/seed_verify.sh).
VROOT=${VROOT:-/verif}; export VROOT
cd $VROOT
J=${1:-4}; export SEEDMODE=${2:-expected}
ALL="C01 C02 C03 C04 C05 C06 C07 C08 C09 C10 C11 C12 C13 C14 C15 C16 C17"; export ALL
echo "== unchanged tree"
for P in $ALL; do VERIF_GEN=/tmp/gen_regress ./check $P --repo /repo 2>&1 | tail -1 | awk '{print $1,$2}'; done | sort | uniq -c
one() {
  kind=$1; id=$2; patch=$3; tag=$(echo "$kind-$id" | tr '/' '_'); WT=/tmp/rg_$tag
  cd $VROOT
  git -C /repo worktree remove --force $WT 2>/dev/null
  git -C /repo worktree add -q --detach $WT HEAD || { echo "RESULT $kind $id: WORKTREE FAILED"; return; }
  if ! git -C $WT apply $patch 2>/dev/null; then echo "RESULT $kind $id: PATCH DOES NOT APPLY"; git -C /repo worktree remove --force $WT; return; fi
  PROPS="$ALL"; EXP=""
  if [ "$kind" = seed ]; then
    E=$(python3 -c "import json;print(json.load(open('/verif/seeded/$id/meta.json'))['breaks_property'])" 2>/dev/null); EXP=" expected[$E]"
    [ "$SEEDMODE" = expected ] && PROPS="$E"
  fi
  RES=""
  for P in $PROPS; do
    SKIP=""; [ "$kind" = seed ] && SKIP="s_$(echo $id | tr -c 'A-Za-z0-9\n' '_')"     # a seed is never judged by its own demonstration scenario
    VERIF_SKIP_DEMO=$SKIP VERIF_GEN=/tmp/gen_rg_$tag ./check $P --repo $WT >/dev/null 2>&1; RC=$?
    [ $RC -eq 1 ] && RES="$RES $P:VIOLATION"; [ $RC -eq 2 ] && RES="$RES $P:UNDECIDED"
  done
  echo "RESULT $kind $id:${RES:- all OK}$EXP"
  git -C /repo worktree remove --force $WT; rm -rf /tmp/gen_rg_$tag
}
export -f one
echo "== seeds ($SEEDMODE) and benign refactorings ($J at a time)"
# REGRESS_ORDER=benign lists the refactorings first (a run that is cut short then still covers the false-alarm side); REGRESS_ONLY=seed|benign
list_seeds() { [ "$REGRESS_ONLY" = benign ] || for d in /verif/seeded/*/; do id=$(basename $d); echo "seed $id /verif/seeded/$id/patch.diff"; done; }
list_benign() { [ "$REGRESS_ONLY" = seed ] || for f in /verif/benign/*/*.diff; do echo "benign $(basename $(dirname $f))/$(basename $f .diff) $f"; done; }
( if [ "$REGRESS_ORDER" = benign ]; then list_benign; list_seeds; else list_seeds; list_benign; fi ) | xargs -P $J -L 1 bash -c 'one $0 $1 $2'
