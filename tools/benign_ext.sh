#!/bin/bash
# usage: tools/benign_ext.sh <dir-with-NN.diff> <tag>  — applies each behaviour-preserving patch to a scratch worktree of /repo HEAD and runs
# all 17 quick checks on it. A VIOLATION here is a FALSE ALARM of the checks; UNDECIDED (exit 2) is tolerated but counted.
DIR=$1; TAG=$2
cd ${VROOT:-/verif}
for d in $DIR/*.diff; do
  n=$(basename $d .diff); WT=/tmp/bn_${TAG}_$n
  git -C /repo worktree remove --force $WT 2>/dev/null
  git -C /repo worktree add -q --detach $WT HEAD || exit 1
  git -C $WT apply $d || { echo "BENIGN $TAG/$n: PATCH DOES NOT APPLY"; git -C /repo worktree remove --force $WT; continue; }
  RES=""
  for P in C01 C02 C03 C04 C05 C06 C07 C08 C09 C10 C11 C12 C13 C14 C15 C16 C17; do
    OUT=$(VERIF_GEN=/tmp/gen_bn_${TAG}_$n ./check $P --repo $WT 2>&1); RC=$?
    if [ $RC -eq 1 ]; then RES="$RES $P:VIOLATION"; echo "$OUT" | grep -E "^  obligation|^VIOLATION" | head -4; fi
    if [ $RC -eq 2 ]; then RES="$RES $P:UNDECIDED"; echo "$OUT" | grep UNDECIDED | head -1 | cut -c1-400; fi
  done
  echo "BENIGN $TAG/$n:${RES:- all OK}"
  git -C /repo worktree remove --force $WT; rm -rf /tmp/gen_bn_${TAG}_$n
done
