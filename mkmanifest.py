#!/usr/bin/env python3
"""writes MANIFEST.json from specs/table.py (single source of truth)"""
import json, os, sys, subprocess
ROOT = os.path.dirname(os.path.abspath(__file__))
sys.path.insert(0, ROOT)
from specs.table import PROPS, UNITS, NOT_APPLICABLE
props = [json.loads(l) for l in open(os.path.join(ROOT, "properties.jsonl"))]
checks = []
for p in props:
    pid = p["id"]
    if pid not in PROPS:
        continue
    P = PROPS[pid]
    checks.append({
        "property_id": pid,
        "quick_cmd": "./check %s --tier quick" % pid,
        "thorough_cmd": "./check %s --tier thorough" % pid,
        "evidence_file": "/verif/evidence/%s.json" % pid,
        "replay_cmd_template": "./check %s --replay {path}" % pid,
        "engine": "verus-contracts",
        "level_claimed": {"category": "proof", "text": P["how"], "design_ref": P["design_ref"]},
        "level_note": P["level_note"],
        "technique": P["technique"],
    })
na = [{"property_id": p["id"], "reason": NOT_APPLICABLE.get(p["id"], "not yet built: the contracts this property needs are not under verification yet (work in progress)")} for p in props if p["id"] not in PROPS]
hooks_commits = subprocess.run(["git", "-C", "/repo", "log", "--format=%H %s"], stdout=subprocess.PIPE, text=True).stdout.splitlines()
m = {
    "version": 1,
    "setup_cmd": "cd /verif/extract && cargo build --release --offline",
    "hooks": {
        "guard": "--cfg desync_verif",
        "enable": "RUSTFLAGS='--cfg desync_verif' cargo test --offline (used only by the real-crate replay crate /verif/replay; the Verus checks read the sources and need no build of /repo)",
        "baseline_off_cmd": "cd /repo && cargo nextest run --workspace --no-fail-fast --tool-config-file pb:/w/lib/nextest.toml --profile pb --test-threads 8 --offline",
        "source_commits": [l.split()[0] for l in hooks_commits if "verif hooks" in l],
        "add_only": True,
    },
    "engines": [{"name": "verus-contracts", "path": "/verif/check", "serves_properties": [c["property_id"] for c in checks],
                 "kind_free_text": "mechanical extraction (syn) of the real function bodies into Verus templates carrying hand-written contracts over a ghost run-token protocol; Verus/z3 discharges every obligation; real-crate replays through cfg-guarded hooks"}],
    "checks": checks,
    "not_applicable": na,
    "notes": "See DESIGN.md (4.1: what is believed). Exit 0 = every obligation of the property discharged on this tree; exit 1 + VIOLATION line = a tagged obligation was refuted (or a structural obligation / bounded stand-in failed); exit 2 + UNDECIDED line = nothing was refuted but the property could not be decided on this tree (lost anchor, construct outside the dialect, a function outside every contract changed, an auxiliary proof step failed, tooling) - never a violation. tools/regress.sh re-runs the checks on 107 seeded property-breaking changes and 123 behaviour-preserving refactorings written by independent sub-agents (/verif/seeded, /verif/benign).",
}
json.dump(m, open(os.path.join(ROOT, "MANIFEST.json"), "w"), indent=1)
print("MANIFEST.json written: %d checks, %d not_applicable" % (len(checks), len(na)))
